"""C29 — HTTP/2 server flow control: H-tie.  The real twisted.web._http2.H2Connection (with a real Site / Request) is
driven over a StringTransport by an `h2` client state machine; the reactor is a one-call-per-step stub so that each
iteration of _sendPrioritisedData is one step.  `priority` is absent from the sandbox: vendor/priority (round robin)
is put on sys.path here, by the harness only.

case = {"iw": w, "apps": [app per stream], "ops": [op ...]}
  app = ["static", [chunk lengths]]      every chunk written and the response finished while the request is rendered
      | ["manual", [chunk lengths]]      the history says when the next chunk is written / the response is finished
      | ["producer", chunk, n]           IPushProducer registered on the request: writes chunks while not paused,
                                         unregisters and finishes after the n-th
      | ["pre", preamble, mode, chunk, n]   writes `preamble` bytes directly, THEN registers a producer for n chunks;
                                         mode "lazy" = push producer that looks whether it was paused BEFORE finishing:
                                         when its last write paused it, it calls request.finish() only from the next
                                         resumeProducing(), without writing;
                                         mode "push" (IPushProducer, started unless it was paused during registration)
                                         or "pull" (IPullProducer: H2Stream wraps it in _PullToPush / cooperate();
                                         the global Cooperator is replaced by one that ticks on the harness reactor;
                                         pull cases are checked by the oracle only, the model has no cooperator)
  "late": L  (optional) the last L applications are not requested at setup; op ["req"] sends the next such request
  op  = ["adv"] one pending reactor call (one _sendPrioritisedData iteration) | ["wu", k, inc] | ["iw", v] | ["mf", v]
      | ["write", k] | ["finish", k] | ["req"]     k = 0: connection window, k >= 1: the k-th stream (id 2k-1)
      | ["prio", sid]   the peer sends a PRIORITY frame for stream id sid: a live stream, a finished one, or an idle one
                    (an odd id the client has not opened yet -- browser-style tree pre-building; it may be opened later
                    by a "req").  Histories with "prio" are checked by the oracle only: the model's scheduler knows
                    blocked / unblocked and insertion order, not PRIORITY frames
      | ["tpause"] | ["tresume"]   the transport calls pauseProducing() / resumeProducing() on the connection
                    (back-pressure; a tpause while paused is skipped: a second pauseProducing would replace
                    _consumerBlocked and drop what waits behind it)
      | ["drain"]   run pending reactor calls until the loop parks or nothing was sent for 12 consecutive calls (at
                    most 300); the observation then also reports, per open stream, bytes written by the application,
                    bytes received and whether it was finished ("~k:w/r[f]"), and the oracle requires that NOTHING
                    SENDABLE REMAINS: no open stream with positive stream and connection window has unsent bytes, and
                    no finished, fully delivered stream with a non-negative window is still without END_STREAM
Requests not marked late are sent (and rendered) before the first op.  After the history the peer grants whatever window is still
missing (per stream only where the stream window is short, on the connection only where that one is short) and the
reactor is pumped until quiescent: every written byte must have arrived and every finished response must be ended.
"""
from __future__ import annotations

import os
import sys

from harness.common import VERIF, Failure, Spec, coq_list

_VENDOR = os.path.join(VERIF, "vendor")


class _StepReactor:
    """IReactorTime as far as H2Connection uses it; runs exactly one pending call per step()."""

    def __init__(self):
        self.calls = []

    def callLater(self, delay, f, *a, **kw):
        entry = [f, a, kw, True]
        self.calls.append(entry)

        class DC:
            def cancel(self_):
                entry[3] = False

            def active(self_):
                return entry[3]

        return DC()

    def step(self):
        while self.calls:
            f, a, kw, live = self.calls.pop(0)
            if live:
                f(*a, **kw)
                return True
        return False


def _byte(k, pos):
    return (k * 37 + pos * 7 + (pos >> 8)) % 251


def _apps(case):
    if "apps" in case:
        return case["apps"]
    return [["static", b] for b in case["bodies"]]


class _Windows:
    """the peer's view of the server's send windows, from the schedule alone (shared by driver and oracle)"""

    def __init__(self, iw, n):
        self.iw, self.cw, self.mf = iw, 65535, 16384
        self.sw = {k: iw for k in range(1, n + 1)}   # a stream not yet requested follows the initial window
        self.done = set()
        self.opened = set()

    def op(self, op):
        if op[0] == "wu":
            if op[1] == 0:
                self.cw += op[2]
            elif op[1] in self.sw and op[1] not in self.done and op[1] in self.opened:
                self.sw[op[1]] += op[2]
        elif op[0] == "iw":
            for k in self.sw:
                if k not in self.done:
                    self.sw[k] += op[1] - self.iw
            self.iw = op[1]
        elif op[0] == "mf":
            self.mf = op[1]

    def negative(self):
        return any(self.sw[k] < 0 for k in self.sw if k not in self.done)


def impl(case) -> str:
    from twisted.internet import task as _task
    saved = _task._theCooperator
    try:
        return _impl(case)
    finally:
        _task._theCooperator = saved


def _impl(case) -> str:
    if _VENDOR not in sys.path:
        sys.path.insert(0, _VENDOR)
    import h2.config
    import h2.connection
    import h2.events
    import h2.exceptions
    import h2.settings
    from twisted.internet.testing import StringTransport
    from twisted.web import _http2, resource, server

    apps = _apps(case)
    n = len(apps)
    frames = []       # DATA / END_STREAM seen by the client during the current op
    pev = []          # producer calls during the current op
    written = {k: 0 for k in range(1, n + 1)}
    finished = set()
    reqs = {}
    prods = {}

    def emit(k, request, ln):
        pos = written[k]
        written[k] += ln
        request.write(bytes(_byte(k - 1, pos + j) for j in range(ln)))

    class Prod:
        def __init__(self, k, request, chunk, count, lazy=False):
            self.k, self.request, self.chunk, self.count = k, request, chunk, count
            self.sent, self.paused, self.done, self.lazy = 0, False, False, lazy

        def run(self):
            self.paused = False
            while not self.paused and self.sent < self.count:
                self.sent += 1
                emit(self.k, self.request, self.chunk)
            if self.lazy and self.paused:
                return
            if self.sent == self.count and not self.done:
                self.done = True
                self.request.unregisterProducer()
                finished.add(self.k)
                self.request.finish()

        def resumeProducing(self):
            pev.append(f"R{2 * self.k - 1}")
            self.run()

        def pauseProducing(self):
            pev.append(f"P{2 * self.k - 1}")
            self.paused = True

        def stopProducing(self):
            self.paused = True
            self.done = True

    class PullProd:
        """IPullProducer: one chunk per resumeProducing; unregisters and finishes after the last"""

        def __init__(self, k, request, chunk, count):
            self.k, self.request, self.chunk, self.count = k, request, chunk, count
            self.sent, self.done = 0, False

        def resumeProducing(self):
            if self.sent < self.count:
                self.sent += 1
                emit(self.k, self.request, self.chunk)
            if self.sent >= self.count and not self.done:
                self.done = True
                self.request.unregisterProducer()
                finished.add(self.k)
                self.request.finish()

        def stopProducing(self):
            self.done = True

    class Body(resource.Resource):
        isLeaf = True

        def render_GET(self, request):
            k = int(request.args[b"k"][0])
            app = apps[k - 1]
            if app[0] == "static":
                for ln in app[1]:
                    emit(k, request, ln)
                finished.add(k)
                request.finish()
            elif app[0] == "manual":
                reqs[k] = [request, list(app[1])]
            elif app[0] == "producer":
                p = prods[k] = Prod(k, request, app[1], app[2])
                request.registerProducer(p, True)
                if not p.paused:
                    p.run()
            else:
                _, pre, mode, chunk, count = app
                if pre:
                    emit(k, request, pre)
                if mode in ("push", "lazy"):
                    p = prods[k] = Prod(k, request, chunk, count, lazy=(mode == "lazy"))
                    request.registerProducer(p, True)
                    if not p.paused:
                        p.run()
                else:
                    p = prods[k] = PullProd(k, request, chunk, count)
                    request.registerProducer(p, False)
            return server.NOT_DONE_YET

    reactor = _StepReactor()
    # pull producers are driven by twisted.internet.task.cooperate(): let the global Cooperator tick on this reactor,
    # one work unit per tick (restored by impl())
    from twisted.internet import task as _task
    _task._theCooperator = _task.Cooperator(terminationPredicateFactory=lambda: (lambda: True),
                                            scheduler=lambda f: reactor.callLater(0, f))
    site = server.Site(Body())

    conn = _http2.H2Connection(reactor=reactor)
    conn.timeOut = None
    conn.requestFactory = server.Request
    conn.site = site
    conn.factory = site
    tr = StringTransport()
    conn.makeConnection(tr)
    cl = h2.connection.H2Connection(h2.config.H2Configuration(client_side=True, header_encoding=None))
    cl.initiate_connection()
    cl.update_settings({h2.settings.SettingCodes.INITIAL_WINDOW_SIZE: case["iw"]})

    got = {}          # stream index -> received bytes
    ended = set()
    violations = []
    win = _Windows(case["iw"], n)

    def pump():
        for _ in range(50):
            out = cl.data_to_send()
            if out:
                conn.dataReceived(out)
            back = tr.value()
            tr.clear()
            if not out and not back:
                return
            if back:
                try:
                    # one frame per receive_data call: the h2 client applies an acknowledged MAX_FRAME_SIZE only
                    # after the call that carried the ACK, and would reject a larger DATA frame coalesced with it
                    evs = []
                    while len(back) >= 9:
                        ln = int.from_bytes(back[:3], "big")
                        evs += cl.receive_data(back[:9 + ln])
                        back = back[9 + ln:]
                    if back:
                        evs += cl.receive_data(back)
                except h2.exceptions.FlowControlError:
                    violations.append("client-FlowControlError")
                    return
                for e in evs:
                    if isinstance(e, h2.events.DataReceived):
                        if not e.data:
                            continue        # the empty DATA frame that carries END_STREAM
                        k = (e.stream_id + 1) // 2
                        got.setdefault(k, bytearray()).extend(e.data)
                        win.sw[k] -= len(e.data)
                        win.cw -= len(e.data)
                        frames.append(f"d{e.stream_id}:{len(e.data)}")
                    elif isinstance(e, h2.events.StreamEnded):
                        k = (e.stream_id + 1) // 2
                        ended.add(k)
                        win.done.add(k)
                        frames.append(f"e{e.stream_id}")
        raise AssertionError("pump did not quiesce")

    def obs():
        if not frames and not pev:
            return "-"
        return ",".join(frames) + ("/" + ",".join(pev) if pev else "")

    late = list(range(n - case.get("late", 0) + 1, n + 1))

    def request(k):
        cl.send_headers(2 * k - 1, [(b":method", b"GET"), (b":path", b"/?k=%d" % k), (b":scheme", b"http"),
                                    (b":authority", b"x")], end_stream=True)
        win.opened.add(k)

    pump()
    for k in range(1, n + 1):
        if k not in late:
            request(k)
    pump()
    out = [obs()]
    dead = None
    tpaused = [False]
    for op in case["ops"]:
        del frames[:]
        del pev[:]
        if violations:
            # the h2 client has torn the connection down (it raised FlowControlError on what the server sent)
            out.append("-")
            continue
        try:
            if op[0] == "adv":
                reactor.step()
            elif op[0] == "wu":
                k = op[1]
                if k == 0:
                    cl.increment_flow_control_window(op[2])
                    win.op(op)
                elif k <= n and k not in ended and k in win.opened:
                    cl.increment_flow_control_window(op[2], 2 * k - 1)
                    win.op(op)
            elif op[0] == "iw":
                cl.update_settings({h2.settings.SettingCodes.INITIAL_WINDOW_SIZE: op[1]})
                win.op(op)
            elif op[0] == "mf":
                cl.update_settings({h2.settings.SettingCodes.MAX_FRAME_SIZE: op[1]})
            elif op[0] == "write":
                r = reqs.get(op[1])
                if r and r[1] and op[1] not in finished:
                    emit(op[1], r[0], r[1].pop(0))
            elif op[0] == "finish":
                r = reqs.get(op[1])
                if r and op[1] not in finished:
                    finished.add(op[1])
                    r[0].finish()
            elif op[0] == "req":
                if late:
                    request(late.pop(0))
            elif op[0] == "prio":
                cl.prioritize(op[1], weight=op[2] if len(op) > 2 else 16)
            elif op[0] == "tpause":
                if not tpaused[0]:
                    tpaused[0] = True
                    conn.pauseProducing()
            elif op[0] == "tresume":
                if tpaused[0]:
                    tpaused[0] = False
                    conn.resumeProducing()
            elif op[0] == "drain":
                quiet = 0
                for _ in range(300):
                    before = len(frames) + len(pev)
                    if not reactor.step():
                        break
                    pump()
                    if len(frames) + len(pev) == before:
                        quiet += 1
                        if quiet >= 12:
                            break
                    else:
                        quiet = 0
            pump()
        except h2.exceptions.FlowControlError:
            # raised inside the server's sending loop (h2 refuses to exceed the window): the loop is not rescheduled
            dead = dead or "X:FlowControlError"
            frames.append("X:FlowControlError")
            pump()
        if op[0] == "drain" and not tpaused[0]:
            rep = ",".join(f"{k}:{written[k]}/{len(got.get(k, b''))}" + ("f" if k in finished else "")
                           for k in sorted(win.opened) if k not in ended)
            out.append(obs() + "~" + rep)
        else:
            out.append(obs())
    # afterwards: the peer grants what is still missing and the reactor is pumped until quiescent
    del frames[:]
    del pev[:]
    try:
        if violations:
            raise h2.exceptions.FlowControlError()
        if tpaused[0]:
            tpaused[0] = False
            conn.resumeProducing()
            pump()
        need = {}
        for k in range(1, n + 1):
            if k in ended or k not in win.opened:
                continue
            todo = written[k] - len(got.get(k, b""))
            if k in prods:
                todo += (prods[k].count - prods[k].sent) * prods[k].chunk
            need[k] = todo
            if win.sw[k] < todo + 1:
                cl.increment_flow_control_window(todo + 1000 - win.sw[k], 2 * k - 1)
                win.sw[k] = todo + 1000
        total = sum(need.values())
        if win.cw < total + 1:
            cl.increment_flow_control_window(total + 1000 - win.cw)
            win.cw = total + 1000
        pump()
        for _ in range(400 + 4 * n + total // 500 + 4 * sum(getattr(p, 'count', 0) for p in prods.values())):
            if not reactor.step():
                break
            pump()
    except h2.exceptions.FlowControlError:
        dead = dead or ("X:FlowControlError-late" if not violations else None)
    final = []
    for k in range(1, n + 1):
        if k not in win.opened:
            final.append("ok")
            continue
        want = bytes(_byte(k - 1, j) for j in range(written[k]))
        have = bytes(got.get(k, b""))
        if k in prods and not prods[k].done:
            final.append(f"producer-stalled{prods[k].sent}/{prods[k].count}")
        elif not want.startswith(have) or len(have) > len(want):
            final.append("corrupt")
        elif have != want:
            final.append(f"short{len(have)}/{len(want)}")
        elif k in finished and k not in ended:
            final.append("noend")
        elif k in ended and k not in finished:
            final.append("ended-unfinished")
        else:
            final.append("ok")
    return " ".join(out) + " #" + ",".join(final) + ("" if not violations else " " + violations[0]) \
        + ("" if not dead else " " + dead)


# --------------------------------------------------------------------------------------------------------


def oracle(case, obs):
    body, _, tail = obs.partition(" #")
    steps = body.split(" ")
    if len(steps) != len(case["ops"]) + 1:
        return Failure(case, "malformed log", "log")
    apps = _apps(case)
    n = len(apps)
    win = _Windows(case["iw"], n)
    neg_seen = False
    if any(e and e[0] in "dex" for e in steps[0].partition("/")[0].split(",")):
        return Failure(case, "DATA sent before the sending loop ran: " + steps[0], "data-at-setup")
    late = list(range(n - case.get("late", 0) + 1, n + 1))
    win.opened = set(range(1, n + 1)) - set(late)
    for i, (op, st) in enumerate(zip(case["ops"], steps[1:])):
        where = f"op {i} {op}: "
        if op[0] == "req":
            if late:
                win.opened.add(late.pop(0))
        elif not (op[0] == "wu" and op[1] != 0 and op[1] in win.done):
            win.op(op)
        if win.negative():
            neg_seen = True
        st, _, report = st.partition("~")
        fr = st.partition("/")[0]
        if op[0] == "drain" and report and "X:" not in st and "client-FlowControlError" not in tail:
            pending_check = report
        else:
            pending_check = None
        for e in ([] if fr in ("-", "") else fr.split(",")):
            if e.startswith("X:"):
                neg = win.negative() or win.cw < 0
                return Failure(case, where + "the sending loop raised " + e[2:] + " and is never rescheduled"
                               + (" (a stream window is negative after a SETTINGS decrease)" if neg else ""),
                               "loop-dies-negative-window" if neg else "loop-dies")
            if e.startswith("d"):
                sid, ln = e[1:].split(":")
                k, ln = (int(sid) + 1) // 2, int(ln)
                if ln > win.sw[k] or ln > win.cw:
                    return Failure(case, where + f"DATA of {ln} bytes on stream {sid} exceeds the window "
                                   f"(stream {win.sw[k]}, connection {win.cw})", "exceeds-window")
                if ln > win.mf:
                    return Failure(case, where + f"DATA of {ln} bytes exceeds max frame size {win.mf}",
                                   "exceeds-frame-size")
                win.sw[k] -= ln
                win.cw -= ln
            elif e.startswith("e"):
                win.done.add((int(e[1:]) + 1) // 2)
        if pending_check:
            for item in pending_check.split(","):
                k, _, wr = item.partition(":")
                k = int(k)
                fin = wr.endswith("f")
                w_, r_ = map(int, wr.rstrip("f").split("/"))
                if k in win.done:
                    continue
                others = [j for j in win.sw if j != k and j not in win.done and j in win.opened and win.sw[j] < 0]
                why = (f" while stream(s) {[2 * j - 1 for j in others]} are held at a negative window" if others else "")
                if w_ > r_ and win.sw[k] > 0 and win.cw > 0:
                    return Failure(case, where + f"the reactor went quiescent with {w_ - r_} byte(s) of stream {2 * k - 1} "
                                   f"unsent although its stream window ({win.sw[k]}) and the connection window "
                                   f"({win.cw}) are open" + why,
                                   "open-stream-starved" + ("-behind-negative-stream" if others else ""))
                if fin and w_ == r_ and win.sw[k] >= 0 and win.cw >= 0:
                    return Failure(case, where + f"the reactor went quiescent with stream {2 * k - 1} finished and fully "
                                   "delivered but END_STREAM not sent" + why,
                                   "end-stream-held" + ("-behind-negative-stream" if others else ""))
    parts = tail.split(" ")
    if "client-FlowControlError" in tail:
        if neg_seen:
            return Failure(case, "the server sent a DATA frame (the empty END_STREAM one) on a stream whose window is "
                           "negative after a SETTINGS decrease; the h2 peer answers FlowControlError and drops the "
                           "connection", "end-stream-on-negative-window")
        return Failure(case, "the h2 client saw DATA beyond its window", "exceeds-window")
    finals = parts[0].split(",") if parts and parts[0] else []
    for k, f in enumerate(finals):
        if f in ("ok",):
            continue
        sid = 2 * k + 1
        if "X:" in tail:
            return Failure(case, f"stream {sid} is {f} after the peer granted ample window (the sending loop had died)",
                           "loop-dies-negative-window" if neg_seen else "loop-dies")
        kind = apps[k][0]
        what = {"noend": "finished but END_STREAM never sent",
                "corrupt": "body bytes wrong or out of order",
                "ended-unfinished": "END_STREAM sent before the application finished"}.get(f, f)
        if kind == "pre":
            kind = f"{apps[k][2]} producer registered after a {apps[k][1]}-byte preamble"
        tag = ("producer-never-resumed" if f.startswith("producer-stalled") else
               "finished-stream-never-completes" if f == "noend" else
               "written-data-never-sent" if f.startswith("short") else "body-" + f)
        if tag == "producer-never-resumed" and apps[k][0] == "pre" and apps[k][1] > 0:
            tag = f"{apps[k][2]}-producer-registered-after-preamble-never-resumed"
        elif tag == "producer-never-resumed" and any(o[0] == "iw" for o in case["ops"]):
            tag += "-after-settings-change"
        return Failure(case, f"after the peer granted ample window on both levels and the reactor went quiescent, "
                       f"stream {sid} ({kind}) is: {what}", tag)
    return None


def _len_near(rng, target):
    return max(1, target + rng.choice([-2, -1, 0, 0, 0, 1, 2]))


def _gen_static(rng, big):
    n = rng.choice([1, 1, 2, 3, 4])
    iw = rng.choice([0, 1, 5, 10, 50, 100, 1000, 20000, 65535])
    apps = []
    for _ in range(n):
        style = rng.random()
        if style < 0.5:
            chunks = [rng.randrange(1, 40) for _ in range(rng.randrange(1, 5))]
        elif style < 0.8:
            chunks = [max(1, iw + rng.randrange(-2, 3)) for _ in range(rng.randrange(1, 4))]
        else:
            chunks = [rng.randrange(1, big) for _ in range(rng.randrange(1, 3))]
        apps.append(["static", chunks])
    if rng.random() < 0.15:
        apps = [["static", [rng.randrange(20000, 40000)]] for _ in range(rng.randrange(2, 5))]
        iw = rng.choice([65535, 30000, 100000])
    return iw, apps


def _rand_ops(rng, n, iw, length, manual, decrease_ok=True):
    ops = []
    cur = iw
    for _ in range(length):
        r = rng.random()
        if r < 0.45:
            ops.append(["adv"])
        elif r < 0.60:
            ops.append(["wu", rng.randrange(0, n + 1), rng.choice([1, 2, 5, 10, 100, 1000, 16384, 40000, 65535])])
        elif r < 0.72:
            v = rng.choice([0, 1, 5, 10, 50, 100, 1000, 20000, 65535, 100000, max(0, cur - rng.randrange(1, 20)),
                            cur + rng.randrange(1, 20)])
            if v < cur and not decrease_ok:
                v = cur + rng.choice([0, 1, 10])
            cur = v
            ops.append(["iw", v])
        elif r < 0.76:
            ops.append(["mf", rng.choice([16384, 16385, 20000, 65536])])
        elif manual and r < 0.92:
            ops.append(["write", rng.choice(manual)])
        elif manual:
            ops.append(["finish", rng.choice(manual)])
        else:
            ops.append(["adv"])
    return ops


def _gen_mixed(rng):
    """manual and producer-driven responses whose sizes hit the windows exactly"""
    n = rng.choice([1, 2, 2, 3])
    connlimited = rng.random() < 0.4
    iw = (1 << 24) if connlimited else rng.choice([4, 10, 50, 100, 1000, 6500])
    apps, manual = [], []
    room = 65535
    for k in range(1, n + 1):
        r = rng.random()
        limit = room if connlimited else iw
        if r < 0.3:
            sz = rng.randrange(1, 2000) if connlimited else _len_near(rng, iw)
            apps.append(["static", [sz]])
            room -= min(sz, room)
        elif r < 0.65:
            m = rng.choice([1, 2, 5, 10])
            chunk = max(1, limit // m) if limit > 0 else rng.randrange(1, 50)
            if rng.random() < 0.3:
                chunk = _len_near(rng, chunk)
            apps.append(["producer", min(chunk, 20000), rng.choice([m, m + 1, 2 * m, 2 * m + 3])])
            room = 0
        else:
            first = max(1, limit) if rng.random() < 0.6 else _len_near(rng, max(1, limit))
            chunks = [min(first, 30000)] + [rng.randrange(1, 40) for _ in range(rng.randrange(0, 3))]
            apps.append(["manual", chunks])
            manual.append(k)
    ops = []
    for k in manual:
        if rng.random() < 0.8:
            ops.append(["write", k])
    ops += [["adv"]] * rng.randrange(0, 2 * n + 6)
    ops += _rand_ops(rng, n, iw, rng.randrange(2, 25), manual)
    if rng.random() < 0.5:
        ops += [["wu", 0, 65535]] + [["adv"]] * rng.randrange(0, 8)
    return {"iw": iw, "apps": apps, "ops": ops}


def _gen_finish_while_negative(rng):
    b = rng.choice([4, 10, 100, 1000])
    low = rng.randrange(0, b)
    ops = [["write", 1]] + [["adv"]] * rng.randrange(1, 4) + [["iw", low]] + [["adv"]] * rng.randrange(0, 2)
    ops += [["finish", 1]] if rng.random() < 0.8 else [["write", 1], ["finish", 1]]
    ops += [["adv"]] * rng.randrange(0, 3)
    ops += rng.choice([[["wu", 1, b + 20]], [["iw", b + 50]], []])
    ops += [["adv"]] * rng.randrange(0, 4)
    return {"iw": b, "apps": [["manual", [b, rng.randrange(1, 9)]]], "ops": ops}


def _gen_conn_limited_producer(rng):
    """huge stream windows, so only the 65535-byte connection window limits: a producer whose first burst fills it
    exactly (65535 = 3*5*17*257), is paused and drains; then (mostly) connection-level-only WINDOW_UPDATEs.  Other
    streams are manual and write later, so that the producer's queue can drain completely."""
    m = rng.choice([1, 3, 5, 15, 17, 51, 85])
    chunk = 65535 // m
    if rng.random() < 0.2:
        chunk = _len_near(rng, chunk)
    apps = [["producer", chunk, rng.choice([m + 1, m + 2, 2 * m, 2 * m + 1])]]
    manual = []
    if rng.random() < 0.4:
        apps.append(["manual", [rng.randrange(1, 3000) for _ in range(rng.randrange(1, 3))]])
        manual.append(2)
        if rng.random() < 0.5:
            apps.reverse()
            manual = [1]
    frames = m * (-(-chunk // 16384))
    ops = [["adv"]] * rng.randrange(max(0, frames - 2), frames + 6)
    tail = []
    for _ in range(rng.randrange(0, 4)):
        r = rng.random()
        if r < 0.6:
            tail.append(["wu", 0, rng.choice([65535, 65535, 100, chunk, 2 * chunk])])
        elif r < 0.75 and manual:
            tail.append(["write", manual[0]])
        elif r < 0.85 and manual:
            tail.append(["finish", manual[0]])
        elif r < 0.93:
            tail.append(["wu", len(apps) - manual[0] + 1 if manual else 1, rng.choice([1, 1000])])
        else:
            tail.append(["iw", (1 << 24) + rng.choice([-1000, 1000])])
        tail += [["adv"]] * rng.randrange(0, 6)
    return {"iw": 1 << 24, "apps": apps, "ops": ops + tail}


def _gen_preamble_producer(rng):
    """a response that writes a preamble directly and only then registers a producer, with the preamble around the
    window (==, <, >), requested before the loop first runs or after the sender has parked; then arbitrary
    WINDOW_UPDATE / SETTINGS sequences"""
    connlimited = rng.random() < 0.25
    w = 65535 if connlimited else rng.choice([10, 100, 100, 1000, 5000])
    iw = (1 << 24) if connlimited else w
    r = rng.random()
    pre = (w if r < 0.35 else _len_near(rng, w) if r < 0.55 else w + rng.randrange(1, 2 * w) if r < 0.75
           else rng.randrange(0, w))
    pre = min(pre, 100000)
    mode = rng.choice(["push", "pull"])
    chunk = rng.choice([1, 7, 60, w // 2 + 1, w])
    app = ["pre", pre, mode, min(chunk, 20000), rng.randrange(1, 6)]
    apps, ops, late = [app], [], 0
    if rng.random() < 0.3:
        apps.insert(0, ["static", [rng.randrange(1, 50)]])
    if rng.random() < 0.6:
        late = 1
        ops += [["adv"]] * rng.randrange(0, 2 * len(apps) + 2) + [["req"]]
    k = len(apps)
    for _ in range(rng.randrange(2, 30)):
        x = rng.random()
        if x < 0.55:
            ops.append(["adv"])
        elif x < 0.8:
            ops.append(["wu", rng.choice([k, k, 0]), rng.choice([1, 5, w // 2 + 1, w, 2 * w, 65535])])
        elif x < 0.9:
            ops.append(["wu", 0, rng.choice([w, 65535])])
        else:
            ops.append(["iw", max(0, iw + rng.choice([-w, -3, 5, w, 3 * w]))])
    c = {"iw": iw, "apps": apps, "ops": ops}
    if late:
        c["late"] = late
    return c


def _gen_negative_neighbour(rng):
    """two or more concurrent streams; a SETTINGS_INITIAL_WINDOW_SIZE decrease leaves one of them negative with data or
    END_STREAM still queued while another has open windows and a response of several DATA frames; the reactor is
    drained at that intermediate point"""
    iw = rng.choice([1000, 20000, 30000, 60000])
    bx = iw + rng.randrange(1, iw)                  # X: more than one window
    apps = [["static", [bx]] if rng.random() < 0.7 else ["static", [iw]]]
    ops = [["adv"]] * rng.randrange(1, 2 + bx // 16384 + 2)       # X sends (part of) its first window
    ny = rng.choice([1, 1, 2])
    for _ in range(ny):
        kind = rng.random()
        size = rng.choice([50000, 40000, 3 * iw, iw // 2 + 1])
        apps.append(["static", [size]] if kind < 0.6 else ["manual", [size]] if kind < 0.8
                    else ["producer", max(1, size // 7), 7])
    late = ny if rng.random() < 0.7 else 0
    n = len(apps)
    low = rng.choice([0, 1, iw // 4, iw // 2, iw - 1])
    mid = []
    if late:
        mid += [["req"]] * ny
    for k in range(2, n + 1):
        if apps[k - 1][0] == "manual":
            mid.append(["write", k])
            if rng.random() < 0.5:
                mid.append(["finish", k])
    ops += mid + [["iw", low]]
    if rng.random() < 0.5:
        ops.append(["wu", 0, 65535])                # keep the connection window out of the way
    if rng.random() < 0.4:
        ops.append(["wu", rng.randrange(2, n + 1), rng.choice([16384, 50000])])
    ops.append(["drain"])
    for _ in range(rng.randrange(0, 5)):
        r = rng.random()
        if r < 0.3:
            ops.append(["wu", rng.randrange(0, n + 1), rng.choice([100, 16384, 65535])])
        elif r < 0.5:
            ops.append(["adv"])
        elif r < 0.6:
            ops.append(["iw", rng.choice([low, iw, 2 * iw])])
        else:
            ops.append(["drain"])
    c = {"iw": iw, "apps": apps, "ops": ops}
    if late:
        c["late"] = late
    return c


def _gen_exact_total_producer(rng):
    """a push producer whose writes add up EXACTLY to the stream window and that finishes from inside the next
    resumeProducing without writing; the data is sent completely (queue empty, loop parked), then a stream-level
    WINDOW_UPDATE arrives"""
    m = rng.choice([1, 2, 4, 5])
    chunk = rng.choice([1, 10, 25, 250])
    w = m * chunk
    pre = 0
    if rng.random() < 0.3:
        pre = rng.choice([chunk, 2 * chunk])
        w += pre
    total_ok = rng.random() < 0.8
    apps = [["pre", pre, rng.choice(["lazy", "lazy", "push"]), chunk, m if total_ok else m + rng.choice([-1, 1])]]
    apps[0][4] = max(1, apps[0][4])
    ops, late = [], 0
    if rng.random() < 0.4:
        apps.insert(0, ["static", [rng.randrange(1, 30)]])
    if rng.random() < 0.5:
        late = 1
        ops += [["adv"]] * rng.randrange(0, 4) + [["req"]]
    k = len(apps)
    ops += [["drain"]] if rng.random() < 0.7 else [["adv"]] * rng.randrange(0, m + 4)
    for _ in range(rng.randrange(1, 5)):
        ops.append(["wu", rng.choice([k, k, 0]), rng.choice([1, chunk, w, 65535])])
        ops += [["adv"]] * rng.randrange(0, 3)
        if rng.random() < 0.3:
            ops.append(["drain"])
    c = {"iw": w, "apps": apps, "ops": ops}
    if late:
        c["late"] = late
    return c


def _gen_backpressure_wakeup(rng):
    """the sender is parked with data (or END_STREAM) queued behind an exhausted window; the transport pauses the
    connection; the window is reopened during the pause (WINDOW_UPDATE on either level or SETTINGS); the transport
    resumes; at the next quiescent point the data must be out"""
    w = rng.choice([5, 10, 100, 1000])
    extra = [rng.randrange(1, 2 * w) for _ in range(rng.randrange(1, 3))]
    apps = [["manual", [w] + extra]]
    if rng.random() < 0.3:
        apps.append(["static", [rng.randrange(1, w + 1)]])
    ops = [["write", 1], ["drain"]]
    ops += [["write", 1]] * rng.randrange(1, len(extra) + 1)
    if rng.random() < 0.4:
        ops.append(["finish", 1])
    if rng.random() < 0.5:
        ops.append(["drain"])
    ops.append(["tpause"])
    ops += [["adv"]] * rng.randrange(0, 3)
    for _ in range(rng.randrange(1, 3)):
        ops.append(rng.choice([["wu", 1, rng.choice([1, w, 10 * w])], ["wu", 1, 10 * w], ["iw", w + rng.choice([1, 3 * w])],
                               ["wu", 0, 65535]]))
        ops += [["adv"]] * rng.randrange(0, 2)
    ops.append(["tresume"])
    ops += [["adv"]] * rng.randrange(0, 3)
    ops.append(["drain"])
    return {"iw": w, "apps": apps, "ops": ops}


def _with_backpressure(rng, case):
    """interleave transport pause / resume with the history"""
    if rng.random() < 0.3:
        ops, paused = [], False
        for o in case["ops"]:
            r = rng.random()
            if not paused and r < 0.12:
                ops.append(["tpause"])
                paused = True
            elif paused and r < 0.3:
                ops.append(["tresume"])
                paused = False
                if rng.random() < 0.5:
                    ops.append(["drain"])
            ops.append(o)
        if paused and rng.random() < 0.8:
            ops += [["tresume"], ["drain"]]
        case = {**case, "ops": ops}
    return case


def _with_prio(rng, case):
    """PRIORITY frames for live, finished and idle stream ids sprinkled into a history, each followed (sooner or
    later) by loop iterations while other streams have data queued"""
    if rng.random() < 0.25:
        n = len(_apps(case))
        ops = list(case["ops"])
        for _ in range(rng.randrange(1, 4)):
            r = rng.random()
            if r < 0.5:
                sid = 2 * n + 1 + 2 * rng.randrange(0, 3)          # idle: not opened (yet)
            elif r < 0.7 and case.get("late"):
                sid = 2 * n - 1                                    # a late stream, maybe before its request
            else:
                sid = 2 * rng.randrange(1, n + 1) - 1              # live or already finished
            pos = rng.randrange(0, len(ops) + 1)
            ops[pos:pos] = [["prio", sid, rng.choice([1, 16, 200])]] + [["adv"]] * rng.randrange(0, 3)
        if rng.random() < 0.6:
            ops.append(["drain"])
        case = {**case, "ops": ops}
    return case


def _with_drains(rng, case):
    """sprinkle intermediate quiescent points into any history"""
    if rng.random() < 0.5:
        ops = []
        for o in case["ops"]:
            ops.append(o)
            if rng.random() < 0.12:
                ops.append(["drain"])
        if rng.random() < 0.5:
            ops.append(["drain"])
        case = {**case, "ops": ops}
    return case


def search(rng):
    """extra cases when a tie broke (bounded: three more quick batches, not the thorough generator)"""
    out = []
    for _ in range(3):
        out += gen(rng, "quick")
    return out


def gen(rng, tier):
    return [_with_prio(rng, _with_backpressure(rng, _with_drains(rng, c))) for c in _gen(rng, tier)]


def _gen(rng, tier):
    cases = []
    q = tier == "quick"
    for _ in range(150 if q else 3000):
        cases.append(_gen_negative_neighbour(rng))
    for _ in range(120 if q else 3000):
        cases.append(_gen_exact_total_producer(rng))
    for _ in range(80 if q else 2000):
        cases.append(_gen_backpressure_wakeup(rng))
    for _ in range(250 if q else 5000):
        cases.append(_gen_preamble_producer(rng))
    for _ in range(200 if q else 5000):
        iw, apps = _gen_static(rng, 2000)
        n = len(apps)
        cases.append({"iw": iw, "apps": apps, "ops": _rand_ops(rng, n, iw, rng.randrange(3, 40), [],
                                                               decrease_ok=rng.random() < 0.5)})
    for _ in range(250 if q else 6000):
        cases.append(_gen_mixed(rng))
    for _ in range(60 if q else 1000):
        cases.append(_gen_finish_while_negative(rng))
    for _ in range(60 if q else 1000):
        cases.append(_gen_conn_limited_producer(rng))
    return cases


def corpus():
    return [
        # window exhausted, reopened by WINDOW_UPDATE on the stream and on the connection
        {"iw": 100, "apps": [["static", [300]]], "ops": [["adv"], ["adv"], ["wu", 1, 50], ["adv"], ["adv"],
                                                         ["wu", 1, 1000], ["adv"], ["adv"], ["adv"]]},
        # SETTINGS decrease makes the stream window negative (RFC 7540 6.9.2) while data is queued
        {"iw": 100, "apps": [["static", [300]]], "ops": [["adv"], ["iw", 40], ["adv"], ["wu", 1, 1000], ["adv"],
                                                         ["adv"], ["adv"]]},
        # two streams, connection window exhausted
        {"iw": 65535, "apps": [["static", [40000]], ["static", [40000]]],
         "ops": [["adv"]] * 6 + [["wu", 0, 30000]] + [["adv"]] * 6},
        # window opened by SETTINGS only
        {"iw": 0, "apps": [["static", [10, 10]]], "ops": [["adv"], ["adv"], ["iw", 15], ["adv"], ["adv"], ["adv"],
                                                          ["adv"]]},
        # the body filled the window exactly, the sender parks, SETTINGS makes the window negative, the application
        # finishes, the peer reopens the window
        {"iw": 10, "apps": [["manual", [10]]], "ops": [["write", 1], ["adv"], ["adv"], ["iw", 4], ["finish", 1],
                                                       ["adv"], ["wu", 1, 20], ["adv"], ["adv"]]},
        # connection window is the limit: a producer fills it exactly, is paused, its queue drains; only a
        # connection-level WINDOW_UPDATE follows
        {"iw": 1 << 24, "apps": [["producer", 13107, 12]],
         "ops": [["adv"]] * 7 + [["wu", 0, 65535]] + [["adv"]] * 4},
        {"iw": 1 << 24, "apps": [["static", [535]], ["producer", 6500, 20]],
         "ops": [["adv"]] * 14 + [["wu", 0, 65535]] + [["adv"]] * 4},
        # preamble == window written directly after the sender parked (so it is sent at once), then a push producer
        # is registered at an exhausted window; the peer reopens the window
        {"iw": 100, "apps": [["pre", 100, "push", 60, 4]], "late": 1,
         "ops": [["adv"], ["req"], ["adv"], ["wu", 1, 100], ["adv"], ["adv"], ["wu", 1, 1000], ["adv"], ["adv"]]},
        # preamble > window, then a pull producer
        {"iw": 100, "apps": [["pre", 230, "pull", 60, 4]], "late": 1,
         "ops": [["adv"], ["req"], ["adv"], ["adv"], ["wu", 1, 100], ["adv"], ["adv"], ["adv"], ["wu", 1, 1000],
                 ["adv"], ["adv"], ["adv"]]},
        # a small response delivered first, then a producer that fills what is left of the connection window
        {"iw": 1 << 24, "apps": [["static", [535]], ["producer", 6500, 20]], "late": 1,
         "ops": [["adv"], ["adv"], ["req"]] + [["adv"]] * 12 + [["wu", 0, 65535]] + [["adv"]] * 4},
        # PRIORITY for an idle stream id while another stream has data queued; later for a finished one
        {"iw": 100, "apps": [["static", [300]]],
         "ops": [["adv"], ["prio", 5, 16], ["adv"], ["wu", 1, 1000], ["drain"], ["prio", 1, 16], ["prio", 7, 200], ["drain"]]},
        {"iw": 1000, "apps": [["static", [50]], ["manual", [20, 30]]], "late": 1,
         "ops": [["prio", 3, 16], ["adv"], ["adv"], ["req"], ["write", 2], ["drain"], ["write", 2], ["finish", 2], ["drain"]]},
        # a producer whose writes add up exactly to the window, sent completely, loop parked; the stream-level
        # WINDOW_UPDATE makes it finish from inside resumeProducing without writing
        {"iw": 100, "apps": [["pre", 0, "lazy", 25, 4]], "ops": [["drain"], ["wu", 1, 50], ["drain"]]},
        # the transport pauses the connection, a WINDOW_UPDATE arrives during the pause, the transport resumes
        {"iw": 10, "apps": [["manual", [10, 5]]],
         "ops": [["write", 1], ["drain"], ["write", 1], ["tpause"], ["wu", 1, 20], ["tresume"], ["drain"]]},
        {"iw": 100, "apps": [["static", [300]]],
         "ops": [["adv"], ["tpause"], ["adv"], ["wu", 1, 500], ["adv"], ["tresume"], ["drain"]]},
        # two streams; SETTINGS leaves stream 1 negative with data queued; stream 3 has open windows and 50000 bytes:
        # at the intermediate quiescent point stream 3 must have been sent up to its window
        {"iw": 30000, "apps": [["static", [40000]], ["static", [50000]]], "late": 1,
         "ops": [["adv"], ["adv"], ["req"], ["iw", 20000], ["wu", 0, 65535], ["drain"], ["wu", 3, 50000], ["drain"],
                 ["wu", 1, 30000], ["drain"]]},
        # data written at an exhausted window while the sender is parked, then the window is reopened
        {"iw": 10, "apps": [["manual", [10, 5]]], "ops": [["write", 1], ["adv"], ["adv"], ["write", 1], ["wu", 1, 20],
                                                          ["adv"], ["adv"]]},
    ]


def to_coq(case):
    def op(o):
        if o[0] == "adv":
            return "Adv"
        if o[0] == "wu":
            return f"WU {0 if o[1] == 0 else 2 * o[1] - 1}%nat ({o[2]})%Z"
        if o[0] == "iw":
            return f"SetIW ({o[1]})%Z"
        if o[0] == "mf":
            return f"SetMF ({o[1]})%Z"
        if o[0] == "write":
            return f"AppWrite {2 * o[1] - 1}%nat"
        if o[0] == "drain":
            return "Drain"
        if o[0] == "tpause":
            return "TPause"
        if o[0] == "tresume":
            return "TResume"
        if o[0] == "req":
            if not late:
                return "AppWrite 99999%nat"      # nothing left to request: no-op
            k = late.pop(0)
            return f"Req {2 * k - 1}%nat ({app(_apps(case)[k - 1])})"
        return f"AppFinish {2 * o[1] - 1}%nat"

    if any(a[0] == "pre" and a[2] == "pull" for a in _apps(case)):
        return None          # no cooperator in the model: oracle only
    if any(o[0] == "prio" for o in case["ops"]):
        return None          # PRIORITY frames are not in the model: oracle only

    def app(a):
        if a[0] == "producer":
            return f"Producer ({a[1]})%Z {a[2]}%nat"
        if a[0] == "pre":
            return f"{'LazyProducer' if a[2] == 'lazy' else 'PreProducer'} ({a[1]})%Z ({a[3]})%Z {a[4]}%nat"
        return ("Static " if a[0] == "static" else "Manual ") + coq_list([f"({x})%Z" for x in a[1]], "Z")

    n = len(_apps(case))
    late = list(range(n - case.get("late", 0) + 1, n + 1))
    early = [a for k, a in enumerate(_apps(case), 1) if k not in late]
    return (f"(({case['iw']})%Z, {coq_list([app(a) for a in early], 'application')}, "
            f"{coq_list([op(o) for o in case['ops']], 'op')})")


def shrink(case):
    ops = case["ops"]
    for i in range(len(ops)):
        yield {**case, "ops": ops[:i] + ops[i + 1:]}
    a = _apps(case)
    if len(a) > 1 and not case.get("late"):
        k = len(a)
        yield {"iw": case["iw"], "apps": a[:-1],
               "ops": [o for o in ops if not (o[0] in ("wu", "write", "finish") and o[1] == k)]}


def _hist(c, o):
    kinds = sorted({a[0] for a in _apps(c)})
    return "+".join(kinds) + (" iw-change" if any(x[0] == "iw" for x in c["ops"]) else "")


def _model_view(a):
    """the model prints frames and producer calls of one step as two groups, like the driver; the per-drain
    written/received report is for the oracle only"""
    import re
    return re.sub(r"~\S*", "", a.partition(" #")[0])


SPEC = Spec(
    pid="C29",
    gen=gen, impl=impl, oracle=oracle, corpus=corpus, shrink=shrink, search=search,
    coq_header="From C29 Require Import Model Run.",
    coq_fn="run_show",
    to_coq=to_coq,
    model_equal=lambda c, a, b: _model_view(a) == b,
    nontrivial=lambda c, o: "d" in o.partition(" #")[0],
    histogram=_hist,
    rule="generators: (0) two or more streams, a SETTINGS decrease leaving one negative with data or END_STREAM queued "
         "next to one with open windows, then an intermediate drain; half of all histories get `drain` ops sprinkled in "
         "(quiescent points at which nothing sendable may remain queued); (1) static responses (1-4 streams, 1-4 chunks of 1-2000 bytes, chunks at the initial window "
         "+-2, 15% with 20-40 KB bodies that exhaust the connection window) under random schedules of 3-39 ops; (2) "
         "mixed static / manual / push-producer responses whose sizes hit the stream window or the remaining "
         "connection window exactly (+-2), with writes and finish placed in the history; (3) finish while a SETTINGS "
         "decrease has the window negative, then reopen by WINDOW_UPDATE, by SETTINGS, or not at all; (4) a producer "
         "that fills the connection window exactly, then connection-level-only WINDOW_UPDATE.  Ops: one "
         "_sendPrioritisedData iteration / WINDOW_UPDATE (stream, connection) / SETTINGS_INITIAL_WINDOW_SIZE up and "
         "down / SETTINGS_MAX_FRAME_SIZE / application write / finish.  After every history the peer grants only the "
         "window that is still missing (per level) and the reactor is pumped until quiescent: every written byte must "
         "have arrived in order and every finished response must be ended.  non-trivial = DATA was sent during the "
         "schedule",
    trusted=["hand-written model coq/C29/Model.v (tied by this correspondence run only)",
             "h2 4.x (server-side window bookkeeping, framing) and the h2 client state machine in the harness",
             "vendor/priority: round-robin stand-in for the absent `priority` package (harness only)",
             "one-call-per-step reactor stub; StringTransport; scripted applications / push producer"],
    assumptions=["all requests arrive before the sending loop first runs; no request bodies; the transport never "
                 "pauses the connection (_consumerBlocked)",
                 "windows stay below 2^31-1",
                 "liveness (completion after ample window) is checked on the implementation by the oracle, it is not a "
                 "theorem of the model"],
    case_timeout=60.0,
)
