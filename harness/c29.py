"""C29 — HTTP/2 server flow control: H-tie.  The real twisted.web._http2.H2Connection (with a real Site / Request) is
driven over a StringTransport by an `h2` client state machine; the reactor is a one-call-per-step stub so that each
iteration of _sendPrioritisedData is one step.  `priority` is absent from the sandbox: vendor/priority (round robin)
is put on sys.path here, by the harness only.

case = {"iw": w, "bodies": [[chunk lengths] per stream], "ops": [["adv"] | ["wu", k, inc] | ["iw", v] | ["mf", v]]}
       k = 0: connection window, k >= 1: the k-th stream (id 2k-1).
All requests are sent and answered (request.write per chunk, request.finish) before the first op.
"""
from __future__ import annotations

import os
import sys

from harness.common import VERIF, Failure, Spec, coq_list

_VENDOR = os.path.join(VERIF, "vendor")


class _StepReactor:
    """IReactorTime as far as H2Connection uses it; runs exactly one pending call per step()."""

    def __init__(self):
        self.calls = []

    def callLater(self, delay, f, *a, **kw):
        entry = [f, a, kw, True]
        self.calls.append(entry)

        class DC:
            def cancel(self_):
                entry[3] = False

            def active(self_):
                return entry[3]

        return DC()

    def step(self):
        while self.calls:
            f, a, kw, live = self.calls.pop(0)
            if live:
                f(*a, **kw)
                return True
        return False


def _byte(k, pos):
    return (k * 37 + pos * 7 + (pos >> 8)) % 251


def impl(case) -> str:
    if _VENDOR not in sys.path:
        sys.path.insert(0, _VENDOR)
    import h2.config
    import h2.connection
    import h2.events
    import h2.exceptions
    import h2.settings
    from twisted.internet.testing import StringTransport
    from twisted.web import _http2, resource, server

    bodies = case["bodies"]

    class Body(resource.Resource):
        isLeaf = True

        def render_GET(self, request):
            k = int(request.args[b"k"][0])
            pos = 0
            for n in bodies[k]:
                request.write(bytes(_byte(k, pos + j) for j in range(n)))
                pos += n
            request.finish()
            return server.NOT_DONE_YET

    reactor = _StepReactor()
    site = server.Site(Body())
    conn = _http2.H2Connection(reactor=reactor)
    conn.timeOut = None
    conn.requestFactory = server.Request
    conn.site = site
    conn.factory = site
    tr = StringTransport()
    conn.makeConnection(tr)
    cl = h2.connection.H2Connection(h2.config.H2Configuration(client_side=True, header_encoding=None))
    cl.initiate_connection()
    cl.update_settings({h2.settings.SettingCodes.INITIAL_WINDOW_SIZE: case["iw"]})

    got = {}          # stream index -> received bytes
    ended = set()
    frames = []       # events of the current op
    violations = []

    def pump():
        for _ in range(50):
            out = cl.data_to_send()
            if out:
                conn.dataReceived(out)
            back = tr.value()
            tr.clear()
            if not out and not back:
                return
            if back:
                try:
                    evs = cl.receive_data(back)
                except h2.exceptions.FlowControlError as e:
                    violations.append("client-FlowControlError")
                    return
                for e in evs:
                    if isinstance(e, h2.events.DataReceived):
                        if not e.data:
                            continue        # the empty DATA frame that carries END_STREAM
                        k = (e.stream_id + 1) // 2
                        got.setdefault(k, bytearray()).extend(e.data)
                        frames.append(f"d{e.stream_id}:{len(e.data)}")
                    elif isinstance(e, h2.events.StreamEnded):
                        ended.add((e.stream_id + 1) // 2)
                        frames.append(f"e{e.stream_id}")
        raise AssertionError("pump did not quiesce")

    pump()
    for k in range(len(bodies)):
        cl.send_headers(2 * k + 1, [(b":method", b"GET"), (b":path", b"/?k=%d" % k), (b":scheme", b"http"),
                                    (b":authority", b"x")], end_stream=True)
    pump()
    setup = ",".join(frames)
    out = []
    dead = None
    for op in case["ops"]:
        del frames[:]
        if violations:
            # the h2 client has torn the connection down (it raised FlowControlError on what the server sent)
            out.append("-")
            continue
        try:
            if op[0] == "adv":
                reactor.step()
            elif op[0] == "wu":
                k = op[1]
                if k == 0:
                    cl.increment_flow_control_window(op[2])
                elif k <= len(bodies) and k not in ended:
                    cl.increment_flow_control_window(op[2], 2 * k - 1)
            elif op[0] == "iw":
                cl.update_settings({h2.settings.SettingCodes.INITIAL_WINDOW_SIZE: op[1]})
            elif op[0] == "mf":
                cl.update_settings({h2.settings.SettingCodes.MAX_FRAME_SIZE: op[1]})
            pump()
        except h2.exceptions.FlowControlError:
            # raised inside the server's sending loop (h2 refuses to exceed the window): the loop is not rescheduled
            dead = dead or "X:FlowControlError"
            frames.append("X:FlowControlError")
            pump()
        out.append(",".join(frames) or "-")
    # afterwards: open every window and let the loop run; every body must arrive complete and in order
    del frames[:]
    try:
        if violations:
            raise h2.exceptions.FlowControlError()
        cl.increment_flow_control_window(2 ** 30)
        for k in range(1, len(bodies) + 1):
            if k not in ended:
                cl.increment_flow_control_window(2 ** 30, 2 * k - 1)
        pump()
        for _ in range(20000):
            if not reactor.step():
                break
            pump()
            if len(ended) == len(bodies):
                break
    except h2.exceptions.FlowControlError:
        dead = dead or ("X:FlowControlError-late" if not violations else None)
    final = []
    for k in range(len(bodies)):
        want = bytes(_byte(k, j) for j in range(sum(bodies[k])))
        have = bytes(got.get(k + 1, b""))
        if have == want and (k + 1) in ended:
            final.append("ok")
        elif want.startswith(have):
            final.append(f"short{len(have)}/{len(want)}" + ("" if (k + 1) in ended else "-open"))
        else:
            final.append("corrupt")
    return " ".join(out) + " #" + (setup or "-") + " " + ",".join(final) + ("" if not violations else " " + violations[0]) \
        + ("" if not dead else " " + dead)


# --------------------------------------------------------------------------------------------------------


def oracle(case, obs):
    body, _, tail = obs.partition(" #")
    steps = body.split(" ") if case["ops"] else []
    if len(steps) != len(case["ops"]):
        return Failure(case, "malformed log", "log")
    n = len(case["bodies"])
    iw = case["iw"]
    swin = {k: iw for k in range(1, n + 1)}
    cwin = 65535
    mf = 16384
    done = set()
    neg_seen = False
    parts = tail.split(" ")
    setup = parts[0]
    if setup != "-":
        return Failure(case, "DATA sent before the sending loop ran: " + setup, "data-at-setup")
    for i, (op, st) in enumerate(zip(case["ops"], steps)):
        where = f"op {i} {op}: "
        if op[0] == "wu":
            if op[1] == 0:
                cwin += op[2]
            elif op[1] in swin and op[1] not in done:
                swin[op[1]] += op[2]
        elif op[0] == "iw":
            for k in swin:
                if k not in done:
                    swin[k] += op[1] - iw
            iw = op[1]
        elif op[0] == "mf":
            mf = op[1]
        if any(swin[k] < 0 for k in swin if k not in done):
            neg_seen = True
        for e in ([] if st == "-" else st.split(",")):
            if e.startswith("X:"):
                neg = any(swin[k] < 0 for k in swin if k not in done) or cwin < 0
                return Failure(case, where + "the sending loop raised " + e[2:] + " and is never rescheduled"
                               + (" (a stream window is negative after a SETTINGS decrease)" if neg else ""),
                               "loop-dies-negative-window" if neg else "loop-dies")
            if e.startswith("d"):
                sid, ln = e[1:].split(":")
                k, ln = (int(sid) + 1) // 2, int(ln)
                if ln > swin[k] or ln > cwin:
                    return Failure(case, where + f"DATA of {ln} bytes on stream {sid} exceeds the window "
                                   f"(stream {swin[k]}, connection {cwin})", "exceeds-window")
                if ln > mf:
                    return Failure(case, where + f"DATA of {ln} bytes exceeds max frame size {mf}", "exceeds-frame-size")
                swin[k] -= ln
                cwin -= ln
            elif e.startswith("e"):
                done.add((int(e[1:]) + 1) // 2)
    if "client-FlowControlError" in tail:
        if neg_seen:
            return Failure(case, "the server sent a DATA frame (the empty END_STREAM one) on a stream whose window is "
                           "negative after a SETTINGS decrease; the h2 peer answers FlowControlError and drops the "
                           "connection", "end-stream-on-negative-window")
        return Failure(case, "the h2 client saw DATA beyond its window", "exceeds-window")
    finals = parts[1].split(",") if len(parts) > 1 and parts[1] else []
    for k, f in enumerate(finals):
        if f != "ok":
            neg = "X:" in tail
            return Failure(case, f"after opening all windows, stream {2 * k + 1} body is {f}"
                           + (" (the sending loop had died)" if neg else ""),
                           "loop-dies-negative-window" if neg else "body-" + f.split("/")[0].rstrip("0123456789"))
    return None


def _gen_case(rng, big):
    n = rng.choice([1, 1, 2, 3, 4])
    iw = rng.choice([0, 1, 5, 10, 50, 100, 1000, 20000, 65535])
    bodies = []
    for _ in range(n):
        style = rng.random()
        if style < 0.5:
            chunks = [rng.randrange(1, 40) for _ in range(rng.randrange(1, 5))]
        elif style < 0.8:
            chunks = [max(1, iw + rng.randrange(-2, 3)) for _ in range(rng.randrange(1, 4))]
        else:
            chunks = [rng.randrange(1, big) for _ in range(rng.randrange(1, 3))]
        bodies.append(chunks)
    if rng.random() < 0.15:
        # enough data to exhaust the connection window
        bodies = [[rng.randrange(20000, 40000)] for _ in range(rng.randrange(2, 5))]
        iw = rng.choice([65535, 30000, 100000])
    ops = []
    cur_iw = iw
    decrease_ok = rng.random() < 0.5
    for _ in range(rng.randrange(3, 40)):
        r = rng.random()
        if r < 0.6:
            ops.append(["adv"])
        elif r < 0.8:
            k = rng.randrange(0, len(bodies) + 1)
            ops.append(["wu", k, rng.choice([1, 2, 5, 10, 100, 1000, 16384, 40000])])
        elif r < 0.93:
            v = rng.choice([0, 1, 5, 10, 50, 100, 1000, 20000, 65535, 100000])
            if v < cur_iw and not decrease_ok:
                v = cur_iw + rng.choice([0, 1, 10])
            cur_iw = v
            ops.append(["iw", v])
        else:
            ops.append(["mf", rng.choice([16384, 16385, 20000, 65536])])
    return {"iw": iw, "bodies": bodies, "ops": ops}


def gen(rng, tier):
    return [_gen_case(rng, 2000) for _ in range(300 if tier == "quick" else 8000)]


def corpus():
    return [
        # window exhausted, reopened by WINDOW_UPDATE on the stream and on the connection
        {"iw": 100, "bodies": [[300]], "ops": [["adv"], ["adv"], ["wu", 1, 50], ["adv"], ["adv"], ["wu", 1, 1000], ["adv"],
                                                ["adv"], ["adv"]]},
        # SETTINGS decrease makes the stream window negative (RFC 7540 6.9.2) while data is queued
        {"iw": 100, "bodies": [[300]], "ops": [["adv"], ["iw", 40], ["adv"], ["wu", 1, 1000], ["adv"], ["adv"], ["adv"]]},
        # two streams, connection window exhausted
        {"iw": 65535, "bodies": [[40000], [40000]], "ops": [["adv"]] * 6 + [["wu", 0, 30000]] + [["adv"]] * 6},
        # window opened by SETTINGS only
        {"iw": 0, "bodies": [[10, 10]], "ops": [["adv"], ["adv"], ["iw", 15], ["adv"], ["adv"], ["adv"], ["adv"]]},
    ]


def to_coq(case):
    def op(o):
        if o[0] == "adv":
            return "Adv"
        if o[0] == "wu":
            return f"WU {0 if o[1] == 0 else 2 * o[1] - 1}%nat ({o[2]})%Z"
        if o[0] == "iw":
            return f"SetIW ({o[1]})%Z"
        return f"SetMF ({o[1]})%Z"

    bodies = coq_list([coq_list([f"({n})%Z" for n in b], "Z") for b in case["bodies"]], "(list Z)")
    return f"(({case['iw']})%Z, {bodies}, {coq_list([op(o) for o in case['ops']], 'op')})"


def shrink(case):
    ops = case["ops"]
    for i in range(len(ops)):
        yield {**case, "ops": ops[:i] + ops[i + 1:]}
    b = case["bodies"]
    if len(b) > 1:
        yield {**case, "bodies": b[:-1], "ops": [o for o in ops if not (o[0] == "wu" and o[1] == len(b))]}


SPEC = Spec(
    pid="C29",
    gen=gen, impl=impl, oracle=oracle, corpus=corpus, shrink=shrink,
    coq_header="From C29 Require Import Model Run.",
    coq_fn="run_show",
    to_coq=to_coq,
    model_equal=lambda c, a, b: a.partition(" #")[0] == b,
    nontrivial=lambda c, o: "d" in o.partition(" #")[0],
    histogram=lambda c, o: f"{len(c['bodies'])} stream(s)" + (" iw-decrease" if any(
        x[0] == "iw" for x in c["ops"]) else ""),
    rule="random schedules of 3-39 ops (one _sendPrioritisedData iteration / WINDOW_UPDATE on a stream or the "
         "connection / SETTINGS_INITIAL_WINDOW_SIZE change, increases and decreases / SETTINGS_MAX_FRAME_SIZE) over "
         "1-4 concurrent streams whose responses are 1-4 chunks of 1-2000 bytes (chunks at initial window +-2; 15% with "
         "20-40 KB bodies that exhaust the connection window), initial window in {0,1,5,10,50,100,1000,20000,65535}; "
         "afterwards all windows are opened and every body must arrive complete and in order; non-trivial = DATA was "
         "sent during the schedule",
    trusted=["hand-written model coq/C29/Model.v (tied by this correspondence run only); it models the REPAIRED loop "
             "(fixes/C29-negative-window.patch)",
             "h2 4.x (server-side window bookkeeping, framing) and the h2 client state machine in the harness",
             "vendor/priority: round-robin stand-in for the absent `priority` package (harness only)",
             "one-call-per-step reactor stub; StringTransport"],
    assumptions=["all responses are written and finished before the sending loop first runs; no IPushProducer on the "
                 "request (H2Stream.windowUpdated / flowControlBlocked producer branches not exercised)",
                 "windows stay below 2^31-1"],
    case_timeout=60.0,
)
