"""C21 — the HTTP/1.1 server handles pipelined requests one at a time and notifies finish exactly once.

H-tie: coq/C21/Model.v (hand-written model of HTTPChannel's head-of-line blocking, requestDone replay,
connectionLost fan-out, pause/resume bookkeeping, and Request.notifyFinish/write/finish/_cleanup) is evaluated by
vm_compute on the same histories as the real HTTPChannel + Request on an instrumented StringTransport; the ordered
event logs (one per operation) are compared exactly.
Oracle (independent of the model): ghost-log predicates evaluated on the implementation's log, plus the C20
reference parser on the bytes of the finished responses.

case = {"eager": int, "sync": bool, "tmo": int|None, "abt": int|None,
        "reqs": [{"pad": int, "close": bool, "body": None | ["cl", n] | ["chunked", [n...]], "script": [action...],
                  "early": [notify actions performed in Request.gotLength, i.e. before the request is dispatched]}], "ops": [op...]}
tmo / abt: HTTPChannel.timeOut / abortTimeout in seconds of a task.Clock the channel's callLater is bound to
action: "n" notifyFinish | "n:<reaction>" notifyFinish with a callback/errback that, when the Deferred fires, synchronously
        does each letter of <reaction> (f finish, w write, n notifyFinish, l transport.loseConnection() if the transport
        reports loss synchronously) | "w" write | "f" finish | "r" registerProducer(push) | "u" unregisterProducer
op = ["data", n] | ["tp"] | ["tr"] | ["lose"] | ["app", i, action] | ["tick", seconds]
sync: the transport calls connectionLost from inside loseConnection() (like StringTransportWithDisconnection)
"""
from __future__ import annotations

import itertools
import re
import warnings

from harness.common import Failure, Spec, coq_bool, coq_list

ACTS = {"w": "AWrite", "f": "AFinish", "r": "AReg", "u": "AUnreg"}
RACTS = {"f": "RFinish", "w": "RWrite", "n": "RNotify", "l": "RLose"}


def req_bytes(i: int, q) -> bytes:
    body = q.get("body")
    head = (b"POST" if body else b"GET") + b" /%d HTTP/1.1\r\nHost: h\r\n" % i
    head += (b"Connection: close\r\n" if q["close"] else b"") + (b"X-Pad: " + b"a" * q["pad"] + b"\r\n" if q["pad"] else b"")
    if not body:
        return head + b"\r\n"
    if body[0] == "cl":
        return head + b"Content-Length: %d\r\n\r\n" % body[1] + b"b" * body[1]
    chunks = b"".join(b"%x\r\n" % n + b"c" * n + b"\r\n" for n in body[1] if n > 0)
    return head + b"Transfer-Encoding: chunked\r\n\r\n" + chunks + b"0\r\n\r\n"


def has_decoder(q) -> bool:
    """the body goes through a transfer decoder (Content-Length > 0, or chunked even if empty)"""
    body = q.get("body")
    return bool(body) and (body[0] == "chunked" or body[1] > 0)


def _run(case):
    """-> (list of per-op event lists, transport bytes, closing flag)"""
    from twisted.internet.error import ConnectionDone
    from twisted.internet.task import Clock
    from twisted.internet.testing import StringTransport
    from twisted.logger import Logger
    from twisted.python.failure import Failure as TFailure
    from twisted.web import http

    log: list[str] = []
    handed = []
    created = []
    scripts = [q["script"] for q in case["reqs"]]
    ndef: dict[int, int] = {}
    nwr: dict[int, int] = {}
    last_head = [None]

    def token(data: bytes) -> str:
        if data.startswith(b"HTTP/1.1 "):
            m = re.search(rb"\r\nX-Req: (\d+)\r\n", data)
            last_head[0] = int(m.group(1)) if m else -1
            return f"H{last_head[0]}"
        m = re.fullmatch(rb"[0-9a-f]+\r\n<(\d+)\.(\d+)>\r\n", data)
        if m:
            return f"W{int(m.group(1))}.{int(m.group(2))}"
        if data == b"0\r\n\r\n":
            return f"E{last_head[0]}"
        return "?" + data.hex()

    class T(StringTransport):
        def write(self, data):
            log.append(token(bytes(data)))
            StringTransport.write(self, data)

        def writeSequence(self, data):
            self.write(b"".join(data))

        def pauseProducing(self):
            log.append("NP")
            StringTransport.pauseProducing(self)

        def resumeProducing(self):
            log.append("NR")
            StringTransport.resumeProducing(self)

        def loseConnection(self):
            log.append("CL")
            StringTransport.loseConnection(self)          # disconnecting = True
            if case.get("sync"):
                report_loss()

        def abortConnection(self):
            log.append("AB")
            StringTransport.loseConnection(self)
            if case.get("sync"):
                report_loss()

    class Prod:
        def __init__(self, i):
            self.i = i

        def pauseProducing(self):
            log.append(f"PP{self.i}")

        def resumeProducing(self):
            log.append(f"PR{self.i}")

        def stopProducing(self):
            log.append(f"PS{self.i}")

    def watch(i, k, d, reaction=""):
        def fired(sign):
            log.append(f"F{i}.{k}{sign}")
            for a in reaction:
                try:
                    if a == "l":
                        if case.get("sync"):
                            t.loseConnection()
                    else:
                        act(i, a)
                except BaseException as e:      # would otherwise vanish into the Deferred
                    log.append("!" + type(e).__name__)

        d.addCallbacks(lambda v: fired("+" if v is None else f"?{v!r}"),
                       lambda f: fired("-" if f.check(ConnectionDone) else f"?{f.type.__name__}"))

    def act(i, a):
        req = created[i]
        try:
            if a[0] == "n":
                k = ndef.get(i, 0)
                ndef[i] = k + 1
                d = req.notifyFinish()
                log.append(f"D{i}.{k}")
                watch(i, k, d, a[2:])
            elif a == "w":
                j = nwr.get(i, 0)
                nwr[i] = j + 1
                req.write(b"<%d.%d>" % (i, j))
            elif a == "f":
                with warnings.catch_warnings():
                    warnings.simplefilter("ignore")
                    req.finish()
            elif a == "r":
                req.registerProducer(Prod(i), True)
            elif a == "u":
                req.unregisterProducer()
        except (RuntimeError, ValueError):
            log.append("X")
        except AttributeError:
            if a in "ru":          # the request's channel is gone (finished / disconnected)
                log.append("X")
            else:
                raise

    class Scripted(http.Request):
        idx = None
        _log = Logger(observer=lambda event: None)     # "Producer was not unregistered" goes nowhere

        def __init__(self, *a, **kw):
            http.Request.__init__(self, *a, **kw)
            self.idx = len(created)            # requests are created, and later dispatched, in stream order
            created.append(self)
            log.append(f"C{self.idx}")

        def gotLength(self, length):
            http.Request.gotLength(self, length)
            for a in case["reqs"][self.idx].get("early", []) if self.idx < len(case["reqs"]) else []:
                act(self.idx, a)                # e.g. a subclass subscribing to notifyFinish before dispatch

        def process(self):
            i = len(handed)
            handed.append(self)
            log.append(f"P{i}" if i == self.idx else f"P{i}?created-as-{self.idx}")
            self.setHeader(b"x-req", b"%d" % i)
            for a in scripts[i]:
                act(i, a)

        def connectionLost(self, reason):
            log.append(f"L{self.idx}")
            http.Request.connectionLost(self, reason)

    class Chan(http.HTTPChannel):
        def connectionLost(self, reason):
            log.append("G")
            http.HTTPChannel.connectionLost(self, reason)

    connected = [True]

    def report_loss():
        if connected[0]:
            connected[0] = False
            ch.connectionLost(TFailure(ConnectionDone()))

    clock = Clock()
    ch = Chan()
    ch.requestFactory = Scripted
    ch.timeOut = case.get("tmo")
    ch.abortTimeout = case.get("abt")
    ch.callLater = clock.callLater
    ch._optimisticEagerReadSize = case["eager"]
    t = T(lenient=True)
    ch.makeConnection(t)
    log.clear()
    stream = b"".join(req_bytes(i, q) for i, q in enumerate(case["reqs"]))
    pos = 0
    out = []
    # The peer sits behind a socket: what it sends - bytes, and its close - reaches the channel only while the transport
    # is reading (producerState "producing"); while the channel has paused the transport the bytes wait and the close is
    # not noticed.  They are delivered right after the operation that makes the transport read again.
    queued, peer_closed = b"", False
    reading = lambda: t.producerState != "paused"
    for op in case["ops"]:
        log.clear()
        k = op[0]
        if k == "data":
            chunk = stream[pos:pos + op[1]]
            pos += op[1]
            if connected[0] and not t.disconnecting:       # a real transport stops reading at loseConnection()
                if reading():
                    ch.dataReceived(chunk)
                else:
                    queued += chunk
        elif k == "tick":
            clock.advance(op[1])
        elif k == "tp":
            if connected[0]:
                ch.pauseProducing()
        elif k == "tr":
            if connected[0]:
                ch.resumeProducing()
        elif k == "lose":
            peer_closed = True
            if reading():
                report_loss()
        elif k == "app":
            if op[1] < len(handed):
                act(op[1], op[2])
        # settle: if the transport reads (again): first the waiting bytes, then the close
        if reading() and queued:
            chunk, queued = queued, b""
            log.append(f"Q{len(chunk)}")
            if connected[0] and not t.disconnecting:
                ch.dataReceived(chunk)
        if reading() and peer_closed and connected[0]:
            log.append("Z")
            report_loss()
        out.append(list(log))
    return out, t.value(), bool(t.disconnecting)


def impl(case) -> str:
    from harness.c20 import ParseError, ref_parse

    logs, data, closing = _run(case)
    # byte-level reading of the finished responses (used by the oracle only; not part of the model's string)
    nfin = sum(1 for l in logs for e in l if e.startswith("E"))
    bodies, pos = [], 0
    try:
        for _ in range(nfin):
            r, pos = ref_parse(data, pos, False)
            bodies.append(r["body"].decode("latin-1"))
        wire = ";".join(bodies)
    except ParseError:
        wire = "ERR"
    return " ".join(",".join(l) if l else "-" for l in logs) + " |" + ("T" if closing else "F") + "#" + wire


def model_equal(case, impl_obs, model_obs):
    """the model starts at dispatch: creation (C i) and the loss fan-out to a request still being received are not in it"""
    head = impl_obs.split("#")[0]
    body, sep, closing = head.rpartition(" |")
    dispatched, ops = set(), []
    for w in body.split(" "):
        keep = []
        for e in ([] if w == "-" else w.split(",")):
            if e.startswith("P"):
                dispatched.add(e[1:])
            if re.fullmatch(r"C\d+|Q\d+|Z", e) or (re.fullmatch(r"L\d+", e) and e[1:] not in dispatched):
                continue
            keep.append(e)
        ops.append(",".join(keep) if keep else "-")
    return " ".join(ops) + sep + closing == model_obs


# --------------------------------------------------------------------------------------------------
# the property as predicates on the implementation's log (independent of the model)


def check_log(case, obs):
    """-> list of (tag, text) for everything that is wrong"""
    head, _, wire = obs.partition("#")
    body, _, closing = head.rpartition(" |")
    ops_logs = [([] if w == "-" else w.split(",")) for w in body.split(" ")] if case["ops"] else []
    bad = []
    if len(ops_logs) != len(case["ops"]):
        return [("log", "malformed log")]
    nextp, open_, dead = 0, None, False
    head_done, nwrites = {}, {}
    finished, lost = set(), set()
    defs = {}              # (i, d) -> ["pending"|"fired", late?]
    netpaused, waiting, closed, conn_lost = False, False, False, False
    writes_of = {}
    created_, dispatched_, nlost, at_loss = set(), set(), {}, set()
    delivered, ends, tot, queued_, peer_closed_ = 0, [], 0, 0, False
    for i, q in enumerate(case["reqs"]):
        tot += len(req_bytes(i, q))
        ends.append(tot)
    for k, (op, evs) in enumerate(zip(case["ops"], ops_logs)):
        where = f"op {k} {op}: "
        if op[0] == "tp":
            waiting = True
        elif op[0] == "tr":
            waiting = False
        paused_at_start, gone_at_start = netpaused, (closed or conn_lost)
        if op[0] == "data" and not gone_at_start:
            if paused_at_start:
                queued_ += op[1]
            else:
                delivered += op[1]
        if op[0] == "lose":
            peer_closed_ = True
        for e in evs:
            if re.fullmatch(r"Q\d+", e):            # the driver delivers the bytes that waited while reading was paused
                if netpaused:
                    bad.append(("driver", where + "queued bytes delivered while reading is paused"))
                if not (closed or conn_lost):
                    delivered += int(e[1:])
                queued_ = 0
                continue
            if e == "Z":                            # the driver lets the channel notice the peer's close
                continue
            if e.startswith("!"):
                bad.append(("exception-escapes", where + f"{e[1:]} raised inside finish() / connectionLost / loseConnection"))
                continue
            m = re.fullmatch(r"([A-Z]+)(\d+)?(?:\.(\d+))?([+-])?", e)
            if not m:
                bad.append(("unexpected-event", where + e))
                continue
            kind, i, j, sign = m.group(1), m.group(2), m.group(3), m.group(4)
            i = None if i is None else int(i)
            j = None if j is None else int(j)
            if kind == "C":
                if i != len(created_):
                    bad.append(("creation-order", where + f"Request {i} created, expected {len(created_)}"))
                created_.add(i)
                continue
            if kind == "P":
                dispatched_.add(i)
                if i not in created_:
                    bad.append(("process-order", where + f"request {i} dispatched but never created"))
                if open_ is not None:
                    bad.append(("two-requests-in-application", where + f"request {i} handed over while request {open_} is unfinished"))
                if i != nextp:
                    bad.append(("process-order", where + f"request {i} handed over, expected {nextp}"))
                if closed or conn_lost:
                    bad.append(("process-after-close", where + f"request {i} handed over after the connection was closed / lost"))
                nextp, open_, dead = i + 1, i, False
            elif kind in ("H", "W", "E"):
                if open_ != i or dead:
                    bad.append(("wire-interleaved", where + f"{e} written while the open request is {open_}{' (lost)' if dead else ''}"))
                if kind == "H":
                    if head_done.get(i):
                        bad.append(("wire-order", where + "second head"))
                    head_done[i] = True
                else:
                    if not head_done.get(i):
                        bad.append(("wire-order", where + f"{e} before the head"))
                    if kind == "W":
                        if j != nwrites.get(i, 0):
                            bad.append(("wire-order", where + f"{e} out of order"))
                        nwrites[i] = nwrites.get(i, 0) + 1
                        writes_of.setdefault(i, []).append(f"<{i}.{j}>")
                    else:
                        finished.add(i)
                        if open_ == i:
                            open_ = None
            elif kind == "G":
                if conn_lost:
                    bad.append(("connection-lost-twice", where + "connectionLost delivered again"))
                conn_lost = True
                at_loss = set(created_)          # (a synchronously reporting transport lets the LineReceiver loop create one
                #                                   more Request after the loss; that one has nothing to be told)
            elif kind == "L":
                if not conn_lost:
                    bad.append(("lost-fanout", where + f"connectionLost delivered to request {i} although the connection is there"))
                receiving = i in created_ and i not in dispatched_
                if open_ != i and not receiving:
                    bad.append(("lost-fanout", where + f"connectionLost delivered to request {i}, open request is {open_}"))
                nlost[i] = nlost.get(i, 0) + 1
                lost.add(i)
                if open_ == i:
                    dead = True
            elif kind == "D":
                defs[(i, j)] = ["pending", i in finished or i in lost]
            elif kind == "F":
                d = defs.get((i, j))
                if d is None:
                    bad.append(("notify-unknown", where + e))
                    continue
                if d[0] == "fired":
                    bad.append(("notify-fired-twice", where + f"Deferred {i}.{j} fired again"))
                d[0] = "fired"
                if sign == "+" and i not in finished:
                    bad.append(("notify-none-before-finish", where + f"Deferred {i}.{j} fired with None but response {i} is not finished"))
                if sign == "-" and i not in lost:
                    bad.append(("notify-failure-without-loss", where + f"Deferred {i}.{j} failed but request {i} did not lose its connection"))
                if sign is None:
                    bad.append(("notify-value", where + e))
            elif kind == "NP":
                # reading may be switched off for two reasons only: the transport asked the idle channel to wait, or more
                # than the eager-read limit is buffered behind the request being handled (and the transport is not waiting)
                buffered = delivered - (ends[open_] if open_ is not None and open_ < len(ends) else delivered)
                idle_wait = op[0] == "tp" and open_ is None
                eager_full = open_ is not None and buffered > case["eager"] and not waiting
                if not (idle_wait or eager_full or closed):
                    bad.append(("reading-paused-without-cause",
                                where + f"reading paused while request {open_} is handled, {buffered} bytes buffered (limit "
                                        f"{case['eager']}), transport {'waiting' if waiting else 'writable'}: a peer close would go unnoticed"))
                netpaused = True
            elif kind == "NR":
                netpaused = False
            elif kind == "CL":
                if op[0] == "tick" and open_ is not None and not dead:
                    bad.append(("timeout-while-handling", where + f"idle timeout closed the connection while request {open_} is being handled"))
                closed = True
            elif kind == "AB":
                closed = True
            elif kind in ("PP", "PR", "PS", "X"):
                pass
            else:
                bad.append(("unexpected-event", where + e))
        # once the connection is lost, every Request the channel created whose response is not finished has been told
        # so exactly once (also one that is still being received: headers complete, body incomplete)
        if conn_lost:
            for i in sorted(at_loss):
                if i not in finished and nlost.get(i, 0) != 1:
                    bad.append(("connection-loss-not-forwarded", where + f"Request {i} was created and has not finished, the connection "
                                                                        f"is lost, but it got connectionLost {nlost.get(i, 0)} times"))
                    break
                if i in finished and nlost.get(i, 0) != 0:
                    bad.append(("lost-fanout", where + f"finished request {i} got connectionLost"))
                    break
        # at the end of every operation: nothing that should have fired is still pending
        for (i, d), (state, late) in defs.items():
            if state == "pending" and (i in finished or i in lost):
                if late:
                    bad.append(("notifyFinish-after-completion-never-fires",
                                where + f"Deferred {i}.{d} was requested after request {i} completed and has not fired"))
                else:
                    bad.append(("notify-not-fired", where + f"Deferred {i}.{d} still pending although request {i} "
                                                           f"{'finished' if i in finished else 'lost its connection'}"))
        if peer_closed_ and not netpaused and not conn_lost:
            bad.append(("peer-close-not-noticed", where + "the peer closed, the transport is reading, but connectionLost was not delivered"))
        if open_ is None and not closed and not waiting and netpaused and not conn_lost:
            bad.append(("reading-left-paused", where + "channel idle, transport writable, but reading is still paused"))
        # a pause must not outlive its reason: with the transport writable, reading may stay paused only while more than the
        # eager-read limit is buffered behind the request being handled
        if open_ is not None and open_ < len(ends) and not closed and not waiting and netpaused and not conn_lost \
                and delivered - ends[open_] <= case["eager"]:
            if peer_closed_:
                pend = sorted(f"{i}.{d}" for (i, d), (state, _) in defs.items() if state == "pending" and i == open_)
                bad.append(("peer-close-unnoticed",
                            where + f"the peer closed the connection while request {open_} is being handled; the transport is "
                                    f"writable and only {delivered - ends[open_]} bytes are buffered (limit {case['eager']}), but "
                                    f"reading is still paused: connectionLost is not delivered"
                                    + (f" and notifyFinish Deferred(s) {', '.join(pend)} never fire with the failure" if pend else "")))
            else:
                bad.append(("reading-left-paused-while-handling",
                            where + f"request {open_} is being handled, the transport is writable, {delivered - ends[open_]} bytes "
                                    f"buffered (limit {case['eager']}), but reading is still paused: a peer close would go unnoticed"))
        # head-of-line blocking must end: an idle channel holds no complete request back
        if open_ is None and not closed and not conn_lost and nextp < len(ends) and delivered >= ends[nextp]:
            bad.append(("pipelined-request-stalled", where + f"request {nextp} is completely received, no request is being "
                                                            f"handled, but it was not handed to the application"))
    if (closing == "T") != closed:
        bad.append(("close-flag", f"closing={closing} but loseConnection {'was' if closed else 'was not'} called"))
    # bytes of the finished responses: one response each, in order, body = its own writes
    want = ";".join("".join(writes_of.get(i, [])) for i in sorted(finished))
    if wire != want:
        bad.append(("wire-bytes", f"finished responses on the wire {wire!r}, expected {want!r}"))
    return bad


def oracle(case, obs):
    bad = check_log(case, obs)
    if not bad:
        return None
    # the most specific class first
    late = [b for b in bad if b[0] == "notifyFinish-after-completion-never-fires"]
    tag, text = (late or bad)[0] if len(late) == len(bad) else [b for b in bad if b not in late][0]
    return Failure(case, text, tag)


# --------------------------------------------------------------------------------------------------


def _act(a: str) -> str:
    if a[0] == "n":
        return "(ANotify " + coq_list([RACTS[c] for c in a[2:]], "ract") + ")"
    return ACTS[a]


def _opt(v) -> str:
    return "(@None N)" if v is None else f"(Some {v}%N)"


def _resume_after_close(case) -> bool:
    """The transport calls resumeProducing() after the channel called loseConnection() on a transport that reports the loss
    later.  Whether the channel then calls transport.resumeProducing() depends on len(_dataBuffer), and that depends on
    something the byte-count model does not carry: bytes that followed a `Connection: close` request in the same delivery
    are DROPPED by LineReceiver (transport.disconnecting) if the response was finished inside process(), but sit in
    _dataBuffer if it was finished later.  A resumeProducing() on a disconnecting transport does nothing on a real
    transport, and nothing in the property depends on it; these histories are checked by the oracle only."""
    if not any(o[0] == "tr" for o in case["ops"]):
        return False
    logs, _, _ = _run(case)
    closed = False
    for o, l in zip(case["ops"], logs):
        if closed and o[0] == "tr":
            return True
        if any(e in ("CL", "AB") for e in l):
            closed = True
    return False


def to_coq(case):
    if any(r.get("early") for r in case["reqs"]):
        return None          # the model starts at dispatch; Deferreds handed out in gotLength are checked by the oracle only
    if not case.get("sync") and _resume_after_close(case):
        return None          # see _resume_after_close: oracle only

    def q(i, r):
        n = len(req_bytes(i, r))
        return (f"mkQ {n}%N {coq_bool(not r['close'])} {coq_bool(has_decoder(r))} "
                f"{coq_list([_act(a) for a in r['script']], 'act')}")

    def op(o):
        if o[0] == "tick":
            return f"Tick {o[1]}%N"
        if o[0] == "data":
            return f"Op (Data {o[1]}%N)"
        if o[0] == "app":
            return f"Op (App {o[1]}%nat {_act(o[2])})"
        return "Op " + {"tp": "TPause", "tr": "TResume", "lose": "Lose"}[o[0]]

    return (f"({case['eager']}%N, {coq_bool(bool(case.get('sync')))}, {_opt(case.get('tmo'))}, {_opt(case.get('abt'))}, "
            f"{coq_list(['(' + q(i, r) + ')' for i, r in enumerate(case['reqs'])], 'reqspec')}, "
            f"{coq_list([op(o) for o in case['ops']], 'top')})")


REACTIONS = ["f", "n", "w", "l", "fn", "nf", "lf", "fl", "ln", "wfn", "nn", "lwnf", "fnl"]


def _notify(rng, p=0.35):
    return "n:" + rng.choice(REACTIONS) if rng.random() < p else "n"


def _script(rng, letters: str):
    return [_notify(rng) if c == "n" else c for c in letters]


SCRIPTS = ["", "", "f", "wf", "nf", "nwf", "nnwwf", "n", "nw", "w", "nn", "rwf", "rnw", "ruf", "wwwf", "nwnwf", "r"]


def _mk_reqs(rng, n):
    return [{"pad": rng.choice([0, 0, 0, 3, 17, 40]), "close": (rng.random() < 0.3) if i == n - 1 else (rng.random() < 0.07),
             "body": rng.choice([None, None, None, ["cl", 0], ["cl", 1], ["cl", 23], ["chunked", []], ["chunked", [5]], ["chunked", [1, 17, 2]]]),
             "script": _script(rng, rng.choice(SCRIPTS)),
             "early": ([_notify(rng, 0.5)] if rng.random() < 0.12 else [])} for i in range(n)]


def _random_case(rng, big=False):
    n = rng.choice([1, 2, 2, 3, 3, 4, 6]) if not big else rng.randrange(300, 520)
    reqs = _mk_reqs(rng, n)
    if big:
        for q in reqs:
            q["script"] = _script(rng, rng.choice(["f", "f", "f", "wf", "nf", ""]))
            q["close"] = False
    total = sum(len(req_bytes(i, q)) for i, q in enumerate(reqs))
    eager = 16384 if (big or rng.random() < 0.4) else rng.choice([0, 1, 20, 37, 38, 39, 60, 100, 150])
    ops, pos, lost = [], 0, False
    steps = rng.randrange(3, 30) if not big else rng.randrange(4, 12)
    tmo = None if (big or rng.random() < 0.5) else rng.choice([1, 2, 5, 10, 60])
    abt = rng.choice([None, 1, 3, 15])
    for _ in range(steps):
        if tmo is not None and rng.random() < 0.22:
            ops.append(["tick", rng.choice([1, 1, max(1, tmo - 1), tmo, tmo + 1, (abt or 2), (abt or 2) + tmo, 100])])
            continue
        r = rng.random()
        if not lost and r < 0.38 and pos < total:
            k = rng.choice([1, 2, 5, 17, 30, 36, 37, 38, 39, 40, 80, total]) if not big else rng.choice([total, 16000, 16384, 17000, 5000])
            k = max(1, min(k, total - pos))
            ops.append(["data", k])
            pos += k
        elif not lost and r < 0.46:
            ops.append(["tp"])
        elif not lost and r < 0.54:
            ops.append(["tr"])
        elif not lost and r < 0.58:
            ops.append(["lose"])
            lost = True
        elif lost and r < 0.2:
            ops.append([rng.choice(["tp", "tr", "tr"])])       # the close may still be waiting behind a paused transport
        else:
            i = rng.randrange(min(n, 8))
            a = rng.choice("nnwwfffru") if not lost else rng.choice("nwf")
            ops.append(["app", i, _notify(rng) if a == "n" else a])
    return {"eager": eager, "sync": rng.random() < 0.4, "tmo": tmo, "abt": abt, "reqs": reqs, "ops": ops}


def gen(rng, tier):
    cases = []
    # bounded-exhaustive: two pipelined requests, every history up to length 3 (thorough 4) over a small alphabet
    first_scripts = ["", "nf", "n", ["n:fnl"], ["n:lf", "f"], ["n:n", "n:wf"]]
    second_scripts = ["", "nf", ["n:fn"]]
    alpha = [["data", 10], ["data", 1000], ["tp"], ["tr"], ["lose"], ["app", 0, "f"], ["app", 0, "n:fn"], ["app", 1, "f"], ["app", 1, "n:l"]]
    depth = 3 if tier == "quick" else 4
    for s0 in first_scripts:
        for s1 in second_scripts:
            reqs = [{"pad": 0, "close": False, "script": s0}, {"pad": 0, "close": False, "script": s1}]
            total = sum(len(req_bytes(i, q)) for i, q in enumerate(reqs))
            for n in range(1, depth + 1):
                for word in itertools.product(range(len(alpha)), repeat=n):
                    if n == depth and rng.random() > (0.15 if tier == "quick" else 0.12):
                        continue
                    ops, pos, lost, ok = [], 0, False, True
                    for w in word:
                        o = list(alpha[w])
                        if lost and o[0] not in ("app", "tp", "tr"):     # (a peer that closed sends nothing more)
                            ok = False
                            break
                        if o[0] == "data":
                            o[1] = min(o[1], total - pos)
                            if o[1] <= 0:
                                ok = False
                                break
                            pos += o[1]
                        if o[0] == "lose":
                            lost = True
                        ops.append(o)
                    if ok:
                        cases.append({"eager": 30, "sync": rng.random() < 0.6, "reqs": reqs, "ops": ops})
    # idle timeout: two requests (the second with a body), every history up to length 4 (thorough 5) over ticks around
    # timeOut = 5 / abortTimeout = 3, deliveries, finish, loss
    talpha = [["tick", 2], ["tick", 3], ["tick", 5], ["data", 20], ["data", 1000], ["app", 0, "f"], ["lose"], ["app", 1, "f"]]
    for sync in (False, True):
        for s0 in ("", "f"):
            for body in (None, ["cl", 7], ["chunked", [3]]):
                reqs = [{"pad": 0, "close": False, "body": None, "script": s0}, {"pad": 0, "close": False, "body": body, "script": ""}]
                total = sum(len(req_bytes(i, q)) for i, q in enumerate(reqs))
                tdepth = 4 if tier == "quick" else 5
                for n in range(1, tdepth + 1):
                    for word in itertools.product(range(len(talpha)), repeat=n):
                        if n >= 4 and rng.random() > (0.03 if tier == "quick" else 0.1):
                            continue
                        if n == 3 and tier == "quick" and rng.random() > 0.3:
                            continue
                        ops, pos = [], 0
                        for w in word:
                            o = list(talpha[w])
                            if o[0] == "data":
                                o[1] = min(o[1], total - pos)
                                if o[1] <= 0:
                                    continue
                                pos += o[1]
                            ops.append(o)
                        if ops:
                            cases.append({"eager": 30, "sync": sync, "tmo": 5, "abt": 3, "reqs": reqs, "ops": ops})
    # a request whose headers are complete and whose body is not: loss / timeout / more data at that point, with and
    # without a Deferred taken in gotLength
    for body in (["cl", 9], ["chunked", [4, 3]]):
        for early in ([], ["n"], ["n:fn"], ["n:w", "n"]):
            for first in ("f", ""):
                reqs = [{"pad": 0, "close": False, "body": None, "script": first, "early": []},
                        {"pad": 0, "close": False, "body": body, "script": "nf", "early": early}]
                l0 = len(req_bytes(0, reqs[0]))
                l1 = len(req_bytes(1, reqs[1]))
                blen = 9 if body[0] == "cl" else len(b"4\r\ncccc\r\n3\r\nccc\r\n0\r\n\r\n")
                head1 = l1 - blen
                for cut in (l0 + 5, l0 + head1 - 1, l0 + head1, l0 + head1 + 1, l0 + l1 - 1):
                    for tail in ([["lose"]], [["lose"], ["app", 1, "n"]], [["data", l0 + l1 - cut], ["lose"]], [["app", 0, "f"], ["lose"]],
                                 [["tick", 5], ["lose"]]):
                        cases.append({"eager": 16384, "sync": rng.random() < 0.3, "tmo": 5, "abt": None, "reqs": reqs,
                                      "ops": [["data", cut]] + tail})
    # the peer behind a socket: transport pause/resume cycles inside the handling of one request, then the client closes
    # while the response is outstanding; bytes and closes that arrive while reading is paused (idle pause, eager-read limit)
    one = len(req_bytes(0, {"pad": 0, "close": False}))
    for script in ("n", "nw", ["n:fn"], "nn", ["n:w", "n"], "rn"):
        for extra in (0, 1):
            reqs = [{"pad": 0, "close": False, "script": script}] + [{"pad": 0, "close": False, "script": "nf"}] * extra
            for eager in (16384, 20):
                for cycles in (1, 2, 3):
                    for inner in ([], [["app", 0, "w"]]):
                        for tail in ([["lose"]], [["lose"], ["app", 0, "w"]], [["lose"], ["app", 0, "f"]], [["lose"], ["app", 0, "n"]],
                                     [["tp"], ["lose"], ["tr"]], [["tp"], ["lose"], ["app", 0, "f"], ["tr"]]):
                            cases.append({"eager": eager, "sync": False, "reqs": reqs,
                                          "ops": [["data", one * (1 + extra)]] + ([["tp"]] + inner + [["tr"]]) * cycles + tail})
            for eager in (0, 20, 16384):
                for hist in ([["tp"], ["data", one], ["tr"]], [["tp"], ["lose"], ["tr"]], [["tp"], ["data", one], ["lose"], ["tr"]],
                             [["tp"], ["data", 10], ["tr"], ["data", one - 10], ["lose"]],
                             [["data", 10], ["tp"], ["data", one - 10], ["lose"], ["app", 0, "n"], ["tr"], ["app", 0, "n"]],
                             [["data", one], ["data", one], ["lose"], ["app", 0, "w"], ["app", 0, "f"]],
                             [["data", one], ["data", 10], ["data", one - 10], ["lose"], ["app", 0, "f"], ["app", 1, "f"]],
                             [["data", one], ["data", one], ["tp"], ["app", 0, "f"], ["tr"], ["lose"], ["app", 1, "w"], ["app", 1, "f"]],
                             [["data", one], ["tp"], ["data", one], ["tr"], ["data", 5], ["lose"], ["app", 0, "f"]]):
                    cases.append({"eager": eager, "sync": False,
                                  "reqs": [reqs[0], {"pad": 0, "close": False, "script": "n"}, {"pad": 0, "close": False, "script": "nf"}],
                                  "ops": hist})
    for _ in range(1200 if tier == "quick" else 15000):
        cases.append(_random_case(rng))
    for _ in range(6 if tier == "quick" else 60):
        cases.append(_random_case(rng, big=True))
    return cases


def corpus():
    import twisted.internet.testing  # noqa: F401  (imports outside the per-case time limit)
    import twisted.web.http  # noqa: F401
    two = [{"pad": 0, "close": False, "script": "n"}, {"pad": 0, "close": False, "script": "nwf"}]
    return [
        # three pipelined requests in one delivery; the first finishes later, the rest immediately
        {"eager": 16384, "reqs": two + [{"pad": 5, "close": True, "script": "f"}],
         "ops": [["data", 200], ["app", 0, "w"], ["tp"], ["app", 0, "f"], ["tr"]]},
        # connection lost while the first is being handled
        {"eager": 16384, "reqs": two, "ops": [["data", 200], ["app", 0, "n"], ["lose"], ["app", 0, "w"], ["app", 0, "f"]]},
        # notifyFinish after the response finished / after the connection was lost (never fires)
        {"eager": 16384, "reqs": two, "ops": [["data", 37], ["app", 0, "f"], ["app", 0, "n"]]},
        {"eager": 16384, "reqs": two, "ops": [["data", 37], ["lose"], ["app", 0, "n"]]},
        # eager read limit reached while a request is pending, transport pause in between
        {"eager": 20, "reqs": two, "ops": [["data", 37], ["data", 30], ["tp"], ["tr"], ["app", 0, "f"], ["data", 7]]},
        # an errback of the in-flight request calls finish() and notifyFinish() while a second request is buffered
        {"eager": 16384, "sync": False, "reqs": [{"pad": 0, "close": False, "script": ["n:fn"]}, {"pad": 0, "close": False, "script": "f"}],
         "ops": [["data", 200], ["lose"], ["app", 0, "n:w"]]},
        # a callback drops the connection (synchronously reporting transport) while the finish notifications are delivered
        {"eager": 16384, "sync": True, "reqs": [{"pad": 0, "close": False, "script": ["n:l", "n:fn"]}, {"pad": 0, "close": False, "script": ["n:n"]}],
         "ops": [["data", 200], ["app", 0, "f"], ["app", 1, "f"]]},
        {"eager": 16384, "sync": True, "reqs": [{"pad": 0, "close": True, "script": ["n:ln", "w", "f"]}, {"pad": 0, "close": False, "script": "f"}],
         "ops": [["data", 200], ["lose"]]},
        # the send buffer fills and drains while a long-poll request is handled; then the client goes away
        {"eager": 16384, "sync": False, "reqs": [{"pad": 0, "close": False, "script": "n"}],
         "ops": [["data", 28], ["tp"], ["tr"], ["lose"], ["app", 0, "w"]]},
        # the client sends and closes while the idle channel was asked to wait; both arrive when the transport resumes
        {"eager": 16384, "sync": False, "reqs": two, "ops": [["tp"], ["data", 56], ["lose"], ["tr"], ["app", 0, "n"]]},
        # idle timeout while half of the second request is buffered, then forceAbortClient; timeout disabled while handling
        # the connection is lost while the second request's body is half received; its Deferred was taken in gotLength
        {"eager": 16384, "sync": False, "tmo": None, "abt": None,
         "reqs": [{"pad": 0, "close": False, "script": "f"}, {"pad": 0, "close": False, "body": ["cl", 9], "script": "f", "early": ["n:n"]}],
         "ops": [["data", 80], ["lose"], ["app", 1, "n"]]},
        {"eager": 16384, "sync": False, "tmo": 5, "abt": 3,
         "reqs": [{"pad": 0, "close": False, "script": "f"}, {"pad": 0, "close": False, "body": ["cl", 9], "script": ""}],
         "ops": [["data", 50], ["tick", 4], ["tick", 1], ["tick", 3], ["lose"]]},
        {"eager": 16384, "sync": False, "tmo": 5, "abt": 3,
         "reqs": [{"pad": 0, "close": False, "body": ["chunked", [4, 1]], "script": ""}, {"pad": 0, "close": False, "script": "f"}],
         "ops": [["data", 1000], ["tick", 100], ["app", 0, "f"], ["tick", 4], ["tick", 1], ["tick", 2], ["tick", 1]]},
    ]


def shrink(case):
    ops = case["ops"]
    for i in range(len(ops)):
        rest = ops[:i] + ops[i + 1:]
        if ops[i][0] == "data":
            # keep the byte positions of later deliveries meaningful: merge into the next delivery instead of dropping
            for j in range(i, len(rest)):
                if rest[j][0] == "data":
                    merged = rest[:j] + [["data", rest[j][1] + ops[i][1]]] + rest[j + 1:]
                    yield {**case, "ops": merged}
                    break
        yield {**case, "ops": rest}
    if len(case["reqs"]) > 1:
        n = len(case["reqs"]) - 1
        total = sum(len(req_bytes(i, q)) for i, q in enumerate(case["reqs"][:n]))
        ops2, pos = [], 0
        for o in ops:
            if o[0] == "data":
                k = min(o[1], total - pos)
                if k <= 0:
                    continue
                pos += k
                ops2.append(["data", k])
            elif o[0] == "app" and o[1] >= n:
                continue
            else:
                ops2.append(o)
        yield {**case, "reqs": case["reqs"][:n], "ops": ops2}


def _hist(case, obs):
    kinds = "".join(sorted({o[0][0] for o in case["ops"]}))
    re_ = any(":" in a for q in case["reqs"] for a in q["script"]) or any(o[0] == "app" and ":" in o[2] for o in case["ops"])
    kinds += " tmo" if case.get("tmo") else ""
    kinds += " body" if any(q.get("body") for q in case["reqs"]) else ""
    return f"reqs={min(len(case['reqs']), 7)} ops={kinds}{' sync' if case.get('sync') else ''}{' reactions' if re_ else ''}"


SPEC = Spec(
    pid="C21",
    gen=gen, impl=impl, oracle=oracle, corpus=corpus, shrink=shrink, histogram=_hist,
    coq_header="From C21 Require Import Model Run.",
    coq_fn="run_show", to_coq=to_coq, model_equal=model_equal,
    nontrivial=lambda c, o: o.count("P") >= 1 and ("F" in o or "E" in o),
    rule="every history of length <= 3 (quick, the longest length sampled 25%) / <= 4 (thorough, longest sampled 20%) over "
         "{deliver 10 bytes, deliver the rest, transport pause, transport resume, connection lost, finish / notifyFinish on "
         "request 0 / 1} for two pipelined requests with process() scripts in {nothing, notify, notify+finish}^2; plus 1200 (quick) "
         "/ 15000 (thorough) random histories of 3-30 operations over 1-6 pipelined requests (17 process() scripts mixing "
         "notifyFinish, write, finish, register/unregister producer; Connection: close on the last or a middle request; "
         "deliveries cut at 1, 2, 5, 17, 30, 36-40, 80 bytes and whole; eager read limit 0-150 or the real 16384; loss at a "
         "random point followed by application calls), and 6 / 60 histories with 300-520 pipelined requests around the real "
         "16384-byte limit; non-trivial = a request was handed over and a response finished or a Deferred fired; distinct by "
         "(case, observation)",
    trusted=["hand-written model coq/C21/Model.v (tied by this correspondence run: the ordered event log of every operation)",
             "instrumented StringTransport (write / pauseProducing / resumeProducing / loseConnection logged), Request subclass "
             "logging process() and connectionLost, callbacks on the notifyFinish Deferreds",
             "the request stream consists of well-formed body-less HTTP/1.1 GET requests; the model counts bytes and hands "
             "request i over when its last byte has arrived (request parsing itself is C18/C19)"],
    assumptions=["no bytes are delivered and the transport does not pause/resume after connectionLost",
                 "registerProducer / unregisterProducer are called only with a push producer; a request whose channel is gone "
                 "answers them with an exception",
                 "Deferred callback/errback semantics as in C01/C03"],
)
