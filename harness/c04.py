"""C04 — DeferredList / gatherResults / race: H-tie (hand-written model coq/C04), spec-level oracle."""
from __future__ import annotations

import itertools

from harness.common import Failure, Spec, coq_list, coq_option

# case = {"kind": ["list", f1, f2, ce] | ["gather", ce] | ["race"],
#         "inputs": [[canc, pre]]   canc = ["nothing"] | ["succeed", z] | ["fail", n];  pre = None | outcome
#         canc also ["raise"]: the canceller raises a BaseException that is not an Exception (DeferredList / gatherResults
#                            only; outside the Coq model: the input stays unfired, the cancel loop must go on)
#         "selfremove": bool  every input removes itself from the CALLER's list (the object passed to the aggregate) when it
#                            fires, through a callback attached before the aggregate is built (armed once it is built)
#         ops also ["mut", "clear" | "reverse" | "append" | "pop0"]: the caller mutates that list object
#         "chained": [bool]  input i was ALREADY FIRED (.called) when handed to the aggregate but its chain is suspended on
#                            a pending inner Deferred (succeed(x).addCallback(lambda _: inner)): it has delivered nothing;
#                            ["fire", i, o] fires the inner one; cancel() reaches the inner one's canceller (canc)
#         "ops": [["fire", i, outcome] | ["cancel"]]}       outcome = ["ok", z] | ["err", n]


class UserErr(Exception):
    pass


class BaseErr(BaseException):
    """an exception that is not an Exception (like asyncio.CancelledError, GeneratorExit, KeyboardInterrupt)"""


def _canon_failure(f):
    from twisted.internet import defer
    if f.check(UserErr):
        return f"E{f.value.args[0]}"
    if f.check(defer.CancelledError):
        return "X"
    if f.check(defer.AlreadyCalledError):
        return "AC"
    return "?" + f.type.__name__


def _canon(r):
    from twisted.python.failure import Failure as F
    if isinstance(r, F):
        return _canon_failure(r)
    if r is None or isinstance(r, int):
        return str(r)
    return "?" + type(r).__name__


_QUIET = []


def _quiet_log():
    """DeferredList.cancel() logs the exception of a canceller that raises; keep that off stderr"""
    if not _QUIET:
        _QUIET.append(1)
        try:
            from twisted.logger import globalLogBeginner
            globalLogBeginner.beginLoggingTo([lambda e: None], redirectStandardIO=False, discardBuffer=True)
        except Exception:       # noqa: BLE001 - logging already started: leave it
            pass


def impl(case) -> str:
    from twisted.internet import defer
    from twisted.python.failure import Failure as F
    _quiet_log()

    log = []
    n = len(case["inputs"])
    kind = case["kind"]

    def mk_canceller(i, beh):
        def canceller(d):
            log.append(f"X{i}")
            if beh[0] == "succeed":
                d.callback(beh[1])
            elif beh[0] == "fail":
                d.errback(UserErr(beh[1]))
            elif beh[0] == "raise":
                raise BaseErr()
        return canceller

    def fire(d, o):
        if o[0] == "ok":
            d.callback(o[1])
        else:
            d.errback(UserErr(o[1]))

    ds, targets = [], []
    chained = case.get("chained") or [False] * n
    for i, (beh, pre) in enumerate(case["inputs"]):
        d = defer.Deferred(canceller=mk_canceller(i, beh))
        targets.append(d)
        if chained[i] and pre is None:
            ds.append(defer.succeed("start").addCallback(lambda _, d=d: d))     # called, waiting on d
        else:
            ds.append(d)
        if pre is not None:
            fire(d, pre)

    arg = list(ds)              # the caller's own list object, handed to the aggregate and mutated later
    armed = [False]
    if case.get("selfremove"):
        for d in ds:
            def rm(r, d=d):
                if armed[0] and d in arg:
                    arg.remove(d)
                return r
            d.addBoth(rm)
    if kind[0] == "list":
        agg = defer.DeferredList(arg, fireOnOneCallback=kind[1], fireOnOneErrback=kind[2], consumeErrors=kind[3])
    elif kind[0] == "gather":
        agg = defer.gatherResults(arg, consumeErrors=kind[1])
    else:
        agg = defer.race(arg)
    armed[0] = True

    def entry(x):
        if x is None:
            return "-"
        ok, r = x
        return f"({'T' if ok else 'F'},{_canon(r)})"

    def on_ok(r):
        if kind[0] == "race":
            log.append(f"A:W({r[0]},{_canon(r[1])})")
        elif kind[0] == "gather":
            log.append("A:V[" + ";".join(_canon(x) for x in r) + "]")
        elif isinstance(r, tuple):
            log.append(f"A:P({_canon(r[0])},{r[1]})")
        else:
            log.append("A:L[" + ";".join(entry(x) for x in list(r)) + "]")

    def on_err(f):
        if f.check(defer.FirstError):
            log.append(f"A:FE({_canon_failure(f.value.subFailure)},{f.value.index})")
        elif f.check(defer.FailureGroup):
            log.append("A:G[" + ";".join(_canon_failure(x) for x in f.value.failures) + "]")
        elif f.check(defer.CancelledError):
            log.append("A:CX")
        else:
            log.append("A:?" + f.type.__name__)

    agg.addCallbacks(on_ok, on_err)
    seen = ["-"] * n
    for i, d in enumerate(ds):
        def obs(r, i=i):
            seen[i] = _canon(r)
        d.addBoth(obs)
    for op in case["ops"]:
        if op[0] == "fire":
            i = op[1]
            if i < n and not targets[i].called:
                fire(targets[i], op[2])
        elif op[0] == "mut":
            if op[1] == "clear":
                arg.clear()
            elif op[1] == "reverse":
                arg.reverse()
            elif op[1] == "append":
                arg.append(defer.Deferred())
            elif arg:
                arg.pop(0)
        else:
            try:
                agg.cancel()
            except BaseErr:
                log.append("ESC")          # a canceller's exception escaped from aggregate.cancel()
    return " ".join(log) + " | " + " ".join(seen)


# ---------------------------------------------------------------------------------------------
# oracle: the property at the level of its statement — which inputs have fired with what, in which order the
# aggregate got to see them; no resultList / finishedCount / winner / failure_state bookkeeping.

def _raw(o):
    return ("ok", o[1]) if o[0] == "ok" else ("err", f"E{o[1]}")


def expected(case):
    kind = case["kind"]
    n = len(case["inputs"])
    behs = [b for b, _ in case["inputs"]]
    raw = [None] * n            # what input i fired with
    attached = [False] * n
    order = []                  # (i, raw outcome) in the order the aggregate saw them
    ev = []
    st = {"agg": None, "won": False}

    def decide():
        """the aggregate's result, by the property statement, from `order` (None = not yet)"""
        if kind[0] == "race":
            for i, o in order:
                if o[0] == "ok":
                    return f"W({i},{o[1]})"
            if len(order) == n:
                return "G[" + ";".join(o[1] for _, o in sorted(order)) + "]"
            return None
        f1, f2 = (kind[1], kind[2]) if kind[0] == "list" else (False, True)
        for i, o in order:
            if o[0] == "ok" and f1:
                return f"P({o[1]},{i})"
            if o[0] == "err" and f2:
                return f"FE({o[1]},{i})"
        if len(order) == n:
            by = dict(order)
            if kind[0] == "gather":
                return "V[" + ";".join(str(by[i][1]) for i in range(n)) + "]"
            return "L[" + ";".join(f"({'T' if by[i][0] == 'ok' else 'F'},{by[i][1]})" for i in range(n)) + "]"
        return None

    def maybe_fire():
        if st["agg"] is None and not st.get("cancelling"):
            r = decide()
            if r is not None:
                st["agg"] = r
                ev.append("A:" + r)

    def seen_by_aggregate(i):
        order.append((i, raw[i]))
        if kind[0] == "race" and raw[i][0] == "ok" and not st["won"]:
            st["won"] = True
            st["cancelling"] = True
            for j in range(n):          # race cancels every other input, then fires
                if j != i:
                    cancel(j)
            st["cancelling"] = False
        maybe_fire()

    def fire(i, o):
        raw[i] = o
        if attached[i]:
            seen_by_aggregate(i)

    def cancel(j):
        if raw[j] is None:
            ev.append(f"X{j}")
            b = behs[j]
            if b[0] == "raise":
                return          # the canceller blew up: the input stays unfired; the aggregate's cancel loop goes on
            fire(j, ("ok", b[1]) if b[0] == "succeed" else ("err", f"E{b[1]}") if b[0] == "fail" else ("err", "X"))

    for i, (_, pre) in enumerate(case["inputs"]):
        if pre is not None:
            raw[i] = _raw(pre)
    if n == 0 and kind[0] != "race" and not (kind[0] == "list" and kind[1]):
        st["agg"] = "V[]" if kind[0] == "gather" else "L[]"
        ev.append("A:" + st["agg"])
    for i in range(n):
        attached[i] = True
        if raw[i] is not None:
            seen_by_aggregate(i)
    for op in case["ops"]:
        if op[0] == "fire":
            if op[1] < n and raw[op[1]] is None:
                fire(op[1], _raw(op[2]))
        elif op[0] == "mut":
            pass                # the aggregate does not depend on later mutation of the argument
        elif st["agg"] is None:
            for j in range(n):
                cancel(j)
            if st["agg"] is None and kind[0] == "race":
                st["agg"] = "CX"
                ev.append("A:CX")
    ce = kind[3] if kind[0] == "list" else kind[1] if kind[0] == "gather" else None
    seen = []
    for i in range(n):
        if raw[i] is None:
            seen.append("-")
        elif kind[0] == "race":
            seen.append("None")
        elif raw[i][0] == "err" and ce:
            seen.append("None")
        else:
            seen.append(str(raw[i][1]))
    return ev, seen


def oracle(case, obs):
    head, _, tail = obs.partition(" | ")
    evs = head.split(" ") if head else []
    seen = tail.split(" ") if tail else []
    kind = case["kind"][0]
    if "ESC" in evs:
        return Failure(case, "an exception raised by an input's canceller escaped from aggregate.cancel(): " + obs,
                       f"{kind}-cancel-escaped")
    na = sum(1 for e in evs if e.startswith("A:"))
    if na > 1 or "TWICE" in evs or "AC" in seen:
        return Failure(case, f"the aggregate fired {na} times / AlreadyCalledError: {obs}", f"{kind}-fires-twice")
    want_ev, want_seen = expected(case)
    wa = [e for e in want_ev if e.startswith("A:")]
    ga = [e for e in evs if e.startswith("A:")]
    if wa != ga:
        what = "never fires" if not ga else "fires although it must not yet" if not wa else "wrong result"
        sub = (ga or wa)[0][2:3]
        return Failure(case, f"aggregate {what}: got {ga} expected {wa}", f"{kind}-result-{sub}-{'missing' if not ga else 'early' if not wa else 'wrong'}")
    if [e for e in evs if e[0] == "X"] != [e for e in want_ev if e[0] == "X"]:
        return Failure(case, f"cancel calls on inputs: got {evs} expected {want_ev}", f"{kind}-cancel-calls")
    if evs != want_ev:
        return Failure(case, f"order of cancel calls and aggregate firing: got {evs} expected {want_ev}", f"{kind}-event-order")
    if seen != want_seen:
        return Failure(case, f"results seen by later callbacks on the inputs: got {seen} expected {want_seen}",
                       f"{kind}-later-callbacks")
    return None


# ---------------------------------------------------------------------------------------------
KINDS = [["list", f1, f2, ce] for f1 in (False, True) for f2 in (False, True) for ce in (False, True)] + \
        [["gather", False], ["gather", True], ["race"]]


def _rand_canc(rng):
    r = rng.random()
    return ["nothing"] if r < 0.6 else ["succeed", rng.randrange(50, 60)] if r < 0.8 else ["fail", rng.randrange(7, 9)]


def _decorate(rng, case):
    """caller-side behaviour: mutation of the list object passed to the aggregate; cancellers that blow up"""
    n = len(case["inputs"])
    if rng.random() < 0.35:
        case["selfremove"] = True
    if rng.random() < 0.3:
        for _ in range(rng.choice([1, 1, 2])):
            case["ops"].insert(rng.randrange(len(case["ops"]) + 1), ["mut", rng.choice(["clear", "reverse", "append", "pop0"])])
    if case["kind"][0] != "race" and rng.random() < 0.15:
        i = rng.randrange(n)
        if case["inputs"][i][1] is None:
            case["inputs"][i] = [["raise"], None]
    return case


def _rand_out(rng, i):
    return ["ok", 10 + i] if rng.random() < 0.6 else ["err", i]


def gen(rng, tier):
    cases = []
    nmax = 3 if tier == "quick" else 4
    for kind in KINDS:
        for n in range(1, nmax + 1):
            for perm in itertools.permutations(range(n)):
                for outs in itertools.product((True, False), repeat=n):
                    for npre in range(n + 1):
                        if n == nmax and rng.random() > (0.35 if tier == "quick" else 0.5):
                            continue
                        pre = set(perm[:npre])
                        canc = [_rand_canc(rng) for _ in range(n)]
                        inputs = [[canc[i], (["ok", 10 + i] if outs[i] else ["err", i]) if i in pre else None]
                                  for i in range(n)]
                        ops = [["fire", i, ["ok", 10 + i] if outs[i] else ["err", i]] for i in perm[npre:]]
                        cut = rng.randrange(len(ops) + 2)
                        if cut <= len(ops) and rng.random() < 0.5:
                            ops = ops[:cut] + [["cancel"]] + ops[cut:]
                        cases.append(_decorate(rng, {"kind": kind, "inputs": inputs, "ops": ops,
                                                     "chained": [rng.random() < 0.3 for _ in range(n)]}))
    for _ in range(400 if tier == "quick" else 3000):
        kind = rng.choice(KINDS)
        n = rng.choice([1, 2, 3, 5, 8, 13, 25, 40])
        inputs = [[_rand_canc(rng), _rand_out(rng, i) if rng.random() < 0.25 else None] for i in range(n)]
        ops = []
        for _ in range(rng.randrange(0, n + 3)):
            if rng.random() < 0.12:
                ops.append(["cancel"])
            else:
                i = rng.randrange(n)
                ops.append(["fire", i, _rand_out(rng, i)])
        cases.append(_decorate(rng, {"kind": kind, "inputs": inputs, "ops": ops,
                                     "chained": [rng.random() < 0.3 for _ in range(n)]}))
    return cases


def corpus():
    return [
        # the caller's list object is mutated after the call: every input removes itself from it when it fires
        {"kind": ["race"], "inputs": [[["nothing"], None], [["nothing"], None], [["nothing"], None]], "selfremove": True,
         "ops": [["fire", 0, ["err", 0]], ["fire", 1, ["ok", 11]]]},
        {"kind": ["race"], "inputs": [[["nothing"], None], [["nothing"], None]], "selfremove": True,
         "ops": [["mut", "reverse"], ["fire", 1, ["ok", 11]]]},
        {"kind": ["list", False, False, False], "inputs": [[["nothing"], None], [["nothing"], None]],
         "ops": [["mut", "clear"], ["fire", 1, ["ok", 11]], ["mut", "append"], ["cancel"]]},
        # a canceller that raises a BaseException-only exception: the cancel loop must reach the later inputs
        {"kind": ["list", False, False, False], "inputs": [[["raise"], None], [["nothing"], None], [["fail", 7], None]],
         "ops": [["cancel"], ["fire", 0, ["ok", 10]]]},
        {"kind": ["gather", True], "inputs": [[["nothing"], None], [["raise"], None], [["succeed", 5], None]],
         "chained": [False, False, True], "ops": [["cancel"]]},
        # inputs that have already fired (.called) but are waiting on a chained inner Deferred when the aggregate is cancelled
        {"kind": ["list", False, False, False], "inputs": [[["nothing"], None], [["nothing"], ["ok", 11]], [["fail", 7], None]],
         "chained": [True, False, True], "ops": [["cancel"]]},
        {"kind": ["gather", False], "inputs": [[["succeed", 5], None], [["nothing"], None]], "chained": [True, False],
         "ops": [["fire", 1, ["ok", 11]], ["cancel"]]},
        {"kind": ["race"], "inputs": [[["nothing"], None], [["nothing"], None], [["succeed", 5], None]],
         "chained": [True, False, True], "ops": [["fire", 1, ["ok", 11]]]},
        {"kind": ["list", True, False, True], "inputs": [[["nothing"], None], [["nothing"], None]], "chained": [True, True],
         "ops": [["cancel"], ["fire", 0, ["ok", 10]]]},
        {"kind": ["race"], "inputs": [[["nothing"], None], [["succeed", 55], None], [["fail", 7], None], [["nothing"], ["err", 3]]],
         "ops": [["fire", 0, ["ok", 10]], ["cancel"]]},
        {"kind": ["race"], "inputs": [[["nothing"], None], [["nothing"], ["ok", 11]], [["succeed", 5], None]], "ops": []},
        {"kind": ["race"], "inputs": [[["fail", 7], None], [["nothing"], None], [["fail", 8], ["err", 2]]], "ops": [["cancel"]]},
        {"kind": ["list", True, True, True], "inputs": [[["nothing"], ["err", 0]], [["nothing"], ["ok", 11]]], "ops": []},
        {"kind": ["list", True, False, False], "inputs": [[["succeed", 5], None], [["nothing"], None], [["fail", 7], None]],
         "ops": [["fire", 2, ["err", 2]], ["cancel"], ["fire", 1, ["ok", 1]]]},
        {"kind": ["gather", True], "inputs": [[["nothing"], None], [["nothing"], ["ok", 11]], [["nothing"], None]],
         "ops": [["fire", 2, ["ok", 12]], ["cancel"]]},
        {"kind": ["list", False, False, True], "inputs": [[["nothing"], None]] * 3,
         "ops": [["fire", 2, ["err", 2]], ["fire", 0, ["ok", 10]], ["fire", 1, ["err", 1]]]},
    ]


def _out_coq(o):
    return f"(Ok (VInt ({o[1]})%Z))" if o[0] == "ok" else f"(Fail (EUser {o[1]}))"


def to_coq(case):
    if any(c[0] == "raise" for c, _ in case["inputs"]):
        return None             # cancellers that raise are outside the Coq model (the oracle still judges the case)
    k = case["kind"]
    b = lambda x: "true" if x else "false"
    kind = f"(KList {b(k[1])} {b(k[2])} {b(k[3])})" if k[0] == "list" else f"(KGather {b(k[1])})" if k[0] == "gather" else "KRace"
    def canc(c):
        return "CNothing" if c[0] == "nothing" else f"(CSucceed ({c[1]})%Z)" if c[0] == "succeed" else f"(CFail {c[1]})"
    ch = case.get("chained") or [False] * len(case["inputs"])
    inputs = coq_list([f"({canc(c)}, {coq_option(None if p is None else _out_coq(p), 'outcome')}, "
                       f"{'true' if ch[i] and p is None else 'false'})" for i, (c, p) in enumerate(case["inputs"])],
                      "input")
    ops = coq_list(["CancelAgg" if o[0] == "cancel" else "MutateArg" if o[0] == "mut" else f"Fire {o[1]} {_out_coq(o[2])}"
                    for o in case["ops"]], "op")
    return f"({kind}, {inputs}, {ops})"


def shrink(case):
    ops = case["ops"]
    for i in range(len(ops)):
        yield {**case, "ops": ops[:i] + ops[i + 1:]}
    n = len(case["inputs"])
    if n > 1:
        # drop the last input (and the ops that mention it)
        yield {**case, "inputs": case["inputs"][:-1], "chained": (case.get("chained") or [False] * n)[:-1],
               "ops": [o for o in ops if o[0] in ("cancel", "mut") or o[1] < n - 1]}
    if any(case.get("chained") or []):
        yield {**case, "chained": [False] * n}
    if case.get("selfremove"):
        yield {**case, "selfremove": False}
    for i, (c, p) in enumerate(case["inputs"]):
        if c[0] != "nothing":
            ins = list(case["inputs"])
            ins[i] = [["nothing"], p]
            yield {**case, "inputs": ins}


SPEC = Spec(
    pid="C04",
    gen=gen, impl=impl, oracle=oracle, corpus=corpus, shrink=shrink,
    coq_header="From C04 Require Import Model Run.",
    coq_fn="run_show",
    to_coq=to_coq,
    nontrivial=lambda c, o: "A:" in o,
    histogram=lambda c, o: c["kind"][0] + (" n=%s" % ("1-3" if len(c["inputs"]) <= 3 else "4-8" if len(c["inputs"]) <= 8 else ">8")),
    rule="for each of the 8 DeferredList flag combinations, gatherResults (consumeErrors on/off) and race: every firing "
         "permutation x success/failure assignment x number of pre-fired inputs (a prefix of the permutation) for 1..3 "
         "inputs (quick; 3 sampled 35%) / 1..4 (thorough; 4 sampled 50%), random canceller behaviour per input "
         "(does nothing / fires with a value / fires with a failure), 30% of the unfired inputs already .called but waiting on "
         "a chained inner Deferred, in 35% every input removes itself from the caller's list object when it fires and in 30% the "
         "caller mutates that list (clear / reverse / append / pop), 15% of the DeferredList/gatherResults cases have a "
         "canceller raising a BaseException-only exception (not modelled, judged by the oracle), the aggregate cancelled at a random point in half "
         "of them; plus random cases with up to 40 inputs; non-trivial = the aggregate fired; distinct by (case, observation)",
    trusted=["hand-written model coq/C04/Model.v (tied by this correspondence run only)",
             "callbacks added by the harness to the aggregate and (after construction) to the inputs only record"],
    assumptions=["Deferred firing/cancellation behaves as in C01/C03 (callbacks run synchronously in order; cancel() calls "
                 "the canceller and then fails an unfired Deferred with CancelledError; a fired Deferred ignores cancel)"],
)
