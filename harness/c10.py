"""C10 — task.LoopingCall cadence: H-tie (hand-written model coq/C10, correspondence on generated schedules).

case = {"k": scale exponent (times are n / 2**k seconds), "count": bool (LoopingCall.withCount),
        "beh": ["ret" | "raise" | "defer" | "stopret" | "stopdefer" | "resetret", ...]   # f's behaviour by invocation
        "ops": [["start", interval, nowflag] | ["adv", a] | ["fire", ok] | ["stop"] | ["reset"]]}
The loop runs on its own task.Clock; Deferreds returned by f are fired by ["fire", ok] (oldest first).
"""
from __future__ import annotations

import itertools

from harness.c09 import digest, exact
from harness.common import Failure, Spec, coq_bool, coq_list, stable_hash

BEH = {"ret": "FRet", "raise": "FRaise", "defer": "FDefer", "stopret": "FStopRet", "stopdefer": "FStopDefer",
       "resetret": "FResetRet", "restartret": "FRestartRet"}
_RESTART_WHILE_PENDING = {}      # case hash -> bool, filled by impl(), read by to_coq()


_QUIET = [False]


def _quiet_logging():
    """Failures left in garbage-collected Deferreds (only in the known-finding class) would be printed to stderr."""
    if not _QUIET[0]:
        from twisted.logger import globalLogBeginner
        globalLogBeginner.beginLoggingTo([lambda event: None], redirectStandardIO=False, discardBuffer=True)
        _QUIET[0] = True


def impl(case) -> str:
    from twisted.internet import defer, task

    _quiet_logging()

    K = 2 ** case["k"]
    beh = case["beh"]
    if case.get("reactor"):
        from twisted.internet.base import ReactorBase

        class Reactor(ReactorBase):          # reactor-like clock: what a call schedules waits for the next iteration
            _t = 0.0

            def installWaker(self):
                pass

            def seconds(self):
                return self._t

            def advance(self, amount):
                self._t += amount
                self.runUntilCurrent()

        clock = Reactor()
    else:
        clock = task.Clock()
    toks, outstanding, ncalls, gens = [], [], [0], [0]
    restart_pending = [False]

    def body():
        k = ncalls[0]
        ncalls[0] += 1
        toks.append(f"c{k}@{exact(clock.seconds(), K)}" + ("!" if outstanding else ""))
        b = beh[k] if k < len(beh) else "ret"
        if b == "raise":
            raise RuntimeError("f failed")
        if b in ("stopret", "stopdefer"):
            lc.stop()
        if b == "resetret":
            lc.reset()
        if b == "restartret":
            restart_pending[0] = True             # start() while this invocation is not over (known-finding class)
            lc.stop()
            g = gens[0]
            d = lc.start(lc.interval, now=False)
            gens[0] += 1
            d.addCallbacks(lambda r, g=g: done(g, True), lambda f, g=g: done(g, False))
        if b in ("defer", "stopdefer"):
            d = defer.Deferred()
            outstanding.append(d)
            return d
        return None

    def counted(n):
        toks.append(f"n{n}")
        return body()

    lc = task.LoopingCall.withCount(counted) if case["count"] else task.LoopingCall(body)
    lc.clock = clock

    on_done = case.get("on_done") or []

    def done(g, ok):
        """callback / errback on the Deferred returned by the g-th start(); may restart the loop synchronously"""
        toks.append(f"d{g}{'+' if ok else '-'}")
        r = on_done[g] if g < len(on_done) else None
        if r:
            do_start(r[0], r[1])

    def do_start(i, nowflag):
        try:
            if outstanding and not lc.running and i >= 0:
                restart_pending[0] = True
            g = gens[0]
            d = lc.start(i / K, now=nowflag)
            gens[0] += 1
            # the start() Deferred may already have fired (f raised during the immediate call)
            d.addCallbacks(lambda r, g=g: done(g, True), lambda f, g=g: done(g, False))
        except (AssertionError, ValueError):
            toks.append("XA")

    for o in case["ops"]:
        try:
            if o[0] == "start":
                do_start(o[1], o[2])
            elif o[0] == "adv":
                clock.advance(o[1] / K)
            elif o[0] == "fire":
                if not outstanding:
                    toks.append("NF")
                else:
                    d = outstanding.pop(0)
                    if o[1]:
                        d.callback(None)
                    else:
                        d.errback(RuntimeError("later failure"))
            elif o[0] == "stop":
                lc.stop()
            else:
                lc.reset()
        except (AssertionError, ValueError):
            toks.append("XA")
        toks.append("[r%d;%s]" % (int(bool(lc.running)), ",".join(exact(dc.getTime(), K)
                                                               for dc in sorted(clock.getDelayedCalls(), key=lambda dc: dc.getTime()))))
    _RESTART_WHILE_PENDING[stable_hash(case)] = restart_pending[0]
    return " ".join(toks)


# ----------------------------------------------------------------------------------------------
# the property: a specification-level simulation (boundaries start + j*interval, floor division) that predicts
# every observation in the class the property quantifies over


def oracle(case, obs):
    toks = obs.split(" ") if obs else []
    pos = [0]

    def fail(reason, tag):
        return Failure(case, f"token {pos[0]}: {reason}", tag)

    def take():
        if pos[0] >= len(toks):
            return None
        pos[0] += 1
        return toks[pos[0] - 1]

    def peek():
        return toks[pos[0]] if pos[0] < len(toks) else None

    beh = case["beh"]
    now = 0
    running = False
    start = interval = None
    run_at_start = False
    nxt = None                 # scheduled time of the next call (None = nothing scheduled)
    waiting = 0                # unfired Deferreds returned by f
    gen = 0                    # start() calls so far
    unfired_gen = None         # the start() Deferred that has to fire when the loop ends
    ncalls = 0
    epoch_clean = True         # no reset() since the last start(): the simple count law applies
    last_counted_time = None   # time of the last countCallable call
    count_sum = 0

    def boundary_after(t):
        if interval == 0:
            return t                   # interval 0: as soon as possible = the next iteration of the clock
        return start + ((t - start) // interval + 1) * interval

    on_done = case.get("on_done") or []

    def expect_done(ok):
        """the start() Deferred of the current run fires; its callback may restart the loop synchronously"""
        nonlocal unfired_gen
        g = unfired_gen
        want = f"d{g}{'+' if ok else '-'}"
        t = take()
        if t != want:
            return fail(f"start() Deferred: got {t}, want {want}", "start-deferred")
        unfired_gen = None
        r = on_done[g] if g is not None and g < len(on_done) else None
        if r:
            return do_start(r[0], r[1], "the callback of start()'s Deferred")
        return None

    def do_start(i, nowflag, who):
        nonlocal running, start, interval, run_at_start, unfired_gen, gen, last_counted_time, count_sum, epoch_clean, nxt
        if running or i < 0:
            if take() != "XA":
                return fail(f"start() by {who} on a running loop / with a negative interval must raise", "start-assert")
            return None
        if waiting:
            return "restart-class"
        running, start, interval, run_at_start = True, now, i, nowflag
        unfired_gen = gen
        gen += 1
        last_counted_time, count_sum, epoch_clean = None, 0, True     # counting starts afresh
        if nowflag:
            return call_f()
        nxt = boundary_after(now)
        return None

    def completed_ok():
        """the previous invocation completed normally at [now]: reschedule or finish"""
        nonlocal nxt
        if running:
            nxt = boundary_after(now)
            return None
        return expect_done(True)

    def completed_err():
        nonlocal running
        running = False
        return expect_done(False)

    def call_f():
        nonlocal ncalls, nxt, waiting, running, last_counted_time, count_sum, start, epoch_clean
        nxt = None
        if case["count"] and interval == 0:
            if take() != "n1":
                return fail("withCount with interval 0 always passes 1", "count")
        elif case["count"]:
            idx = (now - start) // interval
            # boundary index of the last counted call relative to the current starttime; after reset()/restart the
            # last counted call lies before starttime: whole intervals between it and starttime carry over
            if last_counted_time is None:
                base = -1 if run_at_start else 0
            elif last_counted_time >= start:
                base = (last_counted_time - start) // interval
            else:
                base = -((start - last_counted_time) // interval)
            want = idx - base
            if want <= 0:
                # nothing to count (possible only for the immediate call of a restart): countCallable is skipped
                if (peek() or "").startswith("n"):
                    return fail(f"withCount passed {peek()} although no boundary elapsed", "count")
                return completed_ok()
            t = take()
            if t != f"n{want}":
                return fail(f"withCount: got {t} at {now}, {want} boundaries elapsed since the last counted call", "count")
            count_sum += want
            if epoch_clean and count_sum != idx + (1 if run_at_start else 0):
                return fail("counts do not sum to the boundaries elapsed", "count-sum")
        if case["count"]:
            last_counted_time = now
        t = take()
        want = f"c{ncalls}@{now}"
        if t == want + "!":
            return fail(f"f called at {now} while a Deferred returned by an earlier call is unfired", "overlap")
        if t != want:
            return fail(f"expected call {want}, got {t}", "call-time")
        b = beh[ncalls] if ncalls < len(beh) else "ret"
        ncalls += 1
        if b == "raise":
            return completed_err()
        if b in ("stopret", "stopdefer"):
            running = False
        if b == "resetret":
            pass                                 # self.call is None inside f: reset() does nothing
        if b == "restartret":
            return "restart-inside"
        if b in ("defer", "stopdefer"):
            waiting += 1
            return None
        return completed_ok()

    restart_class = False
    inside_class = False
    for o in case["ops"]:
        f = None
        if o[0] == "start":
            f = do_start(o[1], o[2], "the test program")
        elif o[0] == "adv":
            now += o[1]
            if nxt is not None and nxt <= now:
                f = call_f()
        elif o[0] == "fire":
            if not waiting:
                if take() != "NF":
                    return fail("harness token", "log")
            else:
                waiting -= 1
                f = completed_ok() if o[1] else completed_err()
        elif o[0] == "stop":
            if not running:
                if take() != "XA":
                    return fail("stop() on a stopped loop must raise", "stop-assert")
            else:
                running = False
                if nxt is not None:
                    nxt = None
                    f = expect_done(True)
        else:
            if not running:
                if take() != "XA":
                    return fail("reset() on a stopped loop must raise", "reset-assert")
            elif nxt is not None:
                epoch_clean = False
                start = now
                nxt = now + interval
        if f == "restart-inside":
            inside_class = True
            break
        if f == "restart-class":
            restart_class = True
            break
        if f:
            return f
        t = take()
        want = "[r%d;%s]" % (int(running), "" if nxt is None else str(nxt))
        if t != want:
            return fail(f"after {o}: state {t}, expected {want} (running, time of the next call)", "next-call-time")
    if inside_class:
        # known-finding class: stop() + start() from inside f.  The recorded defect shows as two pending calls
        # of the same loop; anything else (e.g. a repaired start() that refuses, or cancels) is accepted silently.
        for t in toks:
            if t.startswith("[r") and "," in t:
                return Failure(case, "stop() then start(now=False) from inside f: the call scheduled by start() is "
                                     "overwritten, not cancelled, when f returns; two timer chains run side by side "
                                     "and the first start() Deferred never fires", "restart-inside-call")
        return None
    if restart_class:
        # known-finding class: start() while a Deferred of the previous run is unfired.  The recorded defect shows
        # as an overlapping call; anything else (e.g. a repaired start() that refuses) is accepted silently.
        if any(t.startswith("c") and t.endswith("!") for t in toks):
            return Failure(case, "start() on a stopped loop whose last invocation's Deferred is still unfired calls f "
                                 "again (overlap) and abandons the first start() Deferred",
                           "restart-while-deferred-pending")
        return None
    if pos[0] != len(toks):
        return fail(f"unexpected extra events {toks[pos[0]:pos[0] + 3]}", "extra-events")
    if not running and not waiting and unfired_gen is not None:
        return fail("the loop ended but the start() Deferred never fired", "start-deferred-missing")
    return None


# ----------------------------------------------------------------------------------------------
# generation


def restart_count_case(rng):
    """a withCount loop stopped and started again at / shortly after / long after its last tick"""
    k = rng.choice([0, 2])
    i = rng.choice([1, 3, 4, 10])
    ops = [["start", i, rng.random() < 0.7]]
    for _ in range(rng.randrange(0, 4)):
        ops.append(["adv", i * rng.randrange(1, 3) + rng.choice([0, 0, 1])])
    ops.append(["stop"])
    ops.append(["adv", rng.choice([0, 0, 1, i - 1, i, i + 1, 7 * i, 25 * i])])
    ops.append(["start", rng.choice([i, i, 2 * i, 1]), rng.random() < 0.7])
    for _ in range(rng.randrange(1, 5)):
        ops.append(rng.choice([["adv", i], ["adv", 1], ["adv", 3 * i + 1], ["reset"], ["stop"], ["start", i, True]]))
    return {"k": k, "count": True, "beh": [], "ops": ops, "reactor": rng.random() < 0.3}


def callback_restart_case(rng):
    """the callback (or errback) on start()'s Deferred restarts the loop synchronously; then stop()/reset()/advance on
    the restarted loop, in particular before its first scheduled tick"""
    k = rng.choice([0, 1])
    i = rng.choice([2, 3, 4, 10])
    nb = rng.randrange(0, 6)
    beh = [rng.choice(["ret"] * 5 + ["defer", "raise", "stopret", "stopdefer"]) for _ in range(nb)]
    on_done = [([rng.choice([i, i, 2 * i, 1]), rng.random() < 0.5] if rng.random() < 0.7 else None) for _ in range(rng.randrange(1, 4))]
    ops = [["start", i, rng.random() < 0.6]]
    for _ in range(rng.randrange(0, 3)):
        ops.append(rng.choice([["adv", i], ["adv", 1], ["adv", i - 1], ["fire", True]]))
    for _ in range(rng.randrange(1, 4)):
        ops.append(rng.choice([["stop"], ["stop"], ["fire", True], ["fire", False]]))      # ends the run: the callback restarts
        for _ in range(rng.randrange(0, 3)):                                                 # before / around the first tick
            ops.append(rng.choice([["stop"], ["reset"], ["adv", 1], ["adv", i - 1], ["adv", i], ["adv", 0], ["fire", True]]))
    ops += [["adv", i], ["stop"], ["adv", 2 * i]]
    return {"k": k, "count": rng.random() < 0.4, "beh": beh, "ops": ops, "on_done": on_done, "reactor": rng.random() < 0.25}


def rand_case(rng, restart=False):
    k = rng.choice([0, 1, 3, 10])
    reactor = rng.random() < 0.35
    interval = rng.choice([1, 2, 3, 5, 8, 7 * 2 ** 20, 1000] + ([0, 0, 0] if reactor else []))
    nb = rng.randrange(0, 10)
    weights = rng.choice([["ret"] * 6 + ["defer"] * 3 + ["raise"], ["ret", "defer"], ["ret"] * 8 + ["stopret", "stopdefer",
                         "resetret", "raise", "defer", "restartret"], ["defer"] * 3 + ["stopdefer", "ret"]])
    beh = [rng.choice(weights) for _ in range(nb)]
    ops = [["start", interval, rng.random() < 0.6]]
    for _ in range(rng.randrange(3, 30)):
        r = rng.random()
        if r < 0.55:
            kind = rng.random()
            if kind < 0.4:
                a = rng.randrange(0, interval + 1)                     # sub-interval step (0 for interval 0)
            elif kind < 0.7:
                a = interval * rng.randrange(1, 4) + rng.choice([0, 0, 1, interval // 2])
            elif kind < 0.85:
                a = interval * rng.randrange(5, 1000) + rng.randrange(0, interval + 1)   # jump of many intervals
            else:
                a = max(0, interval - 1) if rng.random() < 0.5 else interval + 1
            ops.append(["adv", a])
        elif r < 0.8:
            ops.append(["fire", rng.random() < 0.85])
        elif r < 0.88:
            ops.append(["stop"])
        elif r < 0.95:
            ops.append(["reset"])
        else:
            ops.append(["start", rng.choice([interval, 1, 3, -1] + ([0] if reactor else [])), rng.random() < 0.5])
    if restart:
        ops.append(["stop"])
        ops.append(["start", interval, rng.random() < 0.7])
        for _ in range(rng.randrange(1, 8)):
            ops.append(rng.choice([["adv", interval], ["fire", True], ["adv", 1], ["stop"]]))
    return {"k": k, "count": rng.random() < 0.5, "beh": beh, "ops": ops, "reactor": reactor}


ALPHABET = [["adv", 1], ["adv", 2], ["adv", 3], ["adv", 7], ["fire", True], ["fire", False], ["stop"], ["reset"],
            ["start", 3, True]]
ALPHABET0 = [["adv", 0], ["adv", 2], ["fire", True], ["fire", False], ["stop"], ["reset"], ["start", 0, True],
             ["start", 2, False]]
BEHS = [[], ["defer"], ["ret", "defer", "ret", "defer"], ["ret", "raise"], ["stopret"], ["defer", "stopdefer"],
        ["ret", "resetret"], ["ret", "restartret"]]


def gen(rng, tier):
    cases = []
    depth = 3 if tier == "quick" else 4
    for nowflag in (True, False):
        for count in (False, True):
            for beh in BEHS:
                for n in range(1, depth + 1):
                    for word in itertools.product(range(len(ALPHABET)), repeat=n):
                        if tier == "quick" and n == depth and rng.random() > 0.015:
                            continue
                        if tier == "quick" and n == depth - 1 and rng.random() > 0.25:
                            continue
                        if tier != "quick" and n == depth and rng.random() > 0.01:
                            continue
                        if tier != "quick" and n == depth - 1 and rng.random() > 0.5:
                            continue
                        ops = [["start", 3, nowflag]] + [ALPHABET[a] for a in word] + [["adv", 3]]
                        cases.append({"k": 1, "count": count, "beh": beh, "ops": ops, "reactor": count and nowflag})
    # interval 0 ("as fast as possible") on the reactor-like clock: one call per iteration
    for nowflag in (True, False):
        for count in (False, True):
            for beh in BEHS[:5]:
                for n in range(1, depth):
                    for word in itertools.product(range(len(ALPHABET0)), repeat=n):
                        if n == depth - 1 and rng.random() > (0.3 if tier == "quick" else 0.5):
                            continue
                        ops = [["start", 0, nowflag]] + [ALPHABET0[a] for a in word] + [["adv", 0], ["adv", 1]]
                        cases.append({"k": 0, "count": count, "beh": beh, "ops": ops, "reactor": True})
    for _ in range(200 if tier == "quick" else 4000):
        cases.append(rand_case(rng))
    for _ in range(40 if tier == "quick" else 500):
        cases.append(rand_case(rng, restart=True))
    for _ in range(80 if tier == "quick" else 1500):
        cases.append(restart_count_case(rng))
    for _ in range(250 if tier == "quick" else 5000):
        cases.append(callback_restart_case(rng))
    return cases


def corpus():
    return [
        # multi-interval jump then sub-interval steps; counts 1, 4, 1
        {"k": 0, "count": True, "beh": [], "ops": [["start", 4, True], ["adv", 17], ["adv", 2], ["adv", 1], ["adv", 4]]},
        # latency: Deferred fired after two boundaries have passed
        {"k": 2, "count": True, "beh": ["defer", "ret"], "ops": [["start", 4, True], ["adv", 9], ["fire", True], ["adv", 2],
                                                               ["adv", 1], ["stop"]]},
        # stop while the Deferred is unfired: start() Deferred fires when it completes; failure path
        {"k": 0, "count": False, "beh": ["defer", "raise"], "ops": [["start", 2, False], ["adv", 2], ["stop"], ["adv", 5],
                                                                 ["fire", False]]},
        # reset() with withCount: the whole intervals between the last counted call and the reset carry over
        {"k": 0, "count": True, "beh": [], "ops": [["start", 4, True], ["adv", 4], ["adv", 9], ["reset"], ["adv", 4], ["adv", 9],
                                                    ["reset"], ["adv", 3], ["adv", 1]]},
        # interval 0 on a reactor-like clock: one call per iteration, count always 1; then a restart with an interval
        {"k": 0, "count": True, "beh": ["ret", "defer"], "reactor": True,
         "ops": [["start", 0, True], ["adv", 0], ["adv", 5], ["fire", True], ["adv", 0], ["stop"], ["start", 2, True], ["adv", 3]]},
        # now=False: the first call is at start + interval, not before
        {"k": 1, "count": True, "beh": [], "ops": [["adv", 3], ["start", 5, False], ["adv", 4], ["adv", 1], ["adv", 5]]},
        # a withCount loop restarted with now=True at the instant of its last tick / after a long pause: the
        # immediate call must happen with count 1 (fix C10-start-resets-count)
        {"k": 0, "count": True, "beh": [], "ops": [["start", 4, True], ["adv", 4], ["adv", 4], ["stop"], ["start", 4, True],
                                                    ["adv", 4], ["stop"], ["adv", 100], ["start", 4, True], ["adv", 4]]},
        # the callback on start()'s Deferred restarts the loop; stop() / reset() on the restarted loop before its first tick
        {"k": 0, "count": False, "beh": [], "on_done": [[3, False], [3, True]],
         "ops": [["start", 3, True], ["adv", 1], ["stop"], ["adv", 1], ["stop"], ["adv", 1], ["reset"], ["adv", 3], ["stop"], ["adv", 9]]},
        # known finding: stop() + start(now=False) from inside f
        {"k": 0, "count": False, "beh": ["ret", "restartret"], "ops": [["start", 2, True], ["adv", 2], ["adv", 2], ["stop"],
                                                                    ["adv", 2]]},
        # known finding: restart while the previous invocation's Deferred is unfired
        {"k": 0, "count": False, "beh": ["defer", "defer"], "ops": [["start", 1, True], ["stop"], ["start", 1, True],
                                                                 ["fire", True], ["fire", True], ["adv", 1]]},
    ]


# ----------------------------------------------------------------------------------------------
# model side


def to_coq(case):
    if any(case.get("on_done") or []):
        # a callback on start()'s Deferred restarts the loop: checked by the oracle only (on HEAD it is equivalent to
        # a start() issued right after the operation that fired the Deferred, which the model covers)
        return None
    if _RESTART_WHILE_PENDING.get(stable_hash(case), False) and not case.get("model_anyway"):
        # outside the fragment whose observations the model predicts exactly (errors raised inside Deferred
        # callbacks are swallowed by the Deferred); the oracle still sees these cases
        return None
    ops = []
    for o in case["ops"]:
        if o[0] == "start":
            ops.append(f"Start ({o[1]}) {coq_bool(o[2])}")
        elif o[0] == "adv":
            ops.append(f"Advance ({o[1]})")
        elif o[0] == "fire":
            ops.append(f"Fire {coq_bool(o[1])}")
        elif o[0] == "stop":
            ops.append("Stop")
        else:
            ops.append("Reset")
    beh = coq_list([BEH[b] for b in case["beh"]], "fbeh")
    return f"({coq_bool(case['count'])}, {beh}, {coq_list(ops, 'op')})%Z"


def shrink(case):
    ops, beh = case["ops"], case["beh"]
    for i in range(1, len(ops)):
        yield {**case, "ops": ops[:i] + ops[i + 1:]}
    for i in range(len(beh)):
        if beh[i] != "ret":
            yield {**case, "beh": beh[:i] + ["ret"] + beh[i + 1:]}
    if case["k"] != 0:
        yield {**case, "k": 0}
    if case["count"]:
        yield {**case, "count": False}


def histogram(case, obs):
    ncalls = sum(1 for t in obs.split(" ") if t.startswith("c"))
    return f"count={'y' if case['count'] else 'n'} calls={'0' if ncalls == 0 else '1-3' if ncalls < 4 else '4+'} " \
           f"deferred={'y' if any('defer' in b for b in case['beh']) else 'n'}"


SPEC = Spec(
    pid="C10",
    gen=gen, impl=impl, oracle=oracle, corpus=corpus, shrink=shrink,
    coq_header="From C10 Require Import Model Run.\nLocal Open Scope Z_scope.",
    coq_fn="run_show",
    to_coq=to_coq,
    model_equal=lambda c, impl_obs, model_obs: digest(impl_obs) == model_obs,
    nontrivial=lambda c, o: sum(1 for t in o.split(" ") if t.startswith("c")) >= 2,
    histogram=histogram,
    rule="start(3, now in {T,F}) x withCount in {T,F} x 7 behaviour tables x every word of length <= 3 (quick, length 2 "
         "sampled 25%, length 3 sampled 1.5%) / <= 4 (thorough, length 3 50%, length 4 1%) over {advance 1/2/3/7, fire ok, fire err, stop, reset, start}; random "
         "schedules: intervals 1..7*2^20 at scales 2^0..2^-10, sub-interval steps, interval+-1, 1-3 interval jumps, "
         "5-1000 interval jumps, latencies (Deferreds fired later, possibly with failure), stop/reset from outside and "
         "from inside f, restarts; a stream that restarts while a Deferred is unfired and behaviour tables that stop+start from "
         "inside f (known-finding classes); withCount loops stopped and restarted at / just after / long after the last tick; callbacks / errbacks on start()'s Deferred that restart the loop synchronously (now=True/False), followed by stop()/reset()/advances before the restarted loop's first tick (oracle only); "
         "non-trivial = f called at least twice; distinct by (case, observation)",
    trusted=["hand-written model coq/C10/Model.v (tied by this correspondence run only)",
             "the loop is the only user of its clock (task.Clock, or a ReactorBase subclass with a controlled seconds() "
             "for 35% of the random cases and for every interval-0 case: interval 0 never terminates on task.Clock)",
             "cases that call start() while a Deferred returned by f is unfired, or from inside f, are checked by the oracle only "
             "(exceptions raised inside Deferred callbacks are swallowed and are not modelled)"],
    assumptions=["float arithmetic (+, -, %, /, int(), comparisons) is exact, resp. correctly truncated, on the "
                 "generated times: integers n with |n| < 2^40 scaled by 2^-k, k <= 10",
                 "Deferred semantics as in C01/C03 (maybeDeferred, callback/errback chains)"],
)
