"""C45 — Jelly enforces its security policy (H-tie: hand-written model coq/C45).

Every case = (policy, s-expression) run through the real ``jelly.unjelly`` against a synthetic package tree
(written to a temp dir, purged from ``sys.modules`` before every case) whose classes log their creation:
observed are the result shape, the modules newly imported (ground truth: ``sys.modules``) and the classes
instantiated.  The model (``unjelly`` in Model.v over the same world description) must print the same.
The oracle states the property directly on the observation, without the model.
"""
from __future__ import annotations

import json
import os
import sys
import tempfile
import warnings

from harness.common import Failure, Spec, coq_list

# ------------------------------------------------------------------------------------------------
# the synthetic world (one description, used to write the files AND to build the Coq world term)

SEG = ["", "ljpkg", "mod", "sub", "deep", "inner", "ljforeign", "Allowed", "Other", "func", "CONST", "Gadget",
       "danger", "Inner", "f", "meth", "nosuch", "SubThing", "Reg", "bool", "eval", "nopkg", "x",
       "own", "Derived", "FromForeign", "__setstate__", "__base__", "__mro__", "__class__", "__subclasses__", "__bases__",
       "mro", "__name__", "__init__", "__new__"]
SEGID = {s: i for i, s in enumerate(SEG)}

FILES = {
    "ljlog.py": "LOG = []\n"
                "class Base:\n"
                "    def __new__(cls, *a, **k):\n"
                "        LOG.append(cls.__module__ + '.' + cls.__qualname__)\n"
                "        return object.__new__(cls)\n"
                "    def __setstate__(self, st):\n"
                "        self.__dict__['st'] = st\n",
    "ljforeign.py": "from ljlog import Base\n"
                    "class Gadget(Base):\n"
                    "    def meth(self): return 1\n"
                    "def danger(): return 'danger'\n",
    "ljproto.py": "from ljlog import Base\nclass Proto(Base):\n    pass\n",
    "ljfac.py": "from ljlog import Base\nfrom ljproto import Proto\n"
                "class Factory(Base):\n    protocol = Proto\n    def build(self): return 1\n",
    "ljpkg/__init__.py": "",
    # round-trip classes: default state handling; Jellyable records whose state is built afresh by getStateFor
    "ljplain.py": "from twisted.spread import jelly\n"
                  "class P1:\n    pass\nclass P2:\n    pass\n"
                  "class P3:\n"                                  # __new__ pre-populates an attribute
                  "    def __new__(cls, *a, **k):\n"
                  "        o = object.__new__(cls)\n"
                  "        o.default = 0\n"
                  "        return o\n"
                  "class Rec(jelly.Jellyable):\n"
                  "    def __init__(self, name, tags):\n"
                  "        self.name, self.tags, self.secret = name, tags, 'not sent'\n"
                  "    def getStateFor(self, jellier):\n"
                  "        return {'name': self.name, 'tags': list(self.tags)}\n"
                  "class RecCopy(jelly.Unjellyable):\n    pass\n"
                  "class LRec(jelly.Jellyable):\n"
                  "    def __init__(self, name, tags):\n"
                  "        self.name, self.tags = name, tags\n"
                  "    def getStateFor(self, jellier):\n"
                  "        return [self.name, list(self.tags)]\n"
                  "class LRecCopy(jelly.Unjellyable):\n"
                  "    def setStateFor(self, unjellier, state):\n"
                  "        self.state = state\n"
                  "jelly.setUnjellyableForClass(Rec, RecCopy)\n"
                  "jelly.setUnjellyableForClass(LRec, LRecCopy)\n",
    "ljpkg/mod.py": "import ljforeign\n"
                    "from ljforeign import Gadget\n"
                    "from ljlog import Base\n"
                    "class Allowed(Base):\n"
                    "    def meth(self): return 1\n"
                    "class Other(Base):\n"
                    "    def meth(self): return 2\n"
                    "class Derived(Allowed):\n"            # inherits meth from a class of an allowed module
                    "    def own(self): return 3\n"
                    "class FromForeign(Gadget):\n"         # inherits meth from a class of a foreign module
                    "    def own(self): return 4\n"
                    "def func(): return 1\n"
                    "CONST = 5\n",
    "ljpkg/sub.py": "from ljlog import Base\n"
                    "class SubThing(Base):\n    pass\n"
                    "def f(): return 3\n",
    "ljpkg/deep/__init__.py": "x = 7\n",
    "ljpkg/deep/inner.py": "from ljlog import Base\n"
                           "class Inner(Base):\n    pass\n"
                           "def f(): return 4\n",
}
MODULES = ["ljpkg", "ljpkg.mod", "ljpkg.sub", "ljpkg.deep", "ljpkg.deep.inner", "ljforeign"]
# attribute table: (owner canonical name, attr) -> (kind, canonical name)
ATTRS = {
    ("ljforeign", "Gadget"): ("C", "ljforeign.Gadget"), ("ljforeign", "danger"): ("F", "ljforeign.danger"),
    ("ljforeign.Gadget", "meth"): ("F", "ljforeign.Gadget.meth"),
    ("ljpkg.mod", "ljforeign"): ("M", "ljforeign"), ("ljpkg.mod", "Gadget"): ("C", "ljforeign.Gadget"),
    ("ljpkg.mod", "Allowed"): ("C", "ljpkg.mod.Allowed"), ("ljpkg.mod", "Other"): ("C", "ljpkg.mod.Other"),
    ("ljpkg.mod", "func"): ("F", "ljpkg.mod.func"), ("ljpkg.mod", "CONST"): ("D", ""),
    ("ljpkg.mod", "Derived"): ("C", "ljpkg.mod.Derived"), ("ljpkg.mod", "FromForeign"): ("C", "ljpkg.mod.FromForeign"),
    ("ljpkg.mod.Derived", "own"): ("F", "ljpkg.mod.Derived.own"),
    ("ljpkg.mod.FromForeign", "own"): ("F", "ljpkg.mod.FromForeign.own"),
    ("ljpkg.mod.Allowed", "meth"): ("F", "ljpkg.mod.Allowed.meth"),
    ("ljpkg.mod.Other", "meth"): ("F", "ljpkg.mod.Other.meth"),
    ("ljpkg.sub", "SubThing"): ("C", "ljpkg.sub.SubThing"), ("ljpkg.sub", "f"): ("F", "ljpkg.sub.f"),
    ("ljpkg.deep", "x"): ("D", ""),
    ("ljpkg.deep.inner", "Inner"): ("C", "ljpkg.deep.inner.Inner"), ("ljpkg.deep.inner", "f"): ("F", "ljpkg.deep.inner.f"),
}
CLASSES = ["ljpkg.mod.Allowed", "ljpkg.mod.Other", "ljforeign.Gadget", "ljpkg.sub.SubThing", "ljpkg.deep.inner.Inner",
           "ljpkg.mod.Derived", "ljpkg.mod.FromForeign"]
METHOD_NAMES = ["meth", "own", "nosuch",                              # own / inherited (allowed or foreign base) / missing
                "__setstate__", "__new__", "__init__",               # inherited from ljlog.Base / object
                "__base__", "__bases__", "__mro__", "__class__", "__subclasses__", "mro", "__name__"]   # type attributes
TYPES = ["list", "tuple", "dictionary", "set", "None", "module", "class", "function", "instance", "method",
         "persistent", "unpersistable", "bool", "eval"]
DANGEROUS = ["os.system", "subprocess.Popen", "builtins.eval", "builtins.exec", "os.popen", "shutil.rmtree",
             "posix.system", "importlib.import_module", "pickle.loads", "ctypes.CDLL", "code.InteractiveConsole"]

_ROOT = None


def _world_dir():
    global _ROOT
    if _ROOT is None:
        _ROOT = tempfile.mkdtemp(prefix="verif_c45_")
        for rel, text in FILES.items():
            p = os.path.join(_ROOT, rel)
            os.makedirs(os.path.dirname(p), exist_ok=True)
            with open(p, "w") as f:
                f.write(text)
        sys.path.insert(0, _ROOT)
        sys.dont_write_bytecode = True
        import atexit
        import shutil
        atexit.register(shutil.rmtree, _ROOT, True)
    return _ROOT


def _purge():
    for m in list(sys.modules):
        if m in ("ljforeign", "ljpkg", "ljfac", "ljproto") or m.startswith("ljpkg."):
            del sys.modules[m]


def cn(name: str) -> str:
    """dotted text -> Coq name"""
    if name == "":
        return "(@nil N)"
    return "[" + ";".join(str(SEGID[s]) for s in name.split(".")) + "]%N"


def num(name: str) -> str:
    if not name:
        return ""
    if not all(x in SEGID for x in name.split(".")):
        return "?" + name
    return ".".join(str(SEGID[s]) for s in name.split("."))


# ------------------------------------------------------------------------------------------------
# s-expressions: JSON form  {"a": "dotted"} bytes atom | {"i": 1} int atom | [] | ["tag", child, ...]

def to_py(s):
    if isinstance(s, dict):
        if "a" in s:
            return s["a"].encode()
        if "s" in s:
            return s["s"]            # a str atom (method names are str in in-memory s-expressions)
        return s["i"]
    if not s:
        return []
    tag, args = s[0], [to_py(x) for x in s[1:]]
    if tag == "dictionary":
        args = [[args[i], args[i + 1]] for i in range(0, len(args) - 1, 2)]
    return [tag.encode()] + args


def policy_of(pol):
    from twisted.spread import jelly
    import importlib
    p = jelly.SecurityOptions()
    p.allowTypes(*pol["types"])
    p.allowModules(*pol["modules"])
    for c in pol["classes"]:
        mod, _, cls = c.rpartition(".")
        p.allowedClasses[getattr(importlib.import_module(mod), cls)] = 1
    return p


def shape(o, depth=0):
    """canonical shape of a result object (same alphabet as Run.show_value)"""
    import types
    from twisted.spread import jelly
    if depth > 60:
        return "?deep"
    if o is None:
        return "N"
    if isinstance(o, (bytes, int, float, str)):
        return "a"
    if isinstance(o, (list, tuple)):
        return "[" + ",".join(shape(x, depth + 1) for x in o) + "]"
    if isinstance(o, (set, frozenset)):
        return "[" + ",".join(sorted(shape(x, depth + 1) for x in o)) + "]"
    if isinstance(o, dict):
        return "[" + ",".join(shape(k, depth + 1) + "," + shape(v, depth + 1) for k, v in o.items()) + "]"
    if isinstance(o, types.ModuleType):
        return "M<" + num(o.__name__) + ">"
    if isinstance(o, type):
        return "C<" + num(o.__module__ + "." + o.__qualname__) + ">"
    if isinstance(o, types.MethodType):
        o = o.__func__
    if isinstance(o, types.FunctionType):
        q = o.__module__ + "." + o.__qualname__
        if "." in o.__qualname__:          # a method (bound, or fetched from the class when im_self is None)
            owner = q.rsplit(".", 1)[0]
            if owner not in CLASSES:
                return "mx<" + owner + ">"      # a function that lives in a class outside the synthetic classes
            return "m<" + num(owner) + ">"
        return "F<" + num(q) + ">"
    if isinstance(o, jelly.Unpersistable):
        return "U"
    name = type(o).__module__ + "." + type(o).__qualname__
    if name in CLASSES:
        return "I<" + num(name) + ">{" + (shape(o.__dict__["st"], depth + 1) if "st" in o.__dict__ else "#") + "}"
    return "?" + name


def _grant_everything():
    """a second, maximally permissive policy living in the same process as the policy under test"""
    from twisted.spread import jelly
    import importlib
    d = jelly.SecurityOptions()
    d.allowTypes(*TYPES)
    d.allowModules(*MODULES)
    d.allowInstancesOf(*[getattr(importlib.import_module(c.rpartition(".")[0]), c.rpartition(".")[2])
                         for c in CLASSES])
    return d


def run_real(case):
    """-> dict(result=shape|exception class, value=object, imports=[...], insts=[...])

    Several SecurityOptions objects exist per case: a decoy that is granted everything BEFORE the policy under
    test is built, the policy under test, and a decoy granted everything AFTER it; the s-expression is unjellied
    under the policy under test only, so grants that leak between policy objects show up as policy violations.
    cold mode: the synthetic modules are purged (fresh-import semantics; allowed classes matched by name);
    warm mode: all of them are imported first, class grants go through the real allowedClasses mapping."""
    _world_dir()
    _purge()
    import ljlog
    import importlib
    from twisted.spread import jelly
    warm = bool(case.get("warm"))
    decoy1 = _grant_everything()
    if warm:
        pol = jelly.SecurityOptions()
        pol.allowTypes(*case["policy"]["types"])
        pol.allowModules(*case["policy"]["modules"])
        for c in case["policy"]["classes"]:
            pol.allowedClasses[getattr(importlib.import_module(c.rpartition(".")[0]), c.rpartition(".")[2])] = 1
        decoy2 = _grant_everything()
        for m in MODULES:
            importlib.import_module(m)
    else:
        pol = policy_of(case["policy"])       # imports the modules of allowed classes: purged again below
        decoy2 = _grant_everything()
        _purge()
        # class objects are re-created when the synthetic modules are re-imported: match allowed classes by name
        pol.allowedClasses = _LazyClasses(case["policy"]["classes"])
    keep = (decoy1, decoy2)
    del ljlog.LOG[:]
    sexp = to_py(case["sexp"])
    out = {}
    requested = []          # modules present after each import requested BY jelly.py / reflect.py, in order
    import builtins
    orig = builtins.__import__

    def hook(name, globals=None, locals=None, fromlist=(), level=0):
        caller = sys._getframe(1).f_code.co_filename
        try:
            return orig(name, globals, locals, fromlist, level)
        finally:
            if caller.endswith(("twisted/python/reflect.py", "twisted/spread/jelly.py")) and isinstance(name, str):
                parts = name.split(".")
                for i in range(1, len(parts) + 1):
                    p = ".".join(parts[:i])
                    if p in sys.modules and p not in requested:
                        requested.append(p)

    builtins.__import__ = hook
    try:
        with warnings.catch_warnings():
            warnings.simplefilter("ignore")
            try:
                v = jelly.unjelly(sexp, pol)
                out["value"] = v
                out["result"] = "OK"
            except jelly.InsecureJelly:
                out["result"] = "X:insecure"
            except Exception:
                out["result"] = "X:error"
    finally:
        builtins.__import__ = orig
    out["imports"] = requested
    out["insts"] = list(ljlog.LOG)
    return out


class _LazyClasses:
    """allowedClasses replacement: membership by the class's qualified name (class objects are re-created when
    the synthetic modules are purged and re-imported, so identity across cases is meaningless)"""

    def __init__(self, names):
        self.names = set(names)

    def __contains__(self, klass):
        return isinstance(klass, type) and (klass.__module__ + "." + klass.__qualname__) in self.names

    def __setitem__(self, k, v):
        self.names.add(k.__module__ + "." + k.__qualname__)

    def __iter__(self):
        return iter(())


def impl_records(case) -> str:
    """one jelly() call over Jellyable records with on-the-fly state; every copy must carry ITS OWN state and the
    sharing structure must be exactly that of the input (none introduced, none lost)"""
    _world_dir()
    import importlib
    from twisted.spread import jelly
    ljplain = importlib.import_module("ljplain")
    objs = [getattr(ljplain, r[0])(r[1], list(r[2])) for r in case["records"]]
    lst = [objs[i] for i in case["order"]]
    p = jelly.SecurityOptions()
    p.allowBasicTypes()
    other = jelly.SecurityOptions()
    other.allowTypes("function", "module")
    try:
        sexp = jelly.jelly(lst)
        back = jelly.unjelly(sexp, p)
    except Exception as e:
        return "raised:" + type(e).__name__
    order = case["order"]
    if not isinstance(back, list) or len(back) != len(order):
        return "diff:length"
    ndup = len(order) - len(set(order))
    if repr(sexp).count("dereference") != ndup:
        return "diff:sharing-in-wire (%d dereferences for %d repeated records)" % (repr(sexp).count("dereference"), ndup)
    for i, o in enumerate(back):
        kind, name, tags = case["records"][order[i]]
        want = {"name": name, "tags": list(tags)} if kind == "Rec" else [name, list(tags)]
        got = o.__dict__ if kind == "Rec" else getattr(o, "state", None)
        if type(o).__name__ != kind + "Copy" or got != want:
            return "diff:state of record %d is %r, expected %r" % (i, got, want)
    for i in range(len(back)):
        for j in range(i + 1, len(back)):
            if (back[i] is back[j]) != (order[i] == order[j]):
                return "diff:sharing of records %d and %d" % (i, j)
    tagsof = lambda o: o.__dict__["tags"] if "tags" in o.__dict__ else o.state[1]
    seen = {}
    for i, o in enumerate(back):
        t = tagsof(o)
        if id(t) in seen and seen[id(t)] != order[i]:
            return "diff:state container shared between records %d and %d" % (seen[id(t)], order[i])
        seen[id(t)] = order[i]
    return "same"


def impl(case) -> str:
    if case.get("kind") == "records":
        return impl_records(case)
    if case.get("kind") == "roundtrip":
        return impl_roundtrip(case)
    r = run_real(case)
    s = r["result"]
    if s == "OK":
        s = "OK:" + shape(r["value"])
    return s + "|" + ",".join(num(m) if all(x in SEGID for x in m.split(".")) else m for m in r["imports"]) + "|" + \
        ",".join(num(c) for c in r["insts"])


# ------------------------------------------------------------------------------------------------
# the property oracle (no model): imports / instantiations / result all covered by the policy

def oracle(case, obs):
    if case.get("kind") == "records":
        if obs == "same":
            return None
        return Failure(case, "jelly/unjelly of Jellyable records with on-the-fly state: " + obs,
                       "records-roundtrip:" + obs.split(" ")[0])
    if case.get("kind") == "roundtrip":
        obs = obs.split("|")[0]
        if obs == "same":
            return None
        if tuple_on_cycle(case["graph"]) and (obs.startswith("placeholder:") or obs == "raised:AssertionError"):
            # the known limitation, and nothing else: a finished-looking crefutil placeholder is left where the
            # tuple should be (all its items are right), or unjelly trips over its own stale placeholder
            kind = "raised" if obs.startswith("raised:") else "placeholder"
            return Failure(case, "cyclic graph through a tuple not preserved: " + obs, "roundtrip-tuple-on-cycle:" + kind)
        return Failure(case, "jelly/unjelly changed the object graph: " + obs,
                       "roundtrip:" + obs.split(":")[0] + ("-tuple-on-cycle" if tuple_on_cycle(case["graph"]) else ""))
    pol = case["policy"]
    res, imps, insts = obs.split("|")
    unnum = lambda s: ".".join(SEG[int(x)] for x in s.split(".")) if s and s[0].isdigit() else s
    allowed = pol["modules"]
    for m in [unnum(x) for x in imps.split(",") if x]:
        if not any(a == m or a.startswith(m + ".") for a in allowed):
            fn = _function_names(case["sexp"])
            if m in fn:
                return Failure(case, f"module {m} imported although the policy lists only {allowed}: the function "
                                     f"tag's name is itself a module and namedAny imports it",
                               "function-tag-imports-unlisted-submodule")
            return Failure(case, f"module {m} imported although the policy lists only {allowed}", "import:" + m)
    for c in [unnum(x) for x in insts.split(",") if x]:
        if c not in pol["classes"]:
            return Failure(case, f"class {c} instantiated although only {pol['classes']} are allowed",
                           "instantiated:" + c)
    if res.startswith("OK:"):
        import re
        m = re.search(r"C<\?([^>]*)>", res)
        if m and not insts:
            # known finding: the method tag with im_self None hands back whatever the class __dict__ holds
            return Failure(case, f"result contains class {m.group(1)}, which the policy does not allow: the method tag "
                                 f"returns a class-valued attribute of an allowed class", "method-tag-returns-class-attribute")
        for kind, nm in re.findall(r"([MCFIm])<([0-9.]*)>", res):
            name = unnum(nm)
            if kind in "CIm" and name not in pol["classes"]:
                return Failure(case, f"result contains class/instance/method of {name}, not an allowed class",
                               "result-class:" + name)
            if kind == "M" and name not in allowed:
                return Failure(case, f"result contains module {name}, not an allowed module", "result-module:" + name)
            if kind == "F" and name.rpartition(".")[0] not in allowed:
                return Failure(case, f"result contains function {name} of a module that is not allowed",
                               "result-function:" + name)
        m = re.search(r"mx<([^>]*)>", res)
        if m:
            return Failure(case, f"result contains a method whose function is defined in {m.group(1)}, a class that "
                                 f"never passed isClassAllowed", "result-method-from:" + m.group(1))
        if "?" in res:
            return Failure(case, "result contains an object of an unexpected type: " + res, "result-unknown")
    return None


def _function_names(s):
    out = []
    if isinstance(s, list) and s:
        if s[0] == "function" and len(s) > 1 and isinstance(s[1], dict) and "a" in s[1]:
            out.append(s[1]["a"])
        for x in s[1:]:
            out += _function_names(x)
    return out


# ------------------------------------------------------------------------------------------------
# round trip of allowed graphs (second sentence of the property; oracle only)

def build_graph(spec):
    """spec: list of node descriptions; node i = ["list", refs...] | ["dict", k, ref, ...] | ["tuple", refs] |
    ["inst", class, attr, ref, ...] | ["int", n] | ["str", s] | ["none"]; result = node 0"""
    import importlib
    nodes = [None] * len(spec)
    for i, d in enumerate(spec):
        if d[0] == "list":
            nodes[i] = []
        elif d[0] == "dict":
            nodes[i] = {}
        elif d[0] == "inst":
            mod, _, cls = d[1].rpartition(".")
            c = getattr(importlib.import_module(mod), cls)
            nodes[i] = c.__new__(c)
        elif d[0] == "int":
            nodes[i] = d[1]
        elif d[0] == "str":
            nodes[i] = d[1]
        elif d[0] == "none":
            nodes[i] = None
    # tuples last (immutable): children must exist and be earlier non-tuple or already-built tuples
    for i, d in enumerate(spec):
        if d[0] == "tuple":
            nodes[i] = tuple(nodes[j] for j in d[1:])
    # sets / frozensets: members are atoms, instances, tuples (hashable); a set may contain its own owner
    for i, d in enumerate(spec):
        if d[0] == "fset":
            nodes[i] = frozenset(nodes[j] for j in d[1:])
        elif d[0] == "set":
            nodes[i] = set(nodes[j] for j in d[1:])
    for i, d in enumerate(spec):
        if d[0] == "list":
            nodes[i].extend(nodes[j] for j in d[1:])
        elif d[0] == "dict":
            for k in range(1, len(d) - 1, 2):
                nodes[i][d[k]] = nodes[d[k + 1]]
        elif d[0] == "inst":
            for k in range(2, len(d) - 1, 2):
                nodes[i].__dict__[d[k]] = nodes[d[k + 1]]
    return nodes[0]


def same_graph(a, b):
    """isomorphism incl. sharing and cycles for list/dict/tuple/set/instances; atoms by value.
    Verdicts: same | placeholder:<path> (the ONLY difference is a crefutil._Tuple/_Container object sitting where the
    finished tuple/set should be, with the right items inside) | <kind>:<path> for any other difference."""
    from twisted.persisted import crefutil
    fwd, bwd = {}, {}
    stack = [(a, b, "root")]
    placeholder = None

    def atom(v):
        return isinstance(v, (int, str, bytes, float)) or v is None
    while stack:
        x, y, path = stack.pop()
        if atom(x):
            if type(x) is not type(y) or x != y:
                return "atom:" + path + f" {x!r} became {y!r}"[:80]
            continue
        if isinstance(y, crefutil._Container) and isinstance(x, (tuple, set, frozenset)):
            # a placeholder left in the result: remember it, and keep comparing what it holds
            if placeholder is None:
                placeholder = path
            if isinstance(x, tuple):
                if len(x) != len(y.l):
                    return "length:" + path
                stack += [(p, q, f"{path}<{i}>") for i, (p, q) in enumerate(zip(x, y.l))]
            else:
                r = _same_members(x, y.l, path)
                if isinstance(r, str):
                    return r
                stack += r
            continue
        if type(x).__qualname__ != type(y).__qualname__:
            return "type:" + path + f" {type(x).__name__} vs {type(y).__name__}"
        if id(x) in fwd or id(y) in bwd:
            if fwd.get(id(x)) != id(y) or bwd.get(id(y)) != id(x):
                return "sharing:" + path
            continue
        if not isinstance(x, (tuple, frozenset)):
            fwd[id(x)] = id(y)
            bwd[id(y)] = id(x)
        if isinstance(x, (list, tuple)):
            if len(x) != len(y):
                return "length:" + path
            stack += [(p, q, f"{path}[{i}]") for i, (p, q) in enumerate(zip(x, y))]
        elif isinstance(x, (set, frozenset)):
            r = _same_members(x, y, path)
            if isinstance(r, str):
                return r
            stack += r
        elif isinstance(x, dict):
            if list(x.keys()) != list(y.keys()) and set(x) != set(y):
                return "keys:" + path
            stack += [(x[k], y[k], f"{path}[{k!r}]") for k in x]
        else:
            if set(x.__dict__) != set(y.__dict__):
                return "attrs:" + path
            stack += [(x.__dict__[k], y.__dict__[k], f"{path}.{k}") for k in x.__dict__]
    return "same" if placeholder is None else "placeholder:" + placeholder


def _same_members(x, ys, path):
    """members of a set: atoms must coincide; the other members are paired by type name (generated sets hold at most
    one member of each non-atom type)"""
    isatom = lambda v: isinstance(v, (int, str, bytes, float)) or v is None
    ys = list(ys)
    xa, ya = sorted(repr(v) for v in x if isatom(v)), sorted(repr(v) for v in ys if isatom(v))
    if xa != ya or len(x) != len(ys):
        return "members:" + path + f" {xa} became {ya} ({len(x)} vs {len(ys)} members)"[:100]
    xo = sorted((v for v in x if not isatom(v)), key=lambda v: type(v).__name__)
    yo = sorted((v for v in ys if not isatom(v)), key=lambda v: type(v).__name__)
    return [(p, q, f"{path}{{{type(p).__name__}}}") for p, q in zip(xo, yo)]


def _edges(d):
    if d[0] in ("list", "tuple", "set", "fset"):
        return [x for x in d[1:] if isinstance(x, int)]
    if d[0] == "dict":
        return [d[k + 1] for k in range(1, len(d) - 1, 2)]
    if d[0] == "inst":
        return [d[k + 1] for k in range(2, len(d) - 1, 2)]
    return []


def tuple_on_cycle(spec) -> bool:
    adj = {i: _edges(d) for i, d in enumerate(spec)}
    for i, d in enumerate(spec):
        if d[0] not in ("tuple", "set", "fset"):
            continue
        seen, st = set(), list(adj[i])
        while st:
            x = st.pop()
            if x not in seen:
                seen.add(x)
                st += adj[x]
        if i in seen:
            return True
    return False


def _atoms(spec):
    """atom value -> code (1..): ints, strs and dict / attribute keys of the graph description"""
    tab = {}
    for d in spec:
        vals = []
        if d[0] in ("int", "str"):
            vals.append(d[1])
        elif d[0] == "dict":
            vals += [d[k] for k in range(1, len(d) - 1, 2)]
        elif d[0] == "inst":
            vals += [d[k] for k in range(2, len(d) - 1, 2)]
        for v in vals:
            tab.setdefault((type(v).__name__, v), len(tab) + 1)
    return tab


def _acode(tab, v):
    return tab[(type(v).__name__, v)]


CLS_CODE = {"ljplain.P1": 1, "ljplain.P2": 2, "ljplain.P3": 3}


def show_real_sexp(x, tab):
    """the real jelly output in the syntax of GraphRun.show_fsexp"""
    if isinstance(x, (int, str)) and not isinstance(x, bool):
        return "a%d" % _acode(tab, x)
    if isinstance(x, bytes):
        return "a%d" % _acode(tab, x.decode("utf-8"))
    tag = x[0]
    if tag == b"None":
        return "N"
    if tag == b"unicode":
        return "a%d" % _acode(tab, x[1].decode("utf-8"))
    if tag == b"list":
        return "(L" + "".join(" " + show_real_sexp(y, tab) for y in x[1:]) + ")"
    if tag == b"tuple":
        return "(T" + "".join(" " + show_real_sexp(y, tab) for y in x[1:]) + ")"
    if tag == b"dictionary":
        return "(D" + "".join(" " + show_real_sexp(k, tab) + " " + show_real_sexp(v, tab) for k, v in x[1:]) + ")"
    if tag == b"reference":
        return "(R %d %s)" % (x[1], show_real_sexp(x[2], tab))
    if tag == b"dereference":
        return "(d %d)" % x[1]
    name = tag.decode()
    if name in CLS_CODE:
        return "(I%d %s)" % (CLS_CODE[name], show_real_sexp(x[1], tab))
    return "?" + name


def dump_real(root, tab):
    """canonical dump of the unjellied object graph: objects numbered by first visit from the root"""
    from twisted.persisted import crefutil
    ids, order = {}, []

    def ref(o):
        if o is None:
            return "N"
        if isinstance(o, (int, str)) and not isinstance(o, bool):
            return "a%d" % _acode(tab, o) if (type(o).__name__, o) in tab else "a?"
        if id(o) not in ids:
            ids[id(o)] = len(order)
            order.append(o)
            visit(o)
        return "#%d" % ids[id(o)]
    out = {}

    def visit(o):
        n = ids[id(o)]
        out[n] = None
        if isinstance(o, list):
            out[n] = "L[" + ",".join("0:" + ref(x) for x in o) + "]"
        elif isinstance(o, tuple):
            out[n] = "T[" + ",".join("0:" + ref(x) for x in o) + "]"
        elif isinstance(o, dict):
            out[n] = "D[" + ",".join("%d:%s" % (_acode(tab, k), ref(v)) for k, v in o.items()) + "]"
        elif isinstance(o, (set, frozenset)):
            out[n] = "S[" + ",".join(sorted("0:" + ref(x) for x in sorted(o, key=lambda v: (type(v).__name__, repr(v)
                                                                                      if isinstance(v, (int, str)) else "")))) + "]"
        elif isinstance(o, crefutil._Container):
            out[n] = "P[" + ",".join("0:" + ref(x) for x in o.l) + "]"
        elif isinstance(o, crefutil._Dereference):
            out[n] = "X[]"
        else:
            name = type(o).__module__ + "." + type(o).__qualname__
            out[n] = "I%d[" % CLS_CODE.get(name, 0) + ",".join("%d:%s" % (_acode(tab, k), ref(v))
                                                                 for k, v in o.__dict__.items()) + "]"
    r = ref(root)
    return r + ";" + " ".join(out[i] for i in range(len(order)))


def dump_model(raw):
    """the model's raw result (root ; objects by allocation ; _Tuple placeholders) in the same canonical form"""
    root, nodes, tups = raw.split(";")
    nodes = nodes.split(" ") if nodes else []
    tups = tups.split(" ") if tups else []

    def slots(txt):
        body = txt[txt.index("[") + 1:-1]
        return [x.split(":") for x in body.split(",")] if body else []
    ids, order, out = {}, [], {}

    def ref(t):
        if t[0] in "aN":
            return t
        if t not in ids:
            ids[t] = len(order)
            order.append(t)
            n = ids[t]
            out[n] = None
            if t.startswith("#"):
                txt = nodes[int(t[1:])]
                kind = txt[:txt.index("[")]
                out[n] = kind + "[" + ",".join(k + ":" + ref(v) for k, v in slots(txt)) + "]"
            elif t.startswith("?pt"):
                out[n] = "P[" + ",".join(k + ":" + ref(v) for k, v in slots(tups[int(t[3:])])) + "]"
            else:
                out[n] = "X[]"
        return "#%d" % ids[t]
    r = ref(root)
    return r + ";" + " ".join(out[i] for i in range(len(order)))


def impl_roundtrip(case) -> str:
    """-> verdict | wire s-expression | canonical dump of the unjellied graph"""
    _world_dir()
    from twisted.spread import jelly
    import importlib
    p = jelly.SecurityOptions()
    decoy = jelly.SecurityOptions()          # a second policy object in the same process
    decoy.allowTypes("function", "module")
    ljplain = importlib.import_module("ljplain")
    p.allowInstancesOf(ljplain.P1, ljplain.P2, ljplain.P3)
    g = build_graph(case["graph"])
    tab = _atoms(case["graph"])
    sx = "?"
    with warnings.catch_warnings():
        warnings.simplefilter("ignore")
        try:
            sexp = jelly.jelly(g, p)
            sx = show_real_sexp(sexp, tab)
            back = jelly.unjelly(sexp, p)
        except Exception as e:
            return "raised:" + type(e).__name__ + "|" + sx + "|ASSERT"
    return same_graph(g, back) + "|" + sx + "|" + dump_real(back, tab)


def graph_coq(spec):
    """the graph description as a Graph.heap (objects = the container nodes, in order; root = object 0)"""
    tab = _atoms(spec)
    hid = {}
    nxt = 0
    empty_tuple = None            # CPython has a single empty tuple object
    for i, d in enumerate(spec):
        if d[0] == "tuple" and len(d) == 1 and empty_tuple is not None:
            hid[i] = empty_tuple
        elif d[0] in ("list", "tuple", "dict", "inst"):
            hid[i] = nxt
            if d[0] == "tuple" and len(d) == 1:
                empty_tuple = nxt
            nxt += 1

    def ref(j):
        d = spec[j]
        if d[0] == "none":
            return "RNone"
        if d[0] in ("int", "str"):
            return "(RAtom %d%%N)" % _acode(tab, d[1])
        return "(RNode %d)" % hid[j]
    nodes = []
    for i, d in enumerate(spec):
        if d[0] == "list":
            nodes.append("(KList, %s)" % coq_list(["(0%%N, %s)" % ref(j) for j in d[1:]], "(N * ref)"))
        elif d[0] == "tuple":
            if len(d) == 1 and hid[i] != len(nodes):
                continue          # a later empty tuple: the same object as the first one
            nodes.append("(KTuple, %s)" % coq_list(["(0%%N, %s)" % ref(j) for j in d[1:]], "(N * ref)"))
        elif d[0] == "dict":
            # later duplicates of a key overwrite: keep the last value at the first position, like a dict
            kv = {}
            for k in range(1, len(d) - 1, 2):
                kv[d[k]] = d[k + 1]
            nodes.append("(KDict, %s)" % coq_list(["(%d%%N, %s)" % (_acode(tab, k), ref(j)) for k, j in kv.items()],
                                                  "(N * ref)"))
        elif d[0] == "inst":
            kv = {}
            for k in range(2, len(d) - 1, 2):
                kv[d[k]] = d[k + 1]
            nodes.append("(KInst %d%%N, %s)" % (CLS_CODE[d[1]],
                                               coq_list(["(%d%%N, %s)" % (_acode(tab, k), ref(j)) for k, j in kv.items()],
                                                        "(N * ref)")))
    return coq_list(nodes, "node")


def rand_graph(rng):
    n = rng.randrange(1, 9)
    spec = []
    for i in range(n):
        k = rng.random()
        refs = lambda m: [rng.randrange(n) for _ in range(rng.randrange(m))]
        if i == 0 or k < 0.3:
            spec.append(["list"] + refs(4))
        elif k < 0.5:
            d = ["dict"]
            for j in range(rng.randrange(3)):
                d += ["k%d" % j, rng.randrange(n)]
            spec.append(d)
        elif k < 0.7:
            d = ["inst", rng.choice(["ljplain.P1", "ljplain.P2", "ljplain.P3", "ljplain.P3"])]
            if d[1] == "ljplain.P3":
                # its __new__ sets `default`; direct attribute-level cycles: itself, or any other node
                d += ["default", ("zero", 0)]
                for a in ("me", "peer")[:rng.randrange(1, 3)]:
                    d += [a, i if rng.random() < 0.5 else rng.randrange(n)]
            for j in range(rng.randrange(3)):
                d += ["a%d" % j, rng.randrange(n)]
            spec.append(d)
        elif k < 0.8:
            spec.append(["tuple"] + [rng.randrange(i) for _ in range(rng.randrange(3))] if i > 0 else ["none"])
        elif k < 0.9:
            spec.append(["int", rng.randrange(-5, 10 ** rng.randrange(1, 12))])
        else:
            spec.append(rng.choice([["str", "texté"], ["none"], ["str", ""]]))
    for d in spec:
        for k, x in enumerate(d):
            if isinstance(x, tuple):
                spec.append(["int", 0])
                d[k] = len(spec) - 1
    # tuples may only point at non-tuple nodes or earlier tuples: enforce
    for i, d in enumerate(spec):
        if d[0] == "tuple":
            spec[i] = ["tuple"] + [j for j in d[1:] if spec[j][0] != "tuple" or j < i]
    return {"kind": "roundtrip", "graph": spec}


# ------------------------------------------------------------------------------------------------
# generator of hostile s-expressions

NAMES = ["ljpkg.mod.Derived", "ljpkg.mod.FromForeign", "ljpkg.mod.Allowed", "ljpkg.mod.Other", "ljpkg.mod.Gadget", "ljpkg.mod.func", "ljpkg.mod.CONST",
         "ljpkg.mod.ljforeign", "ljpkg.mod.nosuch", "ljpkg.sub", "ljpkg.sub.SubThing", "ljpkg.sub.f", "ljpkg.deep",
         "ljpkg.deep.inner", "ljpkg.deep.inner.Inner", "ljpkg.deep.inner.f", "ljpkg.deep.x", "ljforeign.Gadget",
         "ljforeign.danger", "ljforeign", "ljpkg", "ljpkg.mod", "nopkg.x", "ljpkg.nosuch.x", "bool", "eval", "",
         "ljpkg.mod.Allowed.meth", "ljpkg.mod.ljforeign.danger", "ljpkg.mod.ljforeign.Gadget"]


def rand_sexp(rng, depth=0, real=False):
    k = rng.random()
    A = lambda n: {"a": n}
    name = lambda: rng.choice(DANGEROUS) if real and rng.random() < 0.5 else rng.choice(NAMES)
    if depth > 3 or k < 0.12:
        return rng.choice([{"i": rng.randrange(100)}, A("x"), ["None"]])
    if k < 0.24:
        return [rng.choice(["list", "tuple"])] + [rand_sexp(rng, depth + 1, real) for _ in range(rng.randrange(4))]
    if k < 0.28:
        out = ["dictionary"]
        for j in range(rng.randrange(3)):
            out += [{"i": j}, rand_sexp(rng, depth + 1, real)]
        return out
    if k < 0.30:
        return ["set"] + [{"i": j} for j in range(rng.randrange(3))]
    if k < 0.38:
        return ["module", A(name())]
    if k < 0.48:
        return ["class", A(name())]
    if k < 0.62:
        return ["function", A(name())]
    if k < 0.76:
        cs = rng.choice([["class", A(name())], ["function", A(name())], rand_sexp(rng, depth + 1, real)])
        return ["instance", cs] + ([rand_sexp(rng, depth + 1, real)] if rng.random() < 0.9 else [])
    if k < 0.82:
        return ["method", {"s": rng.choice(["meth", "nosuch", "__setstate__"])}, rand_sexp(rng, depth + 1, real),
                rng.choice([["class", A(name())], ["function", A(name())], ["None"], {"i": 1}, ["list"],
                            ["function", A(rng.choice(["ljpkg.mod.func", "ljpkg.sub.f", "ljforeign.danger"]))]])]
    if k < 0.85:
        return [rng.choice(["persistent", "unpersistable"])] + ([A("x")] if rng.random() < 0.8 else [])
    if k < 0.87:
        return rng.choice([[], ["module"], ["class"], ["function"], ["instance"], ["function", {"i": 3}],
                           ["class", ["None"]]])
    n = name()
    if n == "":
        n = "eval"
    return [n] + ([rand_sexp(rng, depth + 1, real)] if rng.random() < 0.9 else [])


def rand_policy(rng):
    k = rng.random()
    types = [t for t in TYPES if rng.random() < (0.85 if k < 0.7 else 0.4)]
    mods = [m for m in MODULES + [""] if rng.random() < (0.35 if m else 0.05)]
    classes = [c for c in CLASSES if rng.random() < 0.4]
    if rng.random() < 0.5:          # like allowInstancesOf: the classes' modules are allowed too
        for c in classes:
            m = c.rpartition(".")[0]
            if m not in mods:
                mods.append(m)
    return {"types": types, "modules": mods, "classes": classes}


def rand_container_cycle(rng):
    """a tuple (or set / frozenset) that holds a back reference into a cycle at position p, FOLLOWED and preceded by
    further elements: atoms, an inner tuple, and objects that are first defined inside it and used again later"""
    kind = rng.choice(["tuple", "tuple", "tuple", "set", "fset"])
    spec = [None, None]                       # 0 = root list, 1 = owner
    def add(d):
        spec.append(d)
        return len(spec) - 1
    inner = add(["tuple", add(["int", 41]), add(["str", "in"])])
    shared = add(["list", add(["int", 5])]) if kind == "tuple" else add(["inst", "ljplain.P2", "v", add(["int", 5])])
    atoms = [add(["int", rng.randrange(100, 999)]), add(["str", "tail"]), add(["none"]), add(["int", 7])]
    if kind != "tuple":
        atoms = [a for a in atoms if spec[a][0] != "none" or rng.random() < 0.3]
    members = rng.sample(atoms, rng.randrange(1, len(atoms) + 1))
    if rng.random() < 0.5:
        members.append(inner)
    use_shared = rng.random() < 0.6 and (kind == "tuple" or True)
    if use_shared:
        members.insert(rng.randrange(len(members) + 1), shared)
    ownerkind = "inst" if kind != "tuple" else rng.choice(["list", "dict", "inst"])
    p = rng.randrange(len(members) + 1)       # position of the back reference
    members.insert(p, 1)
    cont = add([kind] + members)
    if ownerkind == "list":
        spec[1] = ["list"] + ([atoms[0]] if rng.random() < 0.5 else []) + [cont] + ([shared] if rng.random() < 0.3 else [])
    elif ownerkind == "dict":
        spec[1] = ["dict", "edges", cont] + (["later", shared] if rng.random() < 0.3 else [])
    else:
        spec[1] = ["inst", "ljplain.P1", "edges", cont] + (["later", shared] if rng.random() < 0.3 else [])
    spec[0] = ["list", 1] + ([shared] if use_shared and rng.random() < 0.7 else []) + ([cont] if rng.random() < 0.3 else [])
    return {"kind": "roundtrip", "graph": spec}


def rand_factory_case(rng):
    """an allowed class whose __dict__ holds a class of a module the policy does not allow (Factory.protocol = Proto);
    the `instance` atom whose class slot is a method / reference expression evaluating to that class (oracle only)"""
    A = lambda n: {"a": n}
    meth = ["method", {"s": "protocol"}, ["None"], ["class", A("ljfac.Factory")]]
    state = rng.choice([["dictionary"], ["dictionary", {"i": 1}, {"i": 2}], ["list"]])
    k = rng.random()
    if k < 0.5:
        sexp = ["instance", meth, state]
    elif k < 0.75:
        sexp = ["list", ["reference", {"i": 1}, meth], ["instance", ["dereference", {"i": 1}], state]]
    elif k < 0.9:
        sexp = ["list", ["instance", meth, state], ["instance", ["class", A("ljfac.Factory")], state]]
    else:
        sexp = meth
    types_ = ["instance", "method", "class", "None", "dictionary", "list", "reference", "dereference"]
    return {"policy": {"types": types_, "modules": ["ljfac"], "classes": ["ljfac.Factory"]}, "sexp": sexp}


def rand_method_case(rng):
    """[method, name, self, [class, C]] under a policy that allows the method tag and (mostly) the class C; the name is
    C's own method, a method inherited from a base in an allowed / a foreign module, a type attribute, or missing"""
    A = lambda n: {"a": n}
    c = rng.choice(["ljpkg.mod.Allowed", "ljpkg.mod.Derived", "ljpkg.mod.FromForeign", "ljpkg.mod.Other",
                    "ljpkg.sub.SubThing", "ljforeign.Gadget"])
    mod = c.rpartition(".")[0]
    types_ = ["method", "class", "None", "dictionary", "list"] + [t for t in ("instance", "function", "tuple") if rng.random() < 0.5]
    classes = [c] if rng.random() < 0.85 else []
    classes += [x for x in CLASSES if rng.random() < 0.2 and x not in classes]
    mods = [mod] + [m for m in MODULES if rng.random() < 0.15 and m != mod]
    self_ = rng.choice([["None"], ["None"], [c, ["dictionary"]], ["instance", ["class", A(c)], ["dictionary"]], {"i": 1},
                        ["list"]])
    sexp = ["method", {"s": rng.choice(METHOD_NAMES)}, self_, ["class", A(c)]]
    if rng.random() < 0.2:
        sexp = ["list", sexp, ["method", {"s": rng.choice(METHOD_NAMES)}, ["None"], ["class", A(c)]]]
    case = {"policy": {"types": types_, "modules": mods, "classes": classes}, "sexp": sexp}
    if rng.random() < 0.5:
        case["warm"] = True
    return case


def rand_records(rng):
    """several Jellyable instances whose getStateFor builds a fresh state container each time, in ONE jelly() call"""
    n = rng.choice([2, 3, 5, 10, 50, 120, 200])
    recs = [[rng.choice(["Rec", "LRec"]), "rec%d" % i, ["t%d" % i] * rng.randrange(0, 3)] for i in range(n)]
    order = list(range(n))
    if rng.random() < 0.4:                      # genuine sharing: some record appears twice
        order.insert(rng.randrange(n + 1), rng.randrange(n))
    return {"kind": "records", "records": recs, "order": order}


def gen(rng, tier):
    n = 1500 if tier == "quick" else 25000
    out = []
    for i in range(n):
        k = rng.random()
        if k < 0.02:
            out.append(rand_records(rng))
        elif k < 0.035:
            out.append(rand_factory_case(rng))
        elif k < 0.06:
            out.append(rand_container_cycle(rng))
        elif k < 0.12:
            out.append(rand_graph(rng))
        elif k < 0.22:
            out.append(rand_method_case(rng))
        else:
            c = {"policy": rand_policy(rng), "sexp": rand_sexp(rng, real=k < 0.25)}
            if rng.random() < 0.4:
                c["warm"] = True
            out.append(c)
    return out


def corpus():
    A = lambda n: {"a": n}
    P = lambda t, m, c: {"types": t, "modules": m, "classes": c}
    return [
        {"policy": P(["function"], ["ljpkg"], []), "sexp": ["function", A("ljpkg.sub")]},
        {"policy": P(["function"], ["ljpkg.deep"], []), "sexp": ["function", A("ljpkg.deep.inner")]},
        {"policy": P(["function", "instance", "dictionary"], ["ljpkg.mod"], ["ljpkg.mod.Allowed"]),
         "sexp": ["instance", ["function", A("ljpkg.mod.Other")], ["dictionary"]]},
        {"policy": P(["function", "instance", "dictionary"], ["ljpkg.mod"], ["ljpkg.mod.Allowed"]),
         "sexp": ["instance", ["function", A("ljpkg.mod.Gadget")], ["dictionary", {"i": 1}, {"i": 2}]]},
        {"policy": P(["function"], ["ljpkg.mod"], []), "sexp": ["function", A("ljpkg.mod.ljforeign")]},
        {"policy": P(["function"], ["ljpkg.mod"], []), "sexp": ["function", A("ljpkg.mod.Other")]},
        {"policy": P(["function", "method"], ["ljpkg.mod"], ["ljpkg.mod.Allowed"]),
         "sexp": ["method", {"s": "meth"}, ["None"], ["function", A("ljpkg.mod.Other")]]},
        {"policy": P(["function", "method"], ["ljpkg.mod"], ["ljpkg.mod.Allowed"]),
         "sexp": ["method", {"s": "meth"}, ["None"], ["function", A("ljpkg.mod.func")]]},
        {"policy": P(["method", "class"], ["ljpkg.mod"], ["ljpkg.mod.Allowed"]),
         "sexp": ["method", {"s": "meth"}, ["None"], ["None"]]},
        {"policy": P(["method", "class"], ["ljpkg.mod"], ["ljpkg.mod.Allowed"]),
         "sexp": ["method", {"s": "meth"}, {"i": 1}, ["class", A("ljpkg.mod.Allowed")]]},
        {"policy": P(["instance", "class", "list"], ["ljpkg.mod"], ["ljpkg.mod.Allowed"]),
         "sexp": ["instance", ["class", A("ljpkg.mod.Allowed")], ["list"]]},
        {"policy": P(["list"], ["ljpkg.mod"], ["ljpkg.mod.Allowed"]), "sexp": ["ljpkg.mod.Other", ["list"]]},
        {"policy": P(["list"], ["ljpkg.mod"], ["ljpkg.mod.Allowed"]), "sexp": ["ljpkg.mod.Allowed", ["list"]]},
        # a policy that knows the code-ish tags but was granted no module / class, next to decoys granted everything
        {"warm": True, "policy": P(["module", "class", "function", "instance", "method", "list", "dictionary"], [], []),
         "sexp": ["list", ["module", A("ljpkg.mod")], ["function", A("ljpkg.mod.func")], ["class", A("ljpkg.mod.Allowed")]]},
        {"warm": True, "policy": P(["module", "class", "function", "instance", "method", "list", "dictionary"], [], []),
         "sexp": ["ljpkg.mod.Allowed", ["dictionary"]]},
        {"policy": P(["module", "class", "function", "instance", "method", "list", "dictionary"], [], []),
         "sexp": ["module", A("ljpkg.mod")]},
        {"warm": True, "policy": P(["function"], ["ljpkg.mod"], []), "sexp": ["function", A("ljpkg.mod.ljforeign.danger")]},
        {"policy": P(["function"], ["ljpkg.mod"], []), "sexp": ["function", A("ljpkg.mod.ljforeign.danger")]},
        {"policy": P(TYPES, MODULES, CLASSES), "sexp": ["os.system", A("x")]},
        {"policy": P(TYPES, MODULES, CLASSES), "sexp": ["function", A("os.system")]},
        {"policy": P(TYPES, MODULES, CLASSES), "sexp": ["instance", ["class", A("subprocess.Popen")], ["list"]]},
        {"policy": P(["instance", "method", "class", "None", "dictionary"], ["ljfac"], ["ljfac.Factory"]),
         "sexp": ["instance", ["method", {"s": "protocol"}, ["None"], ["class", A("ljfac.Factory")]], ["dictionary"]]},
        {"policy": P(["instance", "method", "class", "None", "dictionary"], ["ljfac"], ["ljfac.Factory"]),
         "sexp": ["method", {"s": "protocol"}, ["None"], ["class", A("ljfac.Factory")]]},
        {"kind": "roundtrip", "graph": [["list", 1], ["inst", "ljplain.P3", "default", 2, "me", 1], ["int", 0]]},
        {"kind": "roundtrip", "graph": [["list", 1], ["inst", "ljplain.P3", "default", 3, "peer", 2],
                                        ["inst", "ljplain.P3", "default", 3, "peer", 1], ["int", 0]]},
        {"kind": "records", "records": [["Rec", "rec%d" % i, ["t%d" % i]] for i in range(3)], "order": [0, 1, 2]},
        {"kind": "records", "records": [["Rec", "rec%d" % i, ["t%d" % i, "u"]] for i in range(60)], "order": list(range(60))},
        {"kind": "records", "records": [[("LRec" if i % 2 else "Rec"), "r%d" % i, []] for i in range(200)],
         "order": list(range(200)) + [7]},
        # method names that are not in the class's own __dict__: inherited (allowed / foreign base), type attributes
        {"warm": True, "policy": P(["method", "class"], ["ljpkg.mod"], ["ljpkg.mod.FromForeign"]),
         "sexp": ["method", {"s": "meth"}, ["None"], ["class", A("ljpkg.mod.FromForeign")]]},
        {"policy": P(["method", "class"], ["ljpkg.mod"], ["ljpkg.mod.Derived"]),
         "sexp": ["method", {"s": "meth"}, ["None"], ["class", A("ljpkg.mod.Derived")]]},
        {"policy": P(["method", "class", "dictionary"], ["ljpkg.mod"], ["ljpkg.mod.Allowed"]),
         "sexp": ["method", {"s": "__setstate__"}, ["ljpkg.mod.Allowed", ["dictionary"]], ["class", A("ljpkg.mod.Allowed")]]},
        {"policy": P(["method", "class"], ["ljpkg.mod"], ["ljpkg.mod.Derived"]),
         "sexp": ["method", {"s": "__base__"}, ["None"], ["class", A("ljpkg.mod.Derived")]]},
        {"policy": P(["method", "class"], ["ljpkg.mod"], ["ljpkg.mod.Derived"]),
         "sexp": ["method", {"s": "__mro__"}, ["None"], ["class", A("ljpkg.mod.Derived")]]},
        {"policy": P(["method", "class"], ["ljpkg.mod"], ["ljpkg.mod.Derived"]),
         "sexp": ["method", {"s": "own"}, ["None"], ["class", A("ljpkg.mod.Derived")]]},
        {"kind": "roundtrip", "graph": [["list", 0, 1, 1], ["dict", "k", 0]]},
        {"kind": "roundtrip", "graph": [["list", 2, 3], ["inst", "ljplain.P1", "a0", 2], ["tuple", 0, 1], ["list"],
                                        ["inst", "ljplain.P2"], ["dict"]]},
        {"kind": "roundtrip", "graph": [["list", 1], ["list", 0, 2], ["dict", "k0", 4, "k1", 5], ["dict"],
                                        ["dict", "k0", 1, "k1", 5], ["tuple", 4]]},
        {"kind": "roundtrip", "graph": [["inst", "ljplain.P1", "me", 0, "l", 1], ["list", 0, 1]]},
    ]


# ------------------------------------------------------------------------------------------------
# Coq side

TAGC = {"None": "Model.TNone", "list": "TList", "tuple": "TTuple", "dictionary": "TDict", "set": "TSet", "module": "TModule",
        "class": "TClass", "function": "TFunction", "instance": "TInstance", "method": "TMethod",
        "persistent": "TPersistent", "unpersistable": "TUnpersistable"}


def _known(name):
    return all(s in SEGID for s in name.split("."))


def sexp_coq(s):
    if isinstance(s, dict):
        if "a" in s:
            return None if not _known(s["a"]) else f"(SName {cn(s['a'])})"
        if "s" in s:
            return f"(SName {cn(s['s'])})" if s["s"] in SEGID else None
        return "SInt"
    if not s:
        return "SEmpty"
    tag = s[0]
    if tag in TAGC:
        t = TAGC[tag]
    else:
        if not _known(tag):
            return None
        t = f"(TName {cn(tag)})"
    args = "SNil"
    for x in reversed(s[1:]):
        c = sexp_coq(x)
        if c is None:
            return None
        args = f"(SCons {c} {args})"
    return f"(SNode {t} {args})"


def _world_coq():
    mods = coq_list([cn(m) for m in MODULES], "name")
    attrs = []
    for (owner, a), (k, c) in ATTRS.items():
        if a not in SEGID:
            continue
        o = {"M": f"OModule {cn(c)}", "C": f"OClass {cn(c)}", "F": f"OFunc {cn(c) if _known(c) else cn('x')}", "D": "OData"}[k]
        attrs.append(f"({cn(owner)}, {SEGID[a]}%N, {o})")
    return mods, coq_list(attrs)


def to_coq(case):
    if case.get("kind") == "records":
        return None          # Jellyable.getStateFor path: oracle only
    if case.get("kind") == "roundtrip":
        if any(d[0] in ("set", "fset") for d in case["graph"]):
            return None         # sets are not in the Coq graph model: oracle only
        return "(inr " + graph_coq(case["graph"]) + ")"
    s = sexp_coq(case["sexp"])
    if s is None:
        return None
    pol = case["policy"]
    names = list(pol["types"]) + [t for t in ("None", "set", "bool") if t not in pol["types"]]   # allowed by default
    tys = coq_list([TAGC[t] if t in TAGC else f"(TName {cn(t)})" for t in names], "tag")
    pm = coq_list([cn(m) for m in pol["modules"]], "name")
    pc = coq_list([cn(c) for c in pol["classes"]], "name")
    warm = "true" if case.get("warm") else "false"
    return f"(inl ({warm}, world_mods, world_attrs, ({tys}, {pm}, {pc}, (@nil name)), {s}))"


def _header():
    mods, attrs = _world_coq()
    return ("From C45 Require Import Model Run Graph GraphRun.\n"
            f"Definition world_mods : list name := {mods}.\n"
            f"Definition world_attrs : list (name * N * obj) := {attrs}.\n"
            "Definition run_any (c : (bool * list name * list (name * N * obj) * (list tag * list name * list name * "
            "list name) * sexp) + heap) : string := match c with inl x => run_show x | inr h => run_graph h end.")


def model_equal(case, impl_obs, model_out):
    if case.get("kind") != "roundtrip":
        return impl_obs == model_out
    _, sx, dump = impl_obs.split("|")
    if "|" not in model_out:
        return False
    msx, mraw = model_out.split("|")
    if sx != msx:
        return False
    if dump == "ASSERT" or mraw == "ASSERT":
        return dump == mraw
    return dump_model(mraw) == dump


def shrink(case):
    if case.get("kind") == "records":
        n = len(case["records"])
        for m in (2, 3, n // 2, n - 1):
            if 2 <= m < n:
                yield {"kind": "records", "records": case["records"][:m], "order": [i for i in case["order"] if i < m]}
        return
    if case.get("kind") == "roundtrip":
        g = case["graph"]
        for i in range(len(g) - 1, 0, -1):
            if not any(i in [x for x in d[1:] if isinstance(x, int)] for d in g):
                yield {"kind": "roundtrip", "graph": g[:i] + g[i + 1:]} if i == len(g) - 1 else case
        return
    s = case["sexp"]

    def subs(x):
        if isinstance(x, list):
            for y in x[1:]:
                if isinstance(y, list):
                    yield y
                    yield from subs(y)
    for y in subs(s):
        yield dict(case, sexp=y)
    pol = case["policy"]
    for key in ("types", "modules", "classes"):
        for i in range(len(pol[key])):
            p2 = dict(pol)
            p2[key] = pol[key][:i] + pol[key][i + 1:]
            yield dict(case, policy=p2)


def hist(case, obs):
    if case.get("kind") == "records":
        return "records:n=%d" % len(case["records"])
    if case.get("kind") == "roundtrip":
        return "roundtrip"
    if case.get("warm"):
        obs = "warm-" + obs
    s = case["sexp"]
    tag = s[0] if isinstance(s, list) and s else "atom"
    if tag not in TAGC:
        tag = "dotted"
    return tag + ":" + obs.split("|")[0].split(":")[0] + (":" + obs.split("|")[0].split(":")[1][:8] if obs.startswith("X") else "")


SPEC = Spec(
    pid="C45",
    gen=gen,
    impl=impl,
    oracle=oracle,
    coq_header=_header(),
    coq_fn="run_any",
    to_coq=to_coq,
    model_equal=model_equal,
    corpus=corpus,
    shrink=shrink,
    histogram=hist,
    nontrivial=lambda c, o: c.get("kind") in ("roundtrip", "records") or not o.startswith("X:insecure||"),
    rule="grammar over jelly tags (list/tuple/dictionary/set/None/module/class/function/instance/method/persistent/"
         "unpersistable/dotted instance types/unknown tags, wrong arities) with names drawn from a synthetic package "
         "tree (submodules, nested packages, a foreign module and a foreign class imported into an allowed module, "
         "non-allowed classes beside allowed ones, data attributes, missing names) and from real dangerous callables "
         "(os.system, subprocess.Popen, builtins.eval, ... oracle only); random policies (types x modules x classes, "
         "with and without the allowInstancesOf closure); 12% random allowed object graphs with shared and cyclic "
         "references for the jelly->unjelly round trip; 10% `method` expressions under policies that allow the class, "
         "with names drawn from own methods, methods inherited from a base in an allowed / a foreign module, type "
         "attributes (__base__, __mro__, __subclasses__, mro ...), missing names; 2% lists of 2..200 Jellyable "
         "records whose getStateFor builds a fresh state container (one jelly() call, with and without a repeated "
         "record).  non-trivial = not refused outright before any effect",
    trusted=[
        "hand-written model coq/C45/Model.v (tied only as far as the generated cases reach); harness instrumentation "
        "(builtins.__import__ wrapped: for every import requested from jelly.py / reflect.py, the prefixes of the "
        "requested name present in sys.modules afterwards; __new__ of the synthetic classes for instantiation)",
        "class identity is compared by qualified name in the harness in cold mode (synthetic modules are purged and "
        "re-imported); warm mode uses the real allowedClasses mapping; every case builds three SecurityOptions "
        "objects (decoys granted everything before and after the policy under test)",
        "graph half: coq/C45/Graph.v (jel/post = _Jellier reference numbering, unj = _Unjellier + crefutil "
        "placeholders) is compared on every round-trip case with the real wire s-expression and the real unjellied "
        "object graph (canonical dump incl. leftover _Tuple/_Dereference placeholders and AssertionError)",
    ],
    assumptions=[
        "graph round trip: objects are lists, tuples, dicts with atom keys, instances with default state handling "
        "(no __setstate__/__getstate__ overrides, __dict__ not aliased), atoms and None; the theorem excludes graphs "
        "with a tuple on a cycle (known findings), the model reproduces the real failures there",
        "no persistentLoad callback; registered unjellyables (unjellyableRegistry) run application code that is outside "
        "the model (modelled as an opaque VReg result); reference/dereference, unicode/boolean/decimal/date/time atoms "
        "are exercised by the round-trip oracle only",
        "models the code with fixes/C45-function-instance-class-check.patch applied",
    ],
)
