"""C22 — chunked transfer coding (_ChunkedTransferDecoder, toChunk, _abnf helpers).

H-tie: coq/C22/Model.v is a hand transcription of the decoder; this module runs the real
decoder and the model (vm_compute) on the same delivery lists and compares every dataCallback
argument, the finishCallback argument (+ what the caller still holds) and the exception class.
T-tie (part): coq/C22/Gen.v (byte tables of _istoken/_ishexdigits/_chunkExtChars, the two limits)
is regenerated from the source by translate/c22.py on every run.

The model is the REPAIRED decoder (fixes/C22-trailer-terminator-counted.patch, finding F5).

case = {"k": "dec", "max": int, "stream": hex, "cuts": [[offset, ...], ...], "cls": str,
        "exp": None | {"body": hex, "end": "F:<hex>" | "N" | "E"}}
       -- the stream is delivered once per cut list, split at those offsets ([] = whole); the
          observation is the "/"-joined list of the per-delivery-pattern results
     | {"k": "enc", "data": hex}
"""
from __future__ import annotations

from harness.common import COQ, REPO, Failure, Spec, coq_list
from translate import c22 as tr

DEFAULT_MAX = 65536
HEX = b"0123456789abcdefABCDEF"
# RFC 9112 7.1.1 chunk-ext bytes as the decoder documents them: HTAB, SP, VCHAR except "\", obs-text
EXT_OK = bytes([9] + [c for c in range(32, 127) if c != 92] + list(range(128, 256)))
MAXLINE = 1024


# ------------------------------------------------------------------------------------------
# implementation driver


def _decode_impl(parts: list[bytes], maxtr: int):
    """-> (pieces, ending) with ending 'N' | 'E' | 'F:<hex>' (+ anomaly marks)"""
    from twisted.web import http

    pieces: list[bytes] = []
    fin: list[bytes] = []
    p = http._ChunkedTransferDecoder(pieces.append, fin.append)
    p._maxTrailerHeadersSize = maxtr
    failed = False
    rest = b""
    for i, part in enumerate(parts):
        if fin:
            rest += part
            continue
        try:
            p.dataReceived(part)
        except http._MalformedChunkedDataError:
            failed = True
            break
    if failed:
        end = "E" + ("+F" if fin else "")
    elif fin:
        end = "F:" + (fin[0] + rest).hex() + ("+again" if len(fin) > 1 else "")
        p.noMoreData()  # must not raise once finished
    else:
        try:
            p.noMoreData()
            end = "?no-data-loss-reported"
        except http._DataLoss:
            end = "N"
    return pieces, end


def split_at(stream: bytes, cuts: list[int]) -> list[bytes]:
    """deliveries for a cut list (same function as Run.split_at)"""
    parts, pos = [], 0
    for c in cuts:
        k = max(c - pos, 0)
        parts.append(stream[pos:pos + k])
        pos = max(pos, c)
    parts.append(stream[pos:])
    return parts


def _one(stream: bytes, cuts, maxtr: int) -> str:
    pieces, end = _decode_impl(split_at(stream, cuts), maxtr)
    return ",".join(x.hex() for x in pieces) + "|" + end


def impl(case) -> str:
    if case["k"] == "enc":
        from twisted.web import http
        return b"".join(http.toChunk(bytes.fromhex(case["data"]))).hex()
    stream = bytes.fromhex(case["stream"])
    res = [_one(stream, cuts, case["max"]) for cuts in case["cuts"]]
    # delivery patterns that give exactly the first pattern's result are written "="
    return "/".join(res[:1] + [("=" if r == res[0] else r) for r in res[1:]])


# ------------------------------------------------------------------------------------------
# the property, stated without the model of the code


def ref_decode(stream: bytes, maxtr: int):
    """Whole-stream reference decoder for the chunked coding with the decoder's documented limits
    (size line < 1024 bytes, trailer section including its final CRLF <= maxtr).  Returns
    (body delivered, 'N' | 'E' | 'F:<hex of what follows>')."""
    pos, body = 0, b""
    while True:
        i = stream.find(b"\r\n", pos)
        if i < 0:
            return body, "E" if len(stream) - pos > MAXLINE else "N"
        line = stream[pos:i]
        if len(line) >= MAXLINE:
            return body, "E"
        size, _, ext = line.partition(b";")
        if not size or any(c not in HEX for c in size) or any(c not in EXT_OK for c in ext):
            return body, "E"
        n = int(size, 16)
        pos = i + 2
        if n == 0:
            break
        chunk = stream[pos:pos + n]
        body += chunk
        if len(chunk) < n:
            return body, "N"
        pos += n
        term = stream[pos:pos + 2]
        if len(term) < 2:
            return body, "N"
        if term != b"\r\n":
            return body, "E"
        pos += 2
    total = 0
    while True:
        i = stream.find(b"\r\n", pos)
        if i < 0:
            rest = stream[pos:]
            if not rest:
                return body, "N"
            least = total + len(rest) + (1 if rest.endswith(b"\r") else 2)
            return body, "E" if least > maxtr else "N"
        if i == pos:
            if total + 2 > maxtr:
                return body, "E"
            return body, "F:" + stream[pos + 2:].hex()
        total += i - pos + 2
        if total > maxtr:
            return body, "E"
        pos = i + 2


def _trailer_zone(stream: bytes, maxtr: int) -> bool:
    """is the stream's trailer section (lines + final CRLF) within a few bytes of the limit?"""
    pos = 0
    try:
        while True:
            i = stream.index(b"\r\n", pos)
            field = stream[pos:i].split(b";")[0]
            if not field or any(c not in HEX for c in field):
                return False
            n = int(field, 16)
            pos = i + 2
            if n == 0:
                break
            pos += n + 2
    except ValueError:
        return False
    total = 2
    while True:
        i = stream.find(b"\r\n", pos)
        if i < 0:
            total += len(stream) - pos
            break
        if i == pos:
            break
        total += i - pos + 2
        pos = i + 2
    return maxtr - 6 <= total <= maxtr + 6


def _kind(end: str) -> str:
    return end[0] if end[:1] in "NEF" else "?"


def oracle(case, obs):
    if case["k"] == "enc":
        data = bytes.fromhex(case["data"])
        want = (b"%x\r\n" % len(data)) + data + b"\r\n"
        if obs != want.hex():
            return Failure(case, "toChunk output is not '<hex length> CRLF data CRLF'", "tochunk-format")
        if data:
            pieces, end = _decode_impl([bytes.fromhex(obs), b"0\r\n\r\n"], DEFAULT_MAX)
            if b"".join(pieces) != data or end != "F:":
                return Failure(case, f"decoder does not invert toChunk: {pieces!r} {end}", "tochunk-roundtrip")
        return None
    stream = bytes.fromhex(case["stream"])
    maxtr = case["max"]
    results = obs.split("/")
    if len(results) != len(case["cuts"]):
        return Failure(case, "malformed observation", "log")
    results = results[:1] + [(results[0] if r == "=" else r) for r in results[1:]]
    zone = ":trailer-limit" if _trailer_zone(stream, maxtr) else ""
    exp = case.get("exp")
    rb, rend = ref_decode(stream, maxtr)
    # 1. all delivery patterns agree with whole delivery (needs no reference at all)
    wp, wend = _decode_impl([stream], maxtr)
    whole = (b"".join(wp), wend)
    for cuts, res in zip(case["cuts"], results):
        dat, _, end = res.partition("|")
        body = bytes.fromhex(dat.replace(",", ""))
        if (body, end) != whole:
            return Failure(case, f"deliveries cut at {cuts[:8]}{'...' if len(cuts) > 8 else ''}: body={body!r} "
                                 f"end={end[:40]}, but delivered whole: body={whole[0]!r} end={whole[1][:40]}",
                           f"seg:{_kind(whole[1])}->{_kind(end)}" + zone)
    # 2. the expected outcome by construction, and the whole-stream reference decoder
    for cuts, res in zip(case["cuts"], results):
        how = f"deliveries cut at {cuts[:8]}{'...' if len(cuts) > 8 else ''}: " if cuts else "delivered whole: "
        dat, _, end = res.partition("|")
        body = bytes.fromhex(dat.replace(",", ""))
        if dat != "" and any(x == "" for x in dat.split(",")):
            return Failure(case, how + "dataCallback invoked with an empty byte string", "empty-data-callback")
        if exp is not None:
            eb = bytes.fromhex(exp["body"])
            if exp["end"] == "N":
                if not eb.startswith(body):
                    return Failure(case, how + f"truncated stream: delivered {body!r} is not a prefix of the body",
                                   "exp:body-not-prefix")
            elif exp["end"] != "E" and body != eb:
                return Failure(case, how + f"delivered body {body!r} != encoded body {eb!r}", "exp:body" + zone)
            if end != exp["end"]:
                return Failure(case, how + f"{case['cls']}: expected ending {exp['end'][:40]}, got {end[:40]}",
                               f"exp:{_kind(exp['end'])}->{_kind(end)}" + zone)
        if (body, end) != (rb, rend):
            what = "body" if body != rb else f"{_kind(rend)}->{_kind(end)}"
            return Failure(case, how + f"reference decoder gives body={rb!r} end={rend[:40]}, implementation "
                                       f"body={body!r} end={end[:40]}", f"ref:{what}" + zone)
    return None


# ------------------------------------------------------------------------------------------
# generation


def _rand_bytes(rng, n, alphabet=None):
    if alphabet is None:
        return bytes(rng.randrange(256) for _ in range(n))
    return bytes(rng.choice(alphabet) for _ in range(n))


def _digits(rng, n):
    s = b"%x" % n
    r = rng.random()
    if r < 0.15:
        s = s.upper()
    elif r < 0.3:
        s = b"0" * rng.randrange(1, 4) + s
    elif r < 0.4:
        s = bytes(rng.choice([c, ord(chr(c).upper())]) for c in s)
    return s


def _ext(rng):
    r = rng.random()
    if r < 0.6:
        return b""
    if r < 0.8:
        return b";" + rng.choice([b"", b"a", b"a=b", b'n="q;v"', b"x;y;z", b" \t"])
    return b";" + _rand_bytes(rng, rng.randrange(0, 8), EXT_OK)


def _trailer_line(rng, n=None):
    n = rng.randrange(1, 12) if n is None else n
    while True:
        t = _rand_bytes(rng, n, rng.choice([b"abXY:-; ", b"\r\nab", None]))
        if b"\r\n" not in t and t:
            return t


def _encoding(rng, big=False):
    """-> (stream without extra, body, trailer section length incl. final CRLF)"""
    chunks = []
    for _ in range(rng.choice([0, 1, 1, 2, 2, 3, 4])):
        n = rng.choice([1, 1, 2, 3, 5, 9, 10, 15, 16, 17]) if not big else rng.choice([1, 16, 255, 256, 257, 300, 1000])
        chunks.append(_rand_bytes(rng, n, rng.choice([None, b"\r\n0a;", b"abc"])))
    out = b""
    for c in chunks:
        out += _digits(rng, len(c)) + _ext(rng) + b"\r\n" + c + b"\r\n"
    out += _digits(rng, 0) + _ext(rng) + b"\r\n"
    tl = b"".join(_trailer_line(rng) + b"\r\n" for _ in range(rng.choice([0, 0, 1, 1, 2, 3])))
    out += tl + b"\r\n"
    return out, b"".join(chunks), len(tl) + 2


def _cuts(rng, stream, k):
    return sorted(rng.randrange(0, len(stream) + 1) for _ in range(k))


def _bytewise(stream):
    return list(range(1, len(stream)))


def _case(stream, cutlists, maxtr, cls, exp=None):
    return {"k": "dec", "max": maxtr, "stream": stream.hex(), "cuts": [list(c) for c in cutlists], "cls": cls,
            "exp": exp}


def _valid_cases(rng, n_streams, every_split_upto, big=False):
    out = []
    for _ in range(n_streams):
        enc, body, tsize = _encoding(rng, big)
        extra = rng.choice([b"", b"", b"x", b"\r\n", b"GET / HTTP/1.1\r\n", b"0\r\n\r\n", _rand_bytes(rng, 3)])
        # the limit: default, or placed around this stream's trailer section
        maxtr = rng.choice([DEFAULT_MAX, DEFAULT_MAX, tsize, tsize + 1, tsize + 2, tsize + 5])
        stream = enc + extra
        exp = {"body": body.hex(), "end": "F:" + extra.hex()}
        cl = [[]]
        if len(stream) <= every_split_upto:
            cl += [[i] for i in range(1, len(stream))] + [_bytewise(stream)]
        cl += [_cuts(rng, stream, rng.randrange(1, 6)) for _ in range(3)]
        out.append(_case(stream, cl, maxtr, "valid", exp))
        # truncation: every proper prefix of the encoding is data loss
        for cut in ([rng.randrange(0, len(enc)) for _ in range(3)] if len(enc) > every_split_upto // 2
                    else range(0, len(enc))):
            pre = enc[:cut]
            out.append(_case(pre, [[], _cuts(rng, pre, rng.randrange(1, 3))], maxtr, "truncated",
                             {"body": body.hex(), "end": "N"}))
    return out


def _limit_cases(rng, n):
    """trailer sections at the limit -3..+3, final CRLF whole / split at every place (F5)"""
    out = []
    for _ in range(n):
        maxtr = rng.choice([4, 5, 10, 10, 17, 40])
        for delta in range(-3, 4):
            total = maxtr + delta            # trailer section incl. final CRLF
            if total < 2:
                continue
            lines, left = [], total - 2
            while left > 0:
                if left < 3:
                    lines = None
                    break
                k = rng.randrange(3, left + 1)
                if left - k in (1, 2):
                    k = left
                lines.append(_trailer_line(rng, k - 2) + b"\r\n")
                left -= k
            if lines is None:
                continue
            body = rng.choice([b"", b"ab"])
            head = (b"2\r\nab\r\n" if body else b"") + b"0\r\n"
            stream = head + b"".join(lines) + b"\r\n"
            end = "F:" if total <= maxtr else "E"
            exp = {"body": body.hex(), "end": end}
            cl = [[]] + [[i] for i in range(len(head), len(stream))] + [_bytewise(stream)]
            out.append(_case(stream, cl, maxtr, f"trailer-limit{delta:+d}", exp))
    return out


def _mutation_cases(rng, n):
    out = []
    for _ in range(n):
        enc, body, tsize = _encoding(rng)
        pre_chunks = []
        for _ in range(rng.randrange(0, 3)):
            pre_chunks.append(_rand_bytes(rng, rng.randrange(1, 6), b"abc\r\n"))
        pre = b"".join(b"%x\r\n%s\r\n" % (len(c), c) for c in pre_chunks)
        pbody = b"".join(pre_chunks)
        tail = rng.choice([b"", b"0\r\n\r\n", enc])
        kind = rng.choice(["nonhex", "nonhex", "empty-size", "no-crlf", "no-crlf", "bad-ext", "bad-ext", "long-line"])
        expb = pbody
        if kind == "nonhex":
            good = b"%x" % rng.randrange(1, 300)
            bad = rng.choice([b"g", b"+", b"-", b" ", b"x", b"0x", b"\t", b"\x00", b"_", b".", b"\xff", b"\n", b"\r"])
            j = rng.randrange(0, len(good) + 1)
            if bad == b"\r" and j == len(good):
                bad = b"h"
            line = good[:j] + bad + good[j:] + rng.choice([b"", b";ext"])
            bad_part = line + b"\r\n" + b"abc\r\n"
        elif kind == "empty-size":
            bad_part = rng.choice([b"", b";a=b"]) + b"\r\n" + b"abc\r\n"
        elif kind == "no-crlf":
            data = _rand_bytes(rng, rng.randrange(1, 6), b"abc")
            term = rng.choice([b"\n\r", b"\r\r", b"\n\n", b"ab", b"\rX", b"X\n", b"0\r", b"\n0"])
            bad_part = b"%x\r\n" % len(data) + data + term + b"\n0\r\n\r\n"
            expb = pbody + data
        elif kind == "bad-ext":
            c = bytes([rng.choice([0, 1, 8, 10, 11, 12, 13, 14, 31, 92, 127])])
            ext = _rand_bytes(rng, rng.randrange(0, 4), b"ab=;") + c + _rand_bytes(rng, rng.randrange(1, 4), b"ab=;")
            bad_part = b"3;" + ext + b"\r\nabc\r\n"
        else:
            total = rng.choice([1022, 1023, 1024, 1025, 1026, 1030])   # size line length without CRLF
            line = b"3;" + _rand_bytes(rng, total - 2, b"abc=")
            bad_part = line + b"\r\nabc\r\n"
            if total < MAXLINE:
                kind = "long-line-ok"
        if kind == "long-line-ok":
            stream = pre + bad_part + b"0\r\n\r\n"
            exp = {"body": (pbody + b"abc").hex(), "end": "F:"}
        else:
            stream = pre + bad_part + tail
            exp = {"body": expb.hex(), "end": "E"}
        cl = [[]] + [_cuts(rng, stream, rng.randrange(1, 5)) for _ in range(3)]
        if len(stream) < 80:
            cl += [_bytewise(stream)] + [[i] for i in range(1, len(stream))]
        out.append(_case(stream, cl, DEFAULT_MAX, "mut-" + kind, exp))
    return out


def _corruption_cases(rng, tier):
    """single-byte corruption at EVERY framing position of a valid stream (size digits, ';', extension bytes, both
    bytes of every CRLF: size-line, data-terminating, last-chunk, trailer lines, final), each replaced by every
    other byte class; delivered whole, at every 2-way cut and byte-wise; outcome decided by the reference decoder"""
    out = []
    bases = [
        # (pieces, is_framing)
        [(b"3", 1), (b"\r\n", 1), (b"abc", 0), (b"\r\n", 1), (b"0", 1), (b"\r\n", 1), (b"\r\n", 1), (b"Z", 0)],
        [(b"2;e", 1), (b"\r\n", 1), (b"\r\n", 0), (b"\r\n", 1), (b"1", 1), (b"\r\n", 1), (b"q", 0), (b"\r\n", 1),
         (b"00", 1), (b"\r\n", 1), (b"T:v", 1), (b"\r\n", 1), (b"\r\n", 1), (b"0\r\n\r\n", 0)],
    ]
    bases.append([(b"1", 1), (b"\r\n", 1), (b"q", 0), (b"\r\n", 1), (b"0;x=y", 1), (b"\r\n", 1), (b"\r\n", 1)])
    classes = [13, 10, 32, 9, ord("0"), ord("a"), ord(";"), 0, 255, ord("X")]
    for pieces in bases:
        stream = b"".join(p for p, _ in pieces)
        pos, framing = 0, []
        for p, f in pieces:
            if f:
                framing += list(range(pos, pos + len(p)))
            pos += len(p)
        for i in framing:
            for r in classes:
                if r == stream[i] or (tier == "quick" and stream[i] not in (13, 10) and r in (9, ord("a"), 255)):
                    continue
                s2 = stream[:i] + bytes([r]) + stream[i + 1:]
                cl = [[]] + [[j] for j in range(1, len(s2))] + [_bytewise(s2)]
                maxtr = DEFAULT_MAX
                out.append(_case(s2, cl, maxtr, "corrupt-crlf" if stream[i] in (13, 10) else "corrupt-framing", None))
    return out


def _ext_sweep_cases(tier):
    """every byte value inside a chunk extension, on an ordinary chunk and on the terminating chunk"""
    out = []
    special = [0, 1, 8, 9, 10, 11, 12, 13, 31, 32, 34, 59, 61, 92, 127, 128, 255]
    for b in range(256):
        e = b"a" + bytes([b]) + b"b"
        streams = [b"1\r\nz\r\n0;" + e + b"\r\n\r\nX"]
        if tier != "quick" or b in special:
            streams += [b"1;" + e + b"\r\nz\r\n0\r\n\r\n", b"00;" + bytes([b]) + b"\r\nT: v\r\n\r\n", b"0;" + bytes([b]) + b"\r\n\r\n"]
        for s2 in streams:
            out.append(_case(s2, [[], _bytewise(s2), [len(s2) // 2]], DEFAULT_MAX, "ext-sweep", None))
    return out


def _soup_cases(rng, n):
    out = []
    for _ in range(n):
        alpha = rng.choice([b"0123af;\r\n\r\n x", b"012\r\n", b"1\r\na0;="])
        stream = _rand_bytes(rng, rng.randrange(0, 24), alpha)
        if rng.random() < 0.5:
            stream = rng.choice([b"1\r\na\r\n", b"0\r\n", b"2;x\r\nab\r\n0\r\n"]) + stream
        maxtr = rng.choice([DEFAULT_MAX, 3, 6, 9])
        cl = [[], _cuts(rng, stream, rng.randrange(1, 5)), _bytewise(stream) + [len(stream)]]
        cl += [[i] for i in range(1, len(stream))]
        out.append(_case(stream, cl, maxtr, "soup", None))
    return out


def gen(rng, tier):
    q = tier == "quick"
    cases = []
    cases += _valid_cases(rng, 60 if q else 600, 60 if q else 120)
    cases += _valid_cases(rng, 4 if q else 60, 0, big=True)
    cases += _limit_cases(rng, 6 if q else 80)
    cases += _mutation_cases(rng, 120 if q else 1500)
    cases += _corruption_cases(rng, tier)
    cases += _ext_sweep_cases(tier)
    cases += _soup_cases(rng, 400 if q else 5000)
    for _ in range(40 if q else 300):
        n = rng.choice([0, 1, 9, 10, 15, 16, 17, 255, 256, 257, 4095, 4096]) if rng.random() < 0.7 else rng.randrange(0, 70000)
        if n > 3000 and (q or rng.random() < 0.97):
            n = n % 3000
        cases.append({"k": "enc", "data": (_rand_bytes(rng, min(n, 40), b"ab\r\n") + b"z" * max(0, n - 40)).hex()})
    if not q:
        # the real limit: trailer section of 65534..65538 bytes, final CRLF whole and split
        for total in (65534, 65535, 65536, 65537, 65538):
            line = b"T: " + b"v" * (total - 2 - 3 - 2) + b"\r\n"
            stream = b"1\r\nz\r\n0\r\n" + line + b"\r\n"
            exp = {"body": b"z".hex(), "end": "F:" if total <= DEFAULT_MAX else "E"}
            n = len(stream)
            cases.append(_case(stream, [[], [n - 1], [n - 2], [n - 3, n - 1]], DEFAULT_MAX, "real-limit", exp))
    return cases


def _parts_case(parts, maxtr, cls, exp=None, also_whole=True):
    stream = b"".join(parts)
    cuts, pos = [], 0
    for x in parts[:-1]:
        pos += len(x)
        cuts.append(pos)
    return _case(stream, ([[]] if also_whole else []) + [cuts], maxtr, cls, exp)


def corpus():
    out = []
    # DESIGN.md section 6, F5: trailers totalling limit-1 / limit bytes (without the final CRLF):
    # accepted whole, rejected when the final CRLF is split -- with a lowered limit ...
    for tl in (b"abcdefg\r\n", b"abcdefgh\r\n"):
        stream = b"0\r\n" + tl + b"\r\n"
        exp = {"body": "", "end": "E"}        # 9+2, 10+2 > 10 once the terminator is counted
        out.append(_case(stream, [[], [len(stream) - 1]], 10, "F5", exp))
    out.append(_parts_case([b"0\r\nabcdef\r\n\r", b"\n"], 10, "F5-below-limit", {"body": "", "end": "F:"}))
    # ... and at the real limit (65535 / 65536 bytes of trailer lines)
    for n in (65535, 65536):
        stream = b"0\r\n" + b"a" * (n - 2) + b"\r\n" + b"\r\n"
        out.append(_case(stream, [[], [len(stream) - 1]], DEFAULT_MAX, "F5-real", {"body": "", "end": "E"}))
    stream = b"0\r\n" + b"a" * (65534 - 2) + b"\r\n" + b"\r\n"
    out.append(_case(stream, [[], [len(stream) - 1]], DEFAULT_MAX, "real-limit-ok", {"body": "", "end": "F:"}))
    # test-suite classics
    out.append(_parts_case([b"3\r\nabc\r\n5\r\n12345\r\n",
                            b"a\r\n0123456789\r\n0\r\nServer-Timing: total;dur=123.4\r\n\r\n"],
                           DEFAULT_MAX, "valid", {"body": b"abc123450123456789".hex(), "end": "F:"}))
    out.append(_parts_case([b"0\r\n\r"], DEFAULT_MAX, "truncated", {"body": "", "end": "N"}))
    out.append(_parts_case([b"3\r\nabc\r\n0\r\n01234567", b"\r", b"A"], 10, "mut-trailer-too-long",
                           {"body": b"abc".hex(), "end": "E"}))
    out.append(_parts_case([b"3; x=\x00\r\nabc\r\n"], DEFAULT_MAX, "mut-bad-ext", {"body": "", "end": "E"}))
    out.append(_parts_case([b"0x3\r\nabc\r\n"], DEFAULT_MAX, "mut-nonhex", {"body": "", "end": "E"}))
    out.append(_parts_case([b"-3\r\nabc\r\n"], DEFAULT_MAX, "mut-nonhex", {"body": "", "end": "E"}))
    out.append(_parts_case([b"3\r\nabc!!!!"], DEFAULT_MAX, "mut-no-crlf", {"body": b"abc".hex(), "end": "E"}))
    # CR followed by a non-LF byte after chunk data, the rest well-formed (seeded change C22-E)
    out.append(_case(b"3\r\nabc\rX0\r\n\r\n", [[], [8], [9], list(range(1, 15))], DEFAULT_MAX, "corrupt-crlf",
                     {"body": b"abc".hex(), "end": "E"}))
    out.append(_parts_case([b"3" + b"0" * 1021 + b"\r", b"\n"], DEFAULT_MAX, "mut-long-line-ok", None))
    out.append(_parts_case([b"3" + b"0" * 1022 + b"\r", b"\n"], DEFAULT_MAX, "mut-long-line", None))
    out.append({"k": "enc", "data": ""})
    out.append({"k": "enc", "data": b"Ffasfas\r\n".hex()})
    return out


# ------------------------------------------------------------------------------------------


def coq_bytes_fast(b: bytes) -> str:
    """bytes -> Coq [list N] written with the named byte constants x00..xff of coq/C22/Run.v (a
    numeral costs milliseconds to elaborate, a constant microseconds); long runs of one byte are
    written with List.repeat"""
    if not b:
        return "(@nil N)"
    lit = lambda x: "[" + ";".join(f"x{v:02x}" for v in x) + "]"
    if len(b) < 256:
        return lit(b)
    segs, i, cur = [], 0, bytearray()
    while i < len(b):
        j = i
        while j < len(b) and b[j] == b[i]:
            j += 1
        if j - i >= 64:
            if cur:
                segs.append(lit(cur))
                cur = bytearray()
            segs.append(f"(List.repeat x{b[i]:02x} (N.to_nat {j - i}%N))")
        else:
            cur += b[i:j]
        i = j
    if cur:
        segs.append(lit(cur))
    return "(" + " ++ ".join(segs) + ")"


def to_coq(case):
    if case["k"] == "enc":
        return f"CEnc {coq_bytes_fast(bytes.fromhex(case['data']))}"
    cuts = coq_list((coq_list((f"{c}%N" for c in cl), "N") for cl in case["cuts"]), "(list N)")
    return f"CDec {case['max']}%N {coq_bytes_fast(bytes.fromhex(case['stream']))} {cuts}"


def shrink(case):
    if case["k"] != "dec":
        return
    base = {**case, "exp": None, "cls": "shrunk"}
    if len(case["cuts"]) > 1:
        for cl in case["cuts"]:
            yield {**base, "cuts": [[], cl] if cl else [[]]}
        return
    stream = bytes.fromhex(case["stream"])
    for cl in case["cuts"]:
        for i in range(len(cl)):
            yield {**base, "cuts": [[], cl[:i] + cl[i + 1:]]}
    for j in range(len(stream)):
        yield {**base, "stream": (stream[:j] + stream[j + 1:]).hex(),
               "cuts": [[c - (1 if c > j else 0) for c in cl] for cl in case["cuts"]]}


def histogram(case, obs):
    if case["k"] == "enc":
        return "toChunk"
    ends = sorted({r.partition("|")[2][:1] for r in obs.split("/") if r != "="})
    return case["cls"] + " -> " + "".join(ends)


SPEC = Spec(
    pid="C22",
    gen=gen, impl=impl, oracle=oracle, corpus=corpus, shrink=shrink,
    coq_header="From C22 Require Import Gen Model Run.",
    coq_fn="run_show",
    to_coq=to_coq,
    regen=lambda: tr.regen(REPO, COQ),
    nontrivial=lambda c, o: c["k"] == "dec" and len(c["stream"]) > 8,
    histogram=histogram,
    case_timeout=20.0,
    rule="valid encodings (0-4 chunks, mixed-case / zero-padded sizes, extensions, 0-3 trailer lines, extra bytes; "
         "trailer limit at the stream's own trailer size +0..+5 or the default) delivered whole, at EVERY 2-way split "
         "(streams <= 60 B quick / 120 B thorough), byte-wise and at random multi-splits; every proper prefix "
         "(truncation); trailer sections at limit-3..+3 for lowered limits with the split at every offset (thorough: "
         "also the real 65536 limit); mutations (non-hex size, empty size, chunk not followed by CRLF, disallowed "
         "extension byte, size line of 1022-1030 bytes); single-byte corruption of EVERY framing byte of two valid streams "
         "(size digits, ';', extension, both bytes of every CRLF incl. trailer and final CRLF) by each of 10 byte classes, "
         "at every 2-way cut and byte-wise, judged by the reference decoder; random byte soup over the grammar's alphabet; toChunk on "
         "lengths around powers of 16.  non-trivial = decoder case with a stream of > 4 bytes; distinct by "
         "(case, observation)",
    trusted=["hand-written model coq/C22/Model.v of _ChunkedTransferDecoder (tied by this correspondence run); "
             "coq/C22/Gen.v byte tables and limits regenerated from the source by translate/c22.py",
             "int(b, 16) on hex digits = Model.hexval; bytearray.find / slicing = Model.find_crlf_from / firstn / skipn "
             "(validated by the correspondence run)",
             "the decoder is never fed after it raised or after the finish callback (what HTTPChannel and "
             "HTTPClientParser do); _trailerHeaders (private, unobservable through the callbacks) is not modelled",
             "_maxTrailerHeadersSize lowered through the instance attribute, as the test-suite does"],
    assumptions=["callbacks do not re-enter the decoder", "the model is the decoder with "
                 "fixes/C22-trailer-terminator-counted.patch applied (finding F5)"],
)
