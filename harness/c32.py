"""C32 — DNS messages round-trip through the wire format: H-tie (model coq/Lib/WireDns.v, theorems
coq/C32).  The model is the REPAIRED Name.encode (fixes/C32-name-encode-limits.patch)."""
from __future__ import annotations

import json
import os

from harness import common
from harness import wire_dns as W
from harness.common import VERIF, Failure, Spec

# work-around (harness/common.py is not ours to change): DNS case terms are large, so evaluate the model
# in smaller shards than run_spec's default of 400 to use all VERIF_JOBS workers
if not getattr(common.coq_eval, "_wire_dns_sharded", False):
    _orig_coq_eval = common.coq_eval

    def _coq_eval(pid, header, fn, terms, shard=400, **kw):
        if pid in ("C32", "C33"):
            shard = max(25, min(120, (len(terms) + 2 * common.NPROC - 1) // (2 * common.NPROC)))
        return _orig_coq_eval(pid, header, fn, terms, shard=shard, **kw)

    _coq_eval._wire_dns_sharded = True
    common.coq_eval = _coq_eval

# ---------------------------------------------------------------------------------------------
# implementation driver


def impl(case) -> str:
    from twisted.names import dns
    k = case["kind"]
    if k == "msg":
        try:
            m = W.make_message(dns, case)
            data = m.toStr()
        except Exception as e:      # the classes are the observation; the oracle judges them
            return W.exn(e)
        m2 = dns.Message()
        try:
            m2.fromStr(data)
        except Exception as e:
            return data.hex() + "|" + W.exn(e)
        return data.hex() + "|" + W.show_message_py(m2)
    if k == "edns":
        m = W.make_message(dns, case, factory=lambda **kw: dns._EDNSMessage(
            ednsVersion=case["edns"]["version"], dnssecOK=case["edns"]["do"], **kw))
        m.rCode = case["edns"]["rCode"]
        orig_trunc = m.trunc
        data = m.toStr()
        m2 = dns._EDNSMessage()
        m2.fromStr(data)
        m.trunc = orig_trunc                 # toStr marks the message object itself when it truncates
        same = (m2 == m) and m2.rCode == m.rCode and m2.ednsVersion == m.ednsVersion and m2.dnssecOK == m.dnssecOK \
            and m2.maxSize == m.maxSize and m2.queries == m.queries and m2.answers == m.answers \
            and m2.additional == m.additional
        n2 = len(m2.queries) + len(m2.answers) + len(m2.authority) + len(m2.additional)
        return f"{data.hex()}|tc={int(m2.trunc)}|n={n2}|" + ("same" if same else "differs")
    raise ValueError(k)


# ---------------------------------------------------------------------------------------------
# oracle


def _names(case):
    for n, _, _ in case["q"]:
        yield n
    for sec in ("an", "ns", "ar"):
        for r in case[sec]:
            yield r["n"]
            for v in r["d"]:
                if "n" in v:
                    yield v["n"]
                if "a6" in v and v["a6"][0]:
                    yield v["a6"][2]


def _fields_in_range(case) -> bool:
    h = case["hdr"]
    if not (0 <= h["id"] < 65536):
        return False
    for _, t, c in case["q"]:
        if not (0 <= t < 65536 and 0 <= c < 65536):
            return False
    for sec in ("an", "ns", "ar"):
        for r in case[sec]:
            if not (0 <= r["t"] < 65536 and 0 <= r["c"] < 65536 and 0 <= r["ttl"] < 2 ** 32):
                return False
            if not r.get("ok", True):
                return False
    return True


def _flat(case):
    return [("q", x) for x in case["q"]] + [(s, r) for s in ("an", "ns", "ar") for r in case[s]]


def oracle(case, obs):
    k = case["kind"]
    if k == "edns":
        enc, tc, n2, verdict = obs.split("|")
        size, tc, n2 = len(enc) // 2, int(tc[3:]), int(n2[2:])
        mx = case["maxSize"]
        n_orig = len(case["q"]) + len(case["an"]) + len(case["ns"]) + len(case["ar"])
        full = impl({**case, "maxSize": 0})
        full_len = len(full.split("|")[0]) // 2
        if mx == 0 or full_len <= mx:
            # no limit, or it fits: never truncated, full round trip (version / DO / payload size / 12-bit rCode / records)
            if verdict != "same" or tc != 0:
                tag = ("edns-unlimited-truncated" if mx == 0 else
                       "edns-truncated-at-512" if size == 512 and mx > 512 else "edns-roundtrip")
                return Failure(case, f"EDNS message of {full_len} bytes with maxSize {mx} does not round-trip: {size} bytes "
                                     f"on the wire, TC={tc}, {n2} of {n_orig} records", tag)
            return None
        # larger than its limit: within the limit, TC set, records dropped
        if size > mx:
            return Failure(case, f"EDNS message encoded in {size} bytes for maxSize {mx}", "edns-over-limit")
        if tc != 1 or n2 >= n_orig + 1:
            return Failure(case, f"EDNS message of {full_len} bytes cut to {size} (maxSize {mx}) without the TC flag "
                                 f"(TC={tc}, {n2} of {n_orig} records)", "edns-truncation-flag")
        return None
    names = list(_names(case))
    long_label = any(len(l) // 2 > 63 for n in names for l in n)
    long_name = any(W.wire_len(n) > 255 for n in names)
    if long_label or long_name:
        if obs != "E:ValueError":
            what = "a label longer than 63 bytes" if long_label else "a name longer than 255 bytes on the wire"
            return Failure(case, f"{what} was not refused when encoding: {obs[:60]}",
                           "label-over-63-not-refused" if long_label else "name-over-255-not-refused")
        return None
    if not _fields_in_range(case):
        return None                     # outside the property's hypothesis; model comparison only
    if obs.startswith("E:"):
        return Failure(case, f"a representable message was refused: {obs}", "encode-refused")
    enc, dec = obs.split("|")
    data = bytes.fromhex(enc)
    mx = case["maxSize"]
    want_full = W.show_message_case(case)
    try:
        indep = W.rfc_decode(data)
    except (W.Malformed, W.Short) as e:
        indep = "MALFORMED:" + str(e)
    big = len(data) > 16384
    full_len = len(data)
    if mx:
        full = impl({**case, "maxSize": 0})
        full_len = len(full.split("|")[0]) // 2 if not full.startswith("E:") else len(data)
    if mx == 0 or full_len <= mx:
        if dec.startswith("E:"):
            return Failure(case, f"decoding the message's own encoding raised {dec[2:]}",
                           "compression-offset-over-16k" if big else "decode-raised-" + dec[2:])
        if dec != want_full:
            sec = _first_diff_section(dec, want_full)
            return Failure(case, f"decoded message differs from the encoded one in {sec}",
                           "compression-offset-over-16k" if big else "roundtrip-" + sec)
        if indep != want_full:
            return Failure(case, f"an independent RFC 1035 decoder reads something else: {indep[:120]}",
                           "compression-offset-over-16k" if big else "independent-decoder")
        return None
    # truncated: within the limit, flag set, a prefix of the records
    if len(data) > mx:
        return Failure(case, f"encoded {len(data)} bytes for maxSize {mx}", "truncation-size")
    flat = _flat(case)
    for n_keep in range(len(flat), -1, -1):
        secs = {"q": [], "an": [], "ns": [], "ar": []}
        for s, x in flat[:n_keep]:
            secs[s].append(x)
        if W.show_message_case(case, trunc=1, sections=secs) == dec:
            if indep != dec:
                return Failure(case, f"independent decoder disagrees on the truncated message: {indep[:120]}",
                               "independent-decoder-truncated")
            return None
    if dec.startswith("E:"):
        return Failure(case, f"decoding the truncated message raised {dec}", "truncation-exception")
    return Failure(case, "truncated message does not decode to a flagged prefix of the records", "truncation-prefix")


def _first_diff_section(a, b):
    pa, pb = a.split(" "), b.split(" ")
    if pa[0] != pb[0]:
        return "header"
    for tag in ("Q[", "AN[", "NS[", "AR["):
        ia = a.find(" " + tag)
        ib = b.find(" " + tag)
        ea = a.find("]", ia)
        eb = b.find("]", ib)
        if a[ia:ea] != b[ib:eb]:
            return tag[:-1]
    return "?"


# ---------------------------------------------------------------------------------------------
# generators

def hx(b: bytes) -> str:
    return b.hex()


BASES = [[], [b"com"], [b"example", b"com"], [b"Example", b"COM"], [b"example", b"org"], [b"a", b"b", b"c"],
         [b"b", b"c"], [b"x" * 63, b"y" * 63], [b"in-addr", b"arpa"], [b"\x00\xff.", b"\xc0"][:1]]
BASES[-1] = [b"\x00\xff", b"\xc0\x0c"]          # labels whose bytes look like wire syntax
WORDS = [b"www", b"mail", b"ns1", b"a", b"b", b"example", b"com", b"_sip", b"_tcp", b"WWW", b"x" * 62, b"x" * 63,
         b"\x07", b"\xc0"]


def gen_name(rng, invalid=None):
    base = list(rng.choice(BASES))
    pre = [rng.choice(WORDS) for _ in range(rng.choice([0, 0, 1, 1, 2, 3]))]
    labels = pre + base
    if invalid == "label":
        labels.insert(rng.randrange(len(labels) + 1), b"L" * rng.choice([64, 65, 100, 191, 192, 193, 255, 256, 300]))
    elif invalid == "name":
        labels = [b"n" * 63, b"m" * 63, b"o" * 63] + [b"p" * rng.choice([62, 63])] + rng.choice([[], [b"q"]])
        if W.wire_len([hx(l) for l in labels]) <= 255:
            labels.append(b"zz")
    elif invalid == "edge":           # exactly 254 / 255 bytes on the wire
        labels = [b"n" * 63, b"m" * 63, b"o" * 63, b"p" * rng.choice([60, 61])]
    while W.wire_len([hx(l) for l in labels]) > 255 and invalid not in ("name", "label"):
        labels.pop(0)
    return [hx(l) for l in labels]


def _rb(rng, n):
    return bytes(rng.getrandbits(8) for _ in range(n))


def _u(rng, k):
    m = 256 ** k
    return rng.choice([0, 1, m - 1, m - 2, m // 2, rng.randrange(m)])


def gen_field(rng, f, inv):
    if f == "n":
        return {"n": gen_name(rng, inv())}
    if f[0] == "b":
        return {"b": hx(_rb(rng, int(f[1:])))}
    if f[0] == "u":
        return {"u": _u(rng, int(f[1:]))}
    if f[0] == "s":
        return {"s": rng.choice([0, -1, 1, 2 ** 31 - 1, -2 ** 31, rng.randrange(-2 ** 31, 2 ** 31)])}
    if f == "c":
        return {"b": hx(_rb(rng, rng.choice([0, 1, 5, 255])))}
    if f == "L":
        return {"b": hx(_rb(rng, rng.choice([0, 1, 16, 32])))}
    if f == "t":
        return {"l": [hx(_rb(rng, rng.choice([0, 1, 12, 255]))) for _ in range(rng.choice([0, 1, 1, 2, 3]))]}
    if f == "r":
        return {"b": hx(_rb(rng, rng.choice([0, 1, 7, 40])))}
    raise ValueError(f)


TYPES = sorted(W.RFC_SCHEMA) + [38, 41, 65280, 0]


def gen_rr(rng, inv):
    t = rng.choice(TYPES)
    ttl = rng.choice([0, 1, 3600, 2 ** 31, 2 ** 32 - 1, rng.randrange(2 ** 32)])
    if t == 38:
        plen = rng.choice([0, 1, 8, 64, 127, 128])
        nb = (128 - plen) // 8
        suffix = b"\0" * (16 - nb) + _rb(rng, nb)
        data = [{"a6": [plen, hx(suffix), gen_name(rng, inv()) if plen else []]}]
    else:
        data = [gen_field(rng, f, inv) for f in W.RFC_SCHEMA.get(t, "r").split()]
    return {"n": gen_name(rng, inv()), "t": t, "c": rng.choice([1, 1, 3, 255, 65535]), "ttl": ttl, "d": data}


def gen_message(rng, size="small", invalid=None):
    budget = [1] if invalid else [0]

    def inv():
        if budget[0] and rng.random() < 0.3:
            budget[0] = 0
            return invalid
        return None

    h = {"id": rng.choice([0, 1, 65535, rng.randrange(65536)]), "answer": rng.randrange(2), "opCode": rng.randrange(16),
         "auth": rng.randrange(2), "trunc": rng.choice([0, 0, 0, 1]), "recDes": rng.randrange(2),
         "recAv": rng.randrange(2), "authenticData": rng.randrange(2), "checkingDisabled": rng.randrange(2),
         "rCode": rng.randrange(16)}
    nmax = {"tiny": 1, "small": 3, "medium": 8}[size]
    case = {"kind": "msg", "hdr": h,
            "q": [[gen_name(rng, inv()), rng.choice([1, 2, 15, 16, 28, 255]), rng.choice([1, 255])]
                  for _ in range(rng.choice([0, 1, 1, 1, 2]))],
            "an": [gen_rr(rng, inv) for _ in range(rng.randrange(nmax + 1))],
            "ns": [gen_rr(rng, inv) for _ in range(rng.randrange(nmax + 1))],
            "ar": [gen_rr(rng, inv) for _ in range(rng.randrange(nmax + 1))],
            "maxSize": 0}
    if invalid and budget[0]:         # make sure the defect is really in
        case["q"].append([gen_name(rng, invalid), 1, 1])
    return case


def _encoded_len(case):
    """size of the untruncated encoding, by the independent reference (names uncompressed: upper bound)"""
    n = 12
    for q in case["q"]:
        n += W.wire_len(q[0]) + 4
    for s in ("an", "ns", "ar"):
        for r in case[s]:
            n += W.wire_len(r["n"]) + 10 + 600
    return n


def big_message(rng, n_fill, late):
    """> 16 KiB: the names in `late` first occur beyond offset 16383 and are then repeated"""
    case = gen_message(rng, "tiny")
    case["maxSize"] = 0
    case["an"] = [{"n": [hx(b"fill")], "t": 16, "c": 1, "ttl": 1, "d": [{"l": [hx(b"x" * 250)]}]} for _ in range(n_fill)]
    case["ns"] = []
    case["ar"] = [{"n": late, "t": 1, "c": 1, "ttl": 5, "d": [{"b": "01020304"}]},
                  {"n": late, "t": 1, "c": 1, "ttl": 6, "d": [{"b": "01020305"}]},
                  {"n": [hx(b"www")] + late, "t": 5, "c": 1, "ttl": 7, "d": [{"n": late}]}]
    return case


def offset_message(target, late):
    """the owner name `late` is first written exactly at message offset `target` (>= 16300) and then repeated:
    62 root-owned TXT records of 262 bytes (12 + 62*262 = 16256) and one more sized to land on the target"""
    pad = target - 16256 - 12
    assert 0 <= pad <= 255
    txt = lambda n: {"n": [], "t": 16, "c": 1, "ttl": 1, "d": [{"l": [hx(b"x" * n)]}]}
    hdr = {"id": 7, "answer": 1, "opCode": 0, "auth": 1, "trunc": 0, "recDes": 0, "recAv": 0, "authenticData": 0,
           "checkingDisabled": 0, "rCode": 0}
    return {"kind": "msg", "hdr": hdr, "q": [], "an": [txt(250) for _ in range(62)] + [txt(pad)], "ns": [],
            "ar": [{"n": late, "t": 1, "c": 1, "ttl": 5, "d": [{"b": "01020304"}]},
                   {"n": late, "t": 1, "c": 1, "ttl": 6, "d": [{"b": "01020305"}]},
                   {"n": [hx(b"www")] + late, "t": 5, "c": 1, "ttl": 7, "d": [{"n": late}]}],
            "maxSize": 0, "model": True}


def _fillers(total):
    """root-owned TXT records whose encodings add up to exactly `total` bytes (each is 12 + n bytes, n <= 250)"""
    out = []
    while total > 0:
        size = min(262, total)
        if 0 < total - size < 12:
            size -= 12
        assert size >= 12, total
        out.append({"n": [], "t": 16, "c": 1, "ttl": 1, "d": [{"l": [hx(b"x" * (size - 12))]}]})
        total -= size
    return out


def straddle_message(start, labels, model=False):
    """a multi-label owner name written at message offset `start` (around 0x4000, so that some of its suffixes
    lie below and some at or beyond the 14-bit pointer limit), followed by records whose names reuse EVERY suffix
    of it (as owner, as owner with one more label, and inside the rdata)"""
    hdr = {"id": 9, "answer": 1, "opCode": 0, "auth": 0, "trunc": 0, "recDes": 1, "recAv": 1, "authenticData": 0,
           "checkingDisabled": 0, "rCode": 0}
    ar = [{"n": labels, "t": 1, "c": 1, "ttl": 5, "d": [{"b": "0a000001"}]}]
    for i in range(len(labels) - 1, 0, -1):
        suf = labels[i:]
        ar.append({"n": suf, "t": 1, "c": 1, "ttl": 6, "d": [{"b": "0a000002"}]})
        ar.append({"n": [hx(b"w%d" % i)] + suf, "t": 15, "c": 1, "ttl": 7, "d": [{"u": i}, {"n": suf}]})
    ar.append({"n": labels, "t": 2, "c": 1, "ttl": 8, "d": [{"n": [hx(b"ns")] + labels}]})
    c = {"kind": "msg", "hdr": hdr, "q": [], "an": _fillers(start - 12), "ns": [], "ar": ar, "maxSize": 0}
    if model:
        c["model"] = True
    return c


def straddle_family(rng, n_names, per_boundary=(-1, 0, 1)):
    """for each name: placements that put offset 0x4000 just before / at / just after the start of every label,
    in the middle of the first label, and a few random ones in 0x4000 +- 150"""
    out = []
    for _ in range(n_names):
        k = rng.choice([3, 4, 5])
        labels = [hx(bytes([97 + j]) * rng.choice([1, 2, 7, 20, 37, 63][: 6 if j else 5])) for j in range(k)]
        offs, o = [], 0
        for l in labels:
            offs.append(o)
            o += len(l) // 2 + 1
        starts = set()
        for o_i in offs:
            for dlt in per_boundary:
                starts.add(0x4000 - o_i + dlt)
        starts.add(0x4000 - (len(labels[0]) // 4 + 1))
        for _ in range(3):
            starts.add(0x4000 + rng.randrange(-150, 151))
        for st in sorted(starts):
            out.append(straddle_message(st, labels))
    return out


def chain_message(depth, rng=None):
    """names x, l1.x, l2.l1.x, ...: each record's owner is the previous one with one more leading label, so the
    encoder writes one label and a pointer to the previous name - reading the last name follows `depth` pointers"""
    hdr = {"id": 11, "answer": 1, "opCode": 0, "auth": 1, "trunc": 0, "recDes": 0, "recAv": 0, "authenticData": 0,
           "checkingDisabled": 0, "rCode": 0}
    name = [hx(b"x")]
    an = []
    for i in range(depth + 1):
        an.append({"n": list(name), "t": 1, "c": 1, "ttl": i, "d": [{"b": "0a0000%02x" % (i & 255)}]})
        lab = b"l%d" % i if rng is None else bytes([97 + rng.randrange(26)]) * rng.choice([1, 2, 3])
        name = [hx(lab)] + name
    an.append({"n": [hx(b"www")] + name[1:], "t": 5, "c": 1, "ttl": 1, "d": [{"n": name[1:]}]})
    # (no question with the deep name: written first it would register every suffix and flatten the chain)
    return {"kind": "msg", "hdr": hdr, "q": [[[hx(b"x")], 1, 1]], "an": an, "ns": [], "ar": [], "maxSize": 0, "model": True}


def long_shared_message(rng, k=None):
    """an over-long name P.S (> 255 bytes on the wire) whose tail S is a legal name already written earlier in the
    message (so the encoder would compress it away), with P alone well within the limit: must be refused"""
    c = gen_message(rng, "tiny")
    S = rng.choice([[b"n" * 63, b"m" * 63, b"o" * 63], [b"s" * 63, b"t" * 63, b"u" * 40, b"v" * 20],
                    [b"a" * 50, b"b" * 50, b"c" * 50, b"d" * 38]])
    room = 255 - W.wire_len([hx(l) for l in S])
    k = k if k is not None else rng.choice([room, room + 1, room + 2, 63])       # label + length byte > room: too long
    P = [b"p" * min(63, max(1, k))] + ([b"q" * 30] if rng.random() < 0.3 else [])
    c["q"] = [[[hx(l) for l in S], 1, 1]]
    where = rng.choice(["an", "an", "ar", "rdata"])
    rr = {"n": [hx(l) for l in P + S], "t": 1, "c": 1, "ttl": 1, "d": [{"b": "01020304"}]}
    if where == "rdata":
        rr = {"n": [hx(b"ok")], "t": 2, "c": 1, "ttl": 1, "d": [{"n": [hx(l) for l in P + S]}]}
        where = "an"
    c[where] = [{"n": [hx(l) for l in S], "t": 1, "c": 1, "ttl": 2, "d": [{"b": "7f000001"}]}, rr]
    return c


def corpus():
    import random
    rng = random.Random(32)
    cs = []
    for n in (63, 64, 191, 192, 255, 256):                     # DESIGN.md section 6, F12
        c = gen_message(rng, "tiny")
        c["q"] = [[[hx(b"a" * n), hx(b"example")], 1, 1]]
        cs.append(c)
    for labels in ([b"n" * 63, b"m" * 63, b"o" * 63, b"p" * 61], [b"n" * 63, b"m" * 63, b"o" * 63, b"p" * 62],
                   [b"a" * 60] * 5):                           # 255 fits, 256 and 306 do not
        c = gen_message(rng, "tiny")
        c["q"] = [[[hx(l) for l in labels], 1, 1]]
        cs.append(c)
    for target in (16382, 16383, 16384, 16385):                # the 14-bit pointer boundary, exactly
        cs.append(offset_message(target, [hx(b"late"), hx(b"name"), hx(b"test")]))
    c = gen_message(rng, "tiny")                               # records whose RDATA is legitimately empty (seeded C32-H)
    c["q"], c["ns"], c["ar"], c["maxSize"] = [[[hx(b"e"), hx(b"example")], 255, 1]], [], [], 0
    c["an"] = [{"n": [hx(b"e"), hx(b"example")], "t": t, "c": 1, "ttl": 9, "d": d}
               for t, d in ((10, [{"b": ""}]), (16, [{"l": []}]), (99, [{"l": []}]), (41, [{"b": ""}]), (65280, [{"b": ""}]),
                            (0, [{"b": ""}]), (16, [{"l": [""]}]), (1, [{"b": "01020304"}]))]
    cs.append(c)
    for depth in (16, 17, 18, 40):                             # pointer chains one hop per level (seeded C32-C)
        cs.append(chain_message(depth))
    for k in (61, 62, 63):                                     # 193 + k + 1 bytes: 255 fits, 256 / 257 do not (C32-D)
        cs.append(long_shared_message(random.Random(k), k))
    # a name straddling the 14-bit limit whose suffixes are reused later (seeded mutation C32-A)
    strad = [hx(b"a-rather-long-first-label"), hx(b"tail"), hx(b"zone"), hx(b"example")]
    cs.append(straddle_message(0x4000 - 10, strad, model=True))     # first label straddles: all suffixes beyond
    cs.append(straddle_message(0x4000 - 27, strad, model=True))     # second label starts at 0x3fff
    cs.append(straddle_message(0x4000 - 31, strad))                 # third label starts exactly at 0x4000
    cs.append(big_message(rng, 70, [hx(b"late"), hx(b"name"), hx(b"test")]))     # first seen at offset > 16383
    cs.append(big_message(rng, 60, [hx(b"late"), hx(b"name"), hx(b"test")]))     # first seen below 16384
    p = os.path.join(VERIF, "corpus/C32/seeds.json")
    if os.path.exists(p):
        cs += json.load(open(p))
    return cs


def gen(rng, tier):
    cases = []
    n = 250 if tier == "quick" else 5000
    for i in range(n):
        size = rng.choice(["tiny", "small", "small", "medium"])
        inv = None
        r = rng.random()
        if r < 0.06:
            inv = "label"
        elif r < 0.10:
            inv = "name"
        elif r < 0.16:
            inv = "edge"
        c = gen_message(rng, size, inv)
        cases.append(c)
        # the same message under size limits around its real size
        if inv is None and rng.random() < 0.5:
            for _ in range(rng.choice([1, 2])):
                c2 = json.loads(json.dumps(c))
                est = _encoded_len(c)
                c2["maxSize"] = rng.choice([12, 13, 17, 28, 40, 64, 100, 200, 512, 512, 4096, 65535,
                                            rng.randrange(12, max(13, min(est, 1500)))])
                cases.append(c2)
    # compression stress: many names sharing suffixes / differing in case only
    for i in range(n // 5):
        c = gen_message(rng, "tiny")
        base = rng.choice(BASES[1:7])
        c["q"] = [[[hx(l) for l in base], 1, 1]]
        c["an"] = []
        for j in range(rng.randrange(2, 9)):
            labels = [rng.choice(WORDS[:8]) for _ in range(rng.choice([0, 1, 1, 2]))] + list(base)
            if rng.random() < 0.2:
                labels = [l.swapcase() for l in labels]
            tgt = [rng.choice(WORDS[:8])] + list(base)
            c["an"].append({"n": [hx(l) for l in labels], "t": rng.choice([2, 5, 12, 15, 6, 33]), "c": 1, "ttl": j, "d": None})
            t = c["an"][-1]["t"]
            c["an"][-1]["d"] = [gen_field(rng, f, lambda: None) if f != "n" else {"n": [hx(l) for l in tgt]}
                                for f in W.RFC_SCHEMA[t].split()]
        c["ns"], c["ar"] = [], []
        cases.append(c)
    cases += straddle_family(rng, 1 if tier == "quick" else 12)
    for _ in range(3 if tier == "quick" else 60):
        cases.append(chain_message(rng.randrange(17, 41), rng))
    for _ in range(10 if tier == "quick" else 200):
        cases.append(long_shared_message(rng))
    if tier == "thorough":
        for k in (64, 65, 66, 67, 68):
            cases.append(big_message(rng, k, gen_name(rng) or [hx(b"z")]))
    # EDNS: every size limit with messages below it, above it, and above 512 bytes
    for mx in (0, 100, 300, 511, 512, 513, 1024, 4096) * (1 if tier == "quick" else 12):
        for fill in (0, 1, 3, 6):
            c = gen_message(rng, "tiny")
            c["kind"] = "edns"
            c["maxSize"] = mx
            c["hdr"]["trunc"] = 0
            c["an"] = c["an"][:1] + [{"n": [hx(b"fill"), hx(b"example")], "t": 16, "c": 1, "ttl": j,
                                      "d": [{"l": [hx(b"y" * rng.choice([150, 200, 250]))]}]} for j in range(fill)]
            c["edns"] = {"version": rng.choice([0, 0, 1]), "do": rng.choice([True, False]), "rCode": rng.choice([0, 3, 16, 4095])}
            c["ar"] = [r for r in c["ar"] if r["t"] != 41]
            if fill == 0:                     # a message that fits even the smallest limit (30 bytes with its OPT record)
                c["q"], c["an"], c["ns"], c["ar"] = [[[hx(b"a")], 1, 1]], [], [], []
            cases.append(c)
    for i in range(n // 10):
        c = gen_message(rng, "small")
        c["kind"] = "edns"
        c["maxSize"] = rng.choice([0, 512, 1232, 4096, 65535])
        c["hdr"]["trunc"] = 0
        c["edns"] = {"version": rng.choice([0, 0, 1, 255]), "do": rng.choice([True, False]),
                     "rCode": rng.choice([0, 3, 15, 16, 23, 4095])}
        c["ar"] = [r for r in c["ar"] if r["t"] != 41]
        cases.append(c)
    return cases


# ---------------------------------------------------------------------------------------------

def _size(case):
    return _encoded_len(case)


def to_coq(case):
    if case["kind"] != "msg":
        return None
    if len(json.dumps(case)) > 9000 and not case.get("model"):
        return None
    if 0 < case["maxSize"] < 12:
        return None
    return f"CMsg {W.coq_message(case)} {case['maxSize']}%N"


def hist(case, obs):
    if case["kind"] == "edns":
        return "edns"
    if obs.startswith("E:"):
        return "msg:refused:" + obs[2:]
    enc = obs.split("|")[0]
    mx = case["maxSize"]
    return "msg:" + ("truncated" if mx and len(enc) // 2 >= mx and "," in obs and obs.split("|")[1].split(",")[4] == "1"
                     and case["hdr"]["trunc"] == 0 else "whole") + (":>16k" if len(enc) > 32768 else "")


def describe(case):
    s = json.dumps(case)
    if len(s) > 1500:
        return {"kind": case["kind"], "maxSize": case["maxSize"], "q": case["q"][:2],
                "records": {k: len(case[k]) for k in ("an", "ns", "ar")}, "note": "large case abbreviated"}
    return case


def shrink(case):
    for sec in ("ar", "ns", "an", "q"):
        xs = case[sec]
        for i in range(len(xs)):
            yield {**case, sec: xs[:i] + xs[i + 1:]}
    if case["maxSize"]:
        yield {**case, "maxSize": 0}


SPEC = Spec(
    pid="C32",
    gen=gen,
    impl=impl,
    oracle=oracle,
    coq_header="From TwLib Require Import PyInt WireIter WireDns.\nFrom C32 Require Import Run.",
    coq_fn="run_show",
    to_coq=to_coq,
    corpus=corpus,
    shrink=shrink,
    histogram=hist,
    describe=describe,
    nontrivial=lambda c, o: bool(c["q"] or c["an"] or c["ns"] or c["ar"]),
    case_timeout=30.0,
    rule="random messages: 0-2 queries, 0-8 records per section over every Record_* class, UnknownRecord (types 41, "
         "65280, 0) and A6; names built from a small word pool on shared base suffixes (case variants, labels whose "
         "bytes look like wire syntax, 62/63-byte labels, names of exactly 254/255 wire bytes); field values at 0 / "
         "max / half range, ttl up to 2^32-1, TXT with 0-3 strings of 0-255 bytes; 6% carry a 64..300-byte label and "
         "4% a 256+-byte name (must be refused); each valid message also under 1-2 size limits (12, 13, 17, ... 512, "
         "65535, random below its size); compression-stress messages (2-8 records over one base suffix, targets "
         "sharing it, swapped case); > 16 KiB messages whose names first occur beyond offset 16383 (corpus + "
         "thorough); EDNS messages through _EDNSMessage with maxSize 0 / 100 / 300 / 511 / 512 / 513 / 1024 / "
         "4096 and 0, 1, 3 or 6 filler records (below the limit, above it, above 512 bytes): unlimited or fitting => full "
         "round trip and no TC; otherwise within the limit with TC set. non-trivial = at least one query or record",
    trusted=[
        "hand-written model coq/Lib/WireDns.v (tied only as far as the generated cases reach)",
        "the Python-side attribute table harness/wire_dns.py FIELDS (record class -> attributes) and the independent "
        "RFC decoder harness/wire_dns.py rfc_decode (written from RFC 1035/1183/2782/3403/3596/4255/2845/2874)",
        "coq/Lib/PyInt.v big-endian conversions = struct.pack/unpack of the unsigned formats",
        "_EDNSMessage / _OPTHeader: no Coq model beyond the OPT RR being an UnknownRecord; round-tripped on the code",
    ],
    assumptions=["records carry a payload whose TYPE matches the header and whose ttl equals the header's ttl",
                 "maxSize is 0 (no limit) or at least 12",
                 "labels are non-empty and contain no '.' byte (a Name is a dotted byte string)"],
)
