"""C48 — HTTP Digest credentials verify exactly the right responses (H-tie, coq/C48).

The model starts from the raw header bytes (splitlines/join, the _parseparts expression under
findall, strip, ASCII field names), so structured responses (serialised as key="value", ...), byte-level
mutations of raw responses and pure parser inputs are all compared with the model.  For the compared
cases md5/sha1 are replaced (module-attribute patching) by the transparent, injective "hash"
digest(x) = tag byte + x that coq/C48/Run.v also uses, so model and code are compared bit for bit.
The same cases are also run with the real MD5/SHA-1; those go through the property oracle only.
"""
from __future__ import annotations

import base64
import hashlib
from binascii import hexlify
from contextlib import contextmanager

from harness.common import Failure, Spec, coq_bytes, coq_list

LIFETIME = 900


class _Toy:
    tag = b"M"

    def __init__(self, data=b""):
        self.d = bytes(data)

    def update(self, x):
        self.d += bytes(x)       # TypeError for None, like hashlib

    def digest(self):
        return self.tag + self.d


class _ToyS(_Toy):
    tag = b"S"


def _hx(hashk, algo, data):
    """hexlified digest, independent of twisted (used by the generator and the oracle)"""
    if hashk == "toy":
        return hexlify((b"S" if algo == "sha" else b"M") + data)
    return hexlify((hashlib.sha1 if algo == "sha" else hashlib.md5)(data).digest())


@contextmanager
def _hashes(kind):
    import twisted.cred._digest as dg
    import twisted.cred.credentials as cr
    if kind != "toy":
        yield
        return
    old_md5, old_algs = cr.md5, dict(dg.algorithms)
    cr.md5 = _Toy
    dg.algorithms.update({b"md5": _Toy, b"md5-sess": _Toy, b"sha": _ToyS})
    try:
        yield
    finally:
        cr.md5 = old_md5
        dg.algorithms.clear()
        dg.algorithms.update(old_algs)


def _ser(fields):
    return b", ".join(bytes.fromhex(k) + b'="' + bytes.fromhex(v) + b'"' for k, v in fields)


def impl(case) -> str:
    from twisted.cred import error
    from twisted.cred.credentials import DigestCredentialFactory

    with _hashes(case["hash"]):
        f = DigestCredentialFactory(case.get("falgo", "md5").encode(), bytes.fromhex(case["realm"]))
        f.privateKey = bytes.fromhex(case["priv"])
        f._getTime = lambda: case["now"]
        if case["kind"] == "challenge":
            f._generateNonce = lambda: bytes.fromhex(case["nonce"])
            ch = f.getChallenge(bytes.fromhex(case["ip"]) if case["ip"] is not None else None)
            assert ch["nonce"] == bytes.fromhex(case["nonce"])
            return ch["opaque"].hex()
        if case["kind"] == "session":
            # ONE factory, several decode() calls, the clock moving in between
            clock = [0]
            f._getTime = lambda: clock[0]
            outs = []
            for now, raw, host, _expect in case["steps"]:
                clock[0] = now
                try:
                    creds = f.decode(bytes.fromhex(raw), bytes.fromhex(case["method"]), bytes.fromhex(host))
                except error.LoginFailed:
                    outs.append("LF")
                    continue
                o = ""
                for pw in case["pws"]:
                    r = creds.checkPassword(bytes.fromhex(pw))
                    o += "T" if r is True else ("F" if r is False else "?")
                outs.append(o + "|" + ";".join(k.encode("ascii").hex() + "=" + v.hex() for k, v in creds.fields.items()))
            return "/".join(outs)
        if case["kind"] == "parse":
            # the first lines of decode(): splitlines/join, _parseparts.findall, strip (class attribute of the factory)
            raw = b" ".join(bytes.fromhex(case["raw"]).splitlines())
            out = []
            for key, a, b in f._parseparts.findall(raw):
                out.append(key.strip().hex() + "=" + (b or a).strip().hex())
            return ";".join(out)
        resp = bytes.fromhex(case["raw"]) if "raw" in case else _ser(case["fields"])
        try:
            creds = f.decode(resp, bytes.fromhex(case["method"]), bytes.fromhex(case["host"]))
        except error.LoginFailed:
            return "LF"
        out = ""
        for pw in case["pws"]:
            r = creds.checkPassword(bytes.fromhex(pw))
            out += "T" if r is True else ("F" if r is False else "?")
        # the parsed fields are a public attribute of the credentials object
        return out + "|" + ";".join(k.encode("ascii").hex() + "=" + v.hex() for k, v in creds.fields.items())


# --------------------------------------------------------------------------------------
# oracle: expected outcome by construction of the case (no model involved)


def oracle(case, obs):
    if case["kind"] == "parse":
        return None
    if case["kind"] == "session":
        got = [x.split("|")[0] for x in obs.split("/")]
        for j, (st, g) in enumerate(zip(case["steps"], got)):
            now, _raw, host, want = st
            if g != want:
                kind = "accepted" if "T" in g and "T" not in want else "rejected" if want != "LF" and g == "LF" else "outcome"
                return Failure(case, f"step {j} of a session on one factory (clock {now}, issued {case['t0']}, from "
                                     f"{bytes.fromhex(host)!r}): outcome {g}, expected {want} -- every presentation of a response "
                                     f"is judged on its own (lifetime, address), whatever was verified before",
                               f"session-{kind}")
        if len(got) != len(case["steps"]):
            return Failure(case, "malformed observation", "log")
        return None
    if case["kind"] == "ctx":
        return _ctx_oracle(case, obs)
    obs = obs.split("|")[0]
    if case["kind"] == "challenge":
        op = bytes.fromhex(obs)
        parts = op.split(b"-")
        ip = bytes.fromhex(case["ip"]) if case["ip"] else b""
        key = b",".join((bytes.fromhex(case["nonce"]), ip, b"%d" % case["now"]))
        want = _hx(case["hash"], "md5", key + bytes.fromhex(case["priv"])) + b"-" + base64.b64encode(key)
        if op != want or len(parts) != 2:
            return Failure(case, f"opaque {op!r} is not MAC-base64(nonce,ip,time) = {want!r}", "challenge-opaque")
        return None
    if case["kind"] == "raw":
        if obs == "LF" or set(obs) <= {"F"}:
            return None
        if set(obs) <= {"T", "F"}:
            raw = bytes.fromhex(case["raw"])
            missing = [bytes.fromhex(e) for e in case["essential"] if bytes.fromhex(e) not in raw]
            if missing or obs != case["expect"]:
                return Failure(case, f"mutated response accepted ({obs}) although {missing or 'the password is wrong'} "
                                     f"was altered", "raw-accepted-altered")
            return None
        return Failure(case, f"unexpected outcome {obs}", "raw-outcome")
    if obs != case["expect"]:
        want, kind = case["expect"], case["kind"]
        if want == "LF":
            why, tag = "must be rejected with LoginFailed", "accepted-" + kind
        elif obs == "LF":
            why, tag = "must get past decode()", "rejected-" + kind
        elif "T" in want and "T" not in obs:
            why, tag = "the right password must be accepted", "rejected-" + kind
        else:
            why, tag = "a wrong password / altered response must not be accepted", "accepted-" + kind
        return Failure(case, f"{kind}: outcome {obs}, expected {want}: {why}", tag)
    return None


def _ctx_oracle(case, obs):
    """an honest response followed by extra key=value text: for well-formed extra text the login must still succeed and
    the credentials object must carry exactly those extra fields (later duplicates win)"""
    if "pairs" not in case:
        return None
    flags, _, dump = obs.partition("|")
    if flags != case["expect"]:
        return Failure(case, f"honest response followed by well-formed extra fields: outcome {obs[:40]}, expected {case['expect']}",
                       "ctx-outcome")
    got = dict(x.split("=") for x in dump.split(";") if x)
    want = {}
    for k, v in case["pairs"]:
        want[k] = v
    bad = {k: (got.get(k), v) for k, v in want.items() if got.get(k) != v}
    if bad:
        k, (g, w) = next(iter(bad.items()))
        return Failure(case, f"extra field {bytes.fromhex(k)!r} parsed as {None if g is None else bytes.fromhex(g)!r}, "
                             f"written as {bytes.fromhex(w)!r}", "field-parse")
    return None


# --------------------------------------------------------------------------------------
# generator


def _h(b):
    return bytes(b).hex()


def _response(hashk, algname, user, realm, pw, method, uri, nonce, nc, cnonce, qop):
    a = "sha" if algname.lower() == b"sha" else "md5"
    ha1 = _hx(hashk, a, user + b":" + realm + b":" + pw)
    if algname.lower() == b"md5-sess":
        ha1 = _hx(hashk, a, ha1 + b":" + nonce + b":" + (cnonce or b""))
    ha2 = _hx(hashk, a, method + b":" + uri)
    mid = (nc + b":" + cnonce + b":" + qop + b":") if (nc and cnonce) else b""
    return _hx(hashk, a, ha1 + b":" + nonce + b":" + mid + ha2)


def _opaque(hashk, priv, nonce, ip, tfield):
    key = b",".join((nonce, ip, tfield))
    return _hx(hashk, "md5", key + priv) + b"-" + base64.b64encode(key)


KINDS = ["honest", "time", "host", "nonce", "mac", "b64", "b64-neutral", "resigned", "drop", "empty-user", "dup-late",
         "dup-early", "algo-unknown", "auth-int", "sess-no-cnonce", "wrong-pw", "field-byte", "realm-field",
         "bad-b64", "opaque-shape"]


def _one(rng, hashk, kind):
    rb = lambda n: bytes(rng.randrange(256) for _ in range(n))
    word = lambda n: bytes(rng.choice(b"abcdefghijklmnopqrstuvwxyz0123456789") for _ in range(n))
    priv, realm, user, pw = rb(12), word(rng.randrange(1, 8)), word(rng.randrange(1, 6)), word(rng.randrange(0, 7))
    nonce = hexlify(rb(12))
    ip = rng.choice([b"10.0.0.1", b"192.168.1.77", b"::1", b""])
    t0 = rng.choice([0, 1, 999, 10 ** 9, rng.randrange(2 ** 31)])
    method, uri = rng.choice([b"GET", b"POST"]), b"/" + word(rng.randrange(0, 6))
    algname = rng.choice([b"md5", b"md5", b"MD5", b"sha", b"md5-sess", None])
    full = rng.random() < 0.7
    nc, cnonce, qop = (b"00000001", word(6), b"auth") if full else (None, None, None)
    if algname == b"md5-sess" and cnonce is None:
        cnonce, nc, qop = word(6), b"00000001", b"auth"
    now, host = t0 + rng.choice([0, 1, 60, 899, 900]), ip
    resp_pw = pw
    opaque = _opaque(hashk, priv, nonce, ip, b"%d" % t0)
    accept = True          # does the right password get accepted?
    lf = False
    extra_front, extra_back, drop = [], [], None
    req_nonce = nonce

    def fields():
        r = _response(hashk, algname or b"md5", user, realm, resp_pw, method, uri, req_nonce, nc, cnonce, qop or b"auth")
        fs = [[b"username", user], [b"realm", realm], [b"nonce", req_nonce], [b"uri", uri], [b"response", r],
              [b"opaque", opaque]]
        if algname is not None:
            fs.append([b"algorithm", algname])
        if full or cnonce:
            fs += [[b"qop", qop], [b"nc", nc], [b"cnonce", cnonce]]
        return fs

    if kind == "time":
        d = rng.choice([899, 900, 901, 902, 10 ** 6])
        now = t0 + d
        lf = d > LIFETIME
    elif kind == "host":
        host = rng.choice([x for x in [b"10.0.0.2", b"10.0.0.1", b"", b"10.0.0.10"] if x != ip])
        lf = True
    elif kind == "nonce":
        i = rng.randrange(len(nonce))
        req_nonce = nonce[:i] + bytes([nonce[i] ^ 1]) + nonce[i + 1:]
        lf = True
    elif kind == "mac":
        mac, ek = opaque.split(b"-")
        i = rng.randrange(len(mac))
        opaque = mac[:i] + (b"0" if mac[i:i + 1] != b"0" else b"1") + mac[i + 1:] + b"-" + ek
        lf = True
    elif kind == "b64":
        mac, ek = opaque.split(b"-")
        body = ek.rstrip(b"=")
        i = rng.randrange(len(body) - 1)     # not the last symbol (its low bits may be padding bits)
        c = rng.choice([x for x in b"ABCDEFGHIJKLMNOPQRSTUVWXYZabcdefghijklmnopqrstuvwxyz0123456789+/" if x != body[i]])
        opaque = mac + b"-" + body[:i] + bytes([c]) + body[i + 1:] + ek[len(body):]
        lf = True
    elif kind == "b64-neutral":
        mac, ek = opaque.split(b"-")
        if rng.random() < 0.5 and ek.endswith(b"="):
            opaque = mac + b"-" + ek + b"=" * rng.randrange(1, 3)
        else:
            i = rng.randrange(len(ek.rstrip(b"=")) + 1)
            opaque = mac + b"-" + ek[:i] + rng.choice([b"!", b" ", b"_", b"\xff", b"."]) .strip(b" ") + ek[i:]
    elif kind == "resigned":
        # an opaque forged with the private key: exercises the nonce / address / lifetime logic in isolation
        which = rng.choice(["ok", "old", "future", "ip", "nonce", "neg", "empty-time", "junk-time", "zeros"])
        tf, oip, onon = b"%d" % t0, ip, nonce
        if which == "old":
            tf = b"%d" % max(0, now - LIFETIME - rng.choice([1, 2, 1000])); lf = now - int(tf) > LIFETIME
        elif which == "future":
            tf = b"%d" % (now + rng.choice([1, 5000]))
        elif which == "ip":
            oip = ip + b"0"; lf = True
        elif which == "nonce":
            onon = nonce[:-1]; lf = True
        elif which == "neg":
            tf = b"-%d" % rng.choice([1, 5, 10 ** 6]); lf = now - int(tf) > LIFETIME
        elif which == "empty-time":
            tf = b""; lf = True
        elif which == "junk-time":
            tf = rng.choice([b"12a", b"x", b"1.5", b"--1", b"-"]); lf = True
        elif which == "zeros":
            tf = b"000" + b"%d" % t0
        opaque = _opaque(hashk, priv, onon, oip, tf)
    elif kind == "drop":
        drop = rng.choice([b"username", b"opaque", b"nonce", b"uri", b"response", b"algorithm", b"realm", b"cnonce"])
        if drop in (b"username", b"opaque", b"nonce"):
            lf = True
        elif drop in (b"uri", b"response"):
            accept = False
        elif drop == b"algorithm":
            accept = algname is None or algname.lower() in (b"md5",)
        elif drop == b"cnonce":
            accept = cnonce is None
    elif kind == "empty-user":
        user_field_empty = True
    elif kind == "dup-late":
        which = rng.choice([b"nonce", b"opaque", b"username", b"response"])
        extra_back = [[which, b"00" if which != b"username" else user + b"x"]]
        if which in (b"nonce", b"opaque"):
            lf = True
        else:
            accept = False
    elif kind == "dup-early":
        which = rng.choice([b"nonce", b"opaque", b"username", b"response", b"uri"])
        extra_front = [[which, b"bogus"]]
    elif kind == "algo-unknown":
        accept = False
    elif kind == "auth-int":
        accept = False
    elif kind == "sess-no-cnonce":
        accept = False
    elif kind == "wrong-pw":
        resp_pw = pw + b"x"
    elif kind in ("bad-b64", "opaque-shape"):
        lf = True

    fs = fields()
    if kind == "empty-user":
        fs[0][1] = b""
        lf = True
    if kind == "algo-unknown":
        fs = [f for f in fs if f[0] != b"algorithm"] + [[b"algorithm", rng.choice([b"md6", b"", b"sha256", b"md5 "])]]
        if fs[-1][1] == b"md5 ":        # decode() strips values: "md5 " is md5
            fs[-1][1] = b"mdfive"
    if kind == "auth-int":
        fs = [f for f in fs if f[0] != b"qop"] + [[b"qop", b"auth-int"]]
    if kind == "sess-no-cnonce":
        fs = [f for f in fs if f[0] not in (b"algorithm", b"cnonce")] + [[b"algorithm", b"md5-sess"]]
    if kind == "field-byte":
        name = rng.choice([b"response", b"uri", b"cnonce", b"nc", b"qop", b"username"])
        for f in fs:
            if f[0] == name and f[1]:
                i = rng.randrange(len(f[1]))
                f[1] = f[1][:i] + bytes([f[1][i] ^ 2]) + f[1][i + 1:]
                accept = False
                break
    if kind == "realm-field":
        for f in fs:
            if f[0] == b"realm":
                f[1] = f[1] + b"x"          # the realm field of the response is not used by the server
    if kind == "bad-b64":
        mac, ek = opaque.split(b"-")
        bad = rng.choice([ek.rstrip(b"=")[:-1] if len(ek.rstrip(b"=")) % 4 != 2 else ek.rstrip(b"=")[:-1], b"a", ek[:-1] if ek.endswith(b"=") else ek + b"A", b"abcde"])
        try:
            base64.b64decode(bad)
            bad = b"a"
        except Exception:
            pass
        for f in fs:
            if f[0] == b"opaque":
                f[1] = mac + b"-" + bad
    if kind == "opaque-shape":
        for f in fs:
            if f[0] == b"opaque":
                f[1] = rng.choice([b"", b"abc", opaque + b"-", b"-" + opaque, opaque.replace(b"-", b""), b"-"])
    if drop is not None:
        fs = [f for f in fs if f[0] != drop]
    fs = extra_front + fs + extra_back
    cands = [pw, pw + b"x", b""]
    truth = resp_pw
    if lf:
        expect = "LF"
    else:
        expect = "".join("T" if (accept and c == truth) else "F" for c in cands)
    return {"kind": kind, "hash": hashk, "priv": _h(priv), "realm": _h(realm), "now": now, "method": _h(method),
            "host": _h(host), "fields": [[_h(k), _h(v)] for k, v in fs], "pws": [_h(c) for c in cands], "expect": expect}


def _raw(rng, hashk):
    base = _one(rng, hashk, "honest")
    raw = bytearray(_ser(base["fields"]))
    fs = {bytes.fromhex(k): bytes.fromhex(v) for k, v in base["fields"]}
    essential = [k + b'="' + fs[k] + b'"' for k in (b"username", b"nonce", b"uri", b"response") if k in fs]
    for _ in range(rng.choice([1, 1, 1, 2, 3])):
        i = rng.randrange(len(raw))
        m = rng.random()
        if m < 0.4:
            raw[i] = rng.choice([raw[i] ^ 1, raw[i] ^ 0x80, 0xFF, 0, ord('"'), ord(","), ord("="), ord("A")])
        elif m < 0.7:
            del raw[i]
        else:
            raw[i:i] = bytes([rng.choice([ord('"'), ord(","), ord("="), 0xFF, ord("A"), 0xC3, ord("-")])])
    return {"kind": "raw", "hash": hashk, "priv": base["priv"], "realm": base["realm"], "now": base["now"],
            "method": base["method"], "host": base["host"], "raw": _h(raw), "pws": base["pws"][:2],
            "expect": base["expect"][:2], "essential": [_h(e) for e in essential]}


def gen(rng, tier):
    n = 1 if tier == "quick" else 20
    cases = []
    for _ in range(40 * n):
        for kind in KINDS:
            cases.append(_one(rng, "toy", kind))
    for _ in range(25 * n):
        for kind in KINDS:
            cases.append(_one(rng, "real", kind))
    for _ in range(1000 * n):
        cases.append(_raw(rng, rng.choice(["toy", "real"])))
    ws = [b"", b"", b" ", b"\t", b"  ", b"\r\n ", b"\n", b"\x0b"]

    def in_context(tail, pairs=None):
        """an honest response followed by `tail`: decode() succeeds, so the parsed fields are observable (creds.fields)"""
        base = _one(rng, "toy", "honest")
        c = {"kind": "ctx", "hash": "toy", "priv": base["priv"], "realm": base["realm"], "now": base["now"],
             "method": base["method"], "host": base["host"], "pws": base["pws"], "expect": base["expect"],
             "raw": _h(_ser(base["fields"]) + b"," + tail)}
        if pairs is not None:
            c["pairs"] = pairs
        return c

    for _ in range(200 * n):
        # well-formed key=value lists in every spelling the expression accepts; the pairs must come back
        pairs, raw = [], b""
        for j in range(rng.randrange(1, 6)):
            k = bytes(rng.choice(b"abcXYZ09_-.") for _ in range(rng.randrange(1, 6)))
            if rng.random() < 0.6:
                v = bytes(rng.choice(b"abc 09,=/+-:;") for _ in range(rng.randrange(0, 8)))
                want = v
                if len(v) >= 2 and rng.random() < 0.3:
                    i = rng.randrange(1, len(v))
                    if v[i - 1:i] != b" " and v[i:i + 1] != b" ":
                        v, want = v[:i] + rng.choice([b"\r\n", b"\n", b"\r"]) + v[i:], v[:i] + b" " + v[i:]   # folded line
                piece = k + b'="' + v + b'"'
                v = want.strip()
            else:
                v = bytes(rng.choice(b"abc09=/+-:;\" ") for _ in range(rng.randrange(1, 8))).strip() or b"0"
                if v.startswith(b'"'):
                    v = b"x" + v        # a bare value must not start with a quote (it would open a quoted string)
                piece = k + b"=" + v
            raw += (b"," if j else b"") + rng.choice(ws) + piece      # no padding between a closing quote and the comma:
            #   the expression would make the comma part of the next key
            pairs.append([k.hex(), v.hex()])
        cases.append(in_context(raw, pairs))
    for _ in range(300 * n):
        # arbitrary bytes over the alphabet the expression cares about
        raw = bytes(rng.choice(b'ab= ,"\t\r\n\x0b\xff;') for _ in range(rng.randrange(0, 24)))
        cases.append(in_context(raw))
        if rng.random() < 0.3:
            cases.append({"kind": "parse", "hash": "toy", "priv": "00", "realm": "00", "now": 0, "raw": _h(raw)})
    for _ in range(60 * n):
        # one factory, one honest response presented repeatedly while the clock moves (and from other addresses, and
        # interleaved with a second client's response): replay after expiry must be rejected
        hk = rng.choice(["toy", "toy", "real"])
        base = _one(rng, hk, "honest")
        t0 = base["now"]            # "honest" cases are built with now = t0 + d, d <= 900: recover t0 from the opaque instead
        fs = {bytes.fromhex(k): bytes.fromhex(v) for k, v in base["fields"]}
        key = base64.b64decode(fs[b"opaque"].split(b"-")[1])
        t0 = int(key.split(b",")[2])
        ip = bytes.fromhex(base["host"])
        raw = _h(_ser(base["fields"]))
        other = _one(rng, hk, "honest")
        steps = []
        for _ in range(rng.randrange(2, 7)):
            d = rng.choice([0, 1, 450, 899, 900, 901, 902, 2000, 10 ** 6])
            k = rng.random()
            if k < 0.7:
                steps.append([t0 + d, raw, _h(ip), base["expect"] if d <= LIFETIME else "LF"])
            elif k < 0.85:
                host = ip + b"1"
                steps.append([t0 + d, raw, _h(host), "LF"])
            else:
                steps.append([t0 + d, raw, _h(ip), base["expect"] if d <= LIFETIME else "LF"])
                steps.append([t0 + d + 1, raw, _h(ip), base["expect"] if d + 1 <= LIFETIME else "LF"])
        cases.append({"kind": "session", "hash": hk, "priv": base["priv"], "realm": base["realm"], "now": 0, "t0": t0,
                      "method": base["method"], "pws": base["pws"], "steps": steps})
    for _ in range(100 * n):
        ip = rng.choice([b"10.0.0.1", b"", None, b"fe80::1"])
        cases.append({"kind": "challenge", "hash": rng.choice(["toy", "real"]), "priv": _h(bytes(rng.randrange(256) for _ in range(12))),
                      "realm": _h(b"r"), "falgo": rng.choice(["md5", "sha"]), "now": rng.choice([0, 9, 10, 99, 100, 12345, 2 ** 31, rng.randrange(2 ** 33)]),
                      "nonce": _h(hexlify(bytes(rng.randrange(256) for _ in range(12)))), "ip": None if ip is None else _h(ip)})
    return cases


def corpus():
    return _corpus_base() + _corpus_sessions()


def _corpus_sessions():
    out = []
    priv, realm, nonce, ip, t0 = b"k" * 12, b"realm", b"00112233445566778899aabb", b"10.0.0.1", 1000
    for hashk in ("real", "toy"):
        op = _opaque(hashk, priv, nonce, ip, b"%d" % t0)
        r = _response(hashk, b"md5", b"u", realm, b"pw", b"GET", b"/x", nonce, b"00000001", b"abc", b"auth")
        good = [[b"username", b"u"], [b"realm", realm], [b"nonce", nonce], [b"uri", b"/x"], [b"response", r],
                [b"opaque", op], [b"qop", b"auth"], [b"nc", b"00000001"], [b"cnonce", b"abc"]]
        raw = _h(_ser([[_h(k), _h(v)] for k, v in good]))
        # fresh, fresh again, replayed after the lifetime (nothing else verified in between), then from elsewhere
        steps = [[t0 + 5, raw, _h(ip), "TF"], [t0 + 900, raw, _h(ip), "TF"], [t0 + 901, raw, _h(ip), "LF"],
                 [t0 + 5000, raw, _h(ip), "LF"], [t0 + 10, raw, _h(b"10.0.0.2"), "LF"]]
        out.append({"kind": "session", "hash": hashk, "priv": _h(priv), "realm": _h(realm), "now": 0, "t0": t0,
                    "method": _h(b"GET"), "pws": [_h(b"pw"), _h(b"no")], "steps": steps})
    return out


def _corpus_base():
    # F20 and its siblings, as raw responses against a fixed factory
    priv, realm, nonce, ip, t0 = b"k" * 12, b"realm", b"00112233445566778899aabb", b"10.0.0.1", 1000
    out = []
    for hashk in ("real", "toy"):
        op = _opaque(hashk, priv, nonce, ip, b"%d" % t0)
        r = _response(hashk, b"md5", b"u", realm, b"pw", b"GET", b"/x", nonce, b"00000001", b"abc", b"auth")
        good = [[b"username", b"u"], [b"realm", realm], [b"nonce", nonce], [b"uri", b"/x"], [b"response", r],
                [b"opaque", op], [b"qop", b"auth"], [b"nc", b"00000001"], [b"cnonce", b"abc"]]

        def mk(kind, fs, expect):
            return {"kind": kind, "hash": hashk, "priv": _h(priv), "realm": _h(realm), "now": t0 + 5, "method": _h(b"GET"),
                    "host": _h(ip), "fields": [[_h(k), _h(v)] for k, v in fs], "pws": [_h(b"pw"), _h(b"no")], "expect": expect}

        out.append(mk("honest", good, "TF"))
        out.append(mk("bad-b64", [f if f[0] != b"opaque" else [b"opaque", op[:-1]] for f in good], "LF"))
        out.append(mk("bad-b64", [f if f[0] != b"opaque" else [b"opaque", op.split(b"-")[0] + b"-a"] for f in good], "LF"))
        out.append(mk("drop", [f for f in good if f[0] != b"uri"], "FF"))
        out.append(mk("algo-unknown", good + [[b"algorithm", b"md6"]], "FF"))
        out.append(mk("auth-int", [f if f[0] != b"qop" else [b"qop", b"auth-int"] for f in good], "FF"))
        out.append(mk("sess-no-cnonce", [f for f in good if f[0] != b"cnonce"] + [[b"algorithm", b"md5-sess"]], "FF"))
        raw = _ser([[_h(k), _h(v)] for k, v in good]) + b', \xff\xfe="x"'
        out.append({"kind": "raw", "hash": hashk, "priv": _h(priv), "realm": _h(realm), "now": t0 + 5, "method": _h(b"GET"),
                    "host": _h(ip), "raw": _h(raw), "pws": [_h(b"pw")], "expect": "T", "essential": []})
    return out


# --------------------------------------------------------------------------------------
# model side

_INT_OK = __import__("re").compile(rb"-?[0-9]+\Z")


def _modelled_time_field(case):
    """the model's int() accepts -?[0-9]+ only; other spellings Python accepts (' 1', '+1', '1_0') are not generated"""
    return True


def to_coq(case):
    hx = lambda h: coq_bytes(bytes.fromhex(h))
    if case["hash"] != "toy":
        return None
    if case["kind"] == "challenge":
        ip = b"" if case["ip"] is None else bytes.fromhex(case["ip"])
        return f"VChallenge ({hx(case['priv'])}, {hx(case['nonce'])}, {coq_bytes(ip)}, {case['now']}%N)"
    if case["kind"] == "parse":
        return f"VParse {hx(case['raw'])}"
    if case["kind"] == "session":
        pws = coq_list([hx(p) for p in case["pws"]], "(list N)")
        steps = coq_list([f"({now}%N, {hx(raw)}, {hx(case['method'])}, {hx(host)}, {pws})" for now, raw, host, _ in case["steps"]],
                         "(N * list N * list N * list N * list (list N))")
        return f"VSession ({hx(case['priv'])}, {hx(case['realm'])}, {steps})"
    raw = bytes.fromhex(case["raw"]) if "raw" in case else _ser(case["fields"])
    pws = coq_list([hx(p) for p in case["pws"]], "(list N)")
    return (f"VLogin ({hx(case['priv'])}, {hx(case['realm'])}, {case['now']}%N, {coq_bytes(raw)}, {hx(case['method'])}, "
            f"{hx(case['host'])}, {pws})")


def shrink(case):
    if "fields" in case:
        fs = case["fields"]
        for i in range(len(fs)):
            if bytes.fromhex(fs[i][0]) not in (b"username", b"nonce", b"opaque"):
                yield {**case, "fields": fs[:i] + fs[i + 1:]}


def describe(case):
    d = dict(case)
    if "fields" in d:
        d["fields"] = [[bytes.fromhex(k).decode("latin1"), bytes.fromhex(v).decode("latin1")] for k, v in d["fields"]]
    if "raw" in d:
        d["raw"] = bytes.fromhex(d["raw"]).decode("latin1")
    return d


SPEC = Spec(
    pid="C48",
    gen=gen, impl=impl, oracle=oracle, corpus=corpus, shrink=shrink, describe=describe,
    coq_header="From C48 Require Import Model Run.",
    coq_fn="run",
    to_coq=to_coq,
    nontrivial=lambda c, o: c["kind"] not in ("honest", "challenge") or "T" in o.split("|")[0],
    histogram=lambda c, o: f"{c['hash']}:{c['kind']}:" + ("parsed" if c["kind"] == "parse" else "LF" if o == "LF" else ("accept" if "T" in o.split("|")[0] else "deny")),
    rule="20 kinds of challenge/response histories (honest, later clock incl. lifetime +-1, other client address, altered "
         "nonce, altered MAC, altered / neutral / undecodable base64, opaques re-signed with the private key for other "
         "time/address/nonce and odd time fields, dropped / empty / duplicated fields, unknown algorithm, auth-int, md5-sess "
         "without cnonce, response for another password, one-byte change in each response field), 40 each with the "
         "transparent hash (compared with the model) and 25 each with real MD5/SHA-1 (oracle only), 1000 random byte-level "
         "mutations (flip/delete/insert, 1-3 bytes) of a raw honest response, 200 well-formed key=value lists (appended to an honest response so that decode() exposes the parsed fields) in every spelling "
         "(quoted/bare, folded lines, padding) that must parse back to their pairs, 300 random strings over the bytes the "
         "expression distinguishes, 100 issued challenges, 60 sessions that present one response 2-8 times to ONE factory while the clock moves across "
         "the lifetime (replay after expiry, other address in between); "
         "thorough = 20x; non-trivial = anything but an unmodified honest response that was denied; distinct by (case, observation)",
    trusted=["hand-written model coq/C48/Model.v of the acceptance logic on parsed fields (tied by this correspondence run)",
             "the regular expression of decode() is transcribed by hand into Model.match_at / findall (leftmost match, greedy "
             "runs, quoted alternative first, bare fallback when the closing quote is missing) and compared with Python's re on "
             "every run: 500 parser inputs in the context of an honest response, 1 000 raw mutations",
             "MD5/SHA-1: Section variable HX with the hypothesis that it is injective (ideal hash); base64: Section variables "
             "with round-trip hypothesis, Run.v's executable b64encode / a2b_base64 are compared with CPython on every run",
             "for model comparison md5/sha1 are replaced by the injective map digest(x) = tag+x in both model and code"],
    assumptions=["nonce and client address contain no comma; issued time >= 0; time fields spelled -?[0-9]+",
                 "the attacker cannot produce the MAC of a key that was not issued (stated as: the MAC part equals an issued MAC)"],
)
