"""C41 — mail text codecs: SMTP xtext and IMAP4 modified UTF-7.

T-tie: coq/C41/Gen.v (the escape test of smtp.xtext_encode, for bytes input) is regenerated on every
run.  H-tie: coq/C41/Model.v models the xtext loop / xtext_decode and imap4.encoder / imap4.decoder;
the base64-of-UTF-16BE layer (modified_base64 / modified_unbase64: CPython codecs) is an oracle whose
results are passed to the model as tables and whose three assumed facts are checked here per case."""
from __future__ import annotations

import re

from harness.common import COQ, REPO, Failure, Spec, coq_bytes
from translate import c41 as tr


def show_cps(s) -> str:
    return "[" + ",".join(str(ord(c) if isinstance(c, str) else c) for c in s) + "]"


EXPECTED_EXC = (ValueError, TypeError, UnicodeError)     # binascii.Error and UnicodeDecodeError are ValueErrors


def _runs(s: str):
    """maximal runs of characters the encoder collects in _in"""
    out, cur = [], []
    for c in s:
        if 0x20 <= ord(c) < 0x7F:
            if cur:
                out.append("".join(cur))
                cur = []
        else:
            cur.append(c)
    if cur:
        out.append("".join(cur))
    return out


def _shifts(b: bytes):
    """the byte strings the decoder hands to modified_unbase64"""
    out, acc, inshift = [], bytearray(), False
    for c in b:
        if not inshift:
            if c == 38:
                inshift, acc = True, bytearray()
        elif c == 45:
            if acc:
                out.append(bytes(acc))
            inshift = False
        else:
            acc.append(c)
    if inshift:
        out.append(bytes(acc))
    return out


def _unb64(b: bytes):
    from twisted.mail import imap4
    try:
        return imap4.modified_unbase64(b)
    except EXPECTED_EXC:
        return None


def impl(case) -> str:
    from twisted.mail import imap4, smtp
    k = case["kind"]
    if k == "xenc":
        b = bytes.fromhex(case["hex"])
        enc, n = smtp.xtext_encode(b)
        try:
            dec = show_cps(smtp.xtext_decode(enc)[0])
        except EXPECTED_EXC:
            dec = "ERR"
        return enc.hex() + " " + dec
    if k == "xdec":
        try:
            return show_cps(smtp.xtext_decode(bytes.fromhex(case["hex"]))[0])
        except EXPECTED_EXC:
            return "ERR"
    if k == "uenc":
        s = case["s"]
        try:
            enc = imap4.encoder(s)[0]
        except EXPECTED_EXC:
            return "ENCERR"
        try:
            dec = show_cps(imap4.decoder(enc)[0])
        except EXPECTED_EXC:
            dec = "ERR"
        return enc.hex() + " " + dec
    if k == "udec":
        try:
            return show_cps(imap4.decoder(bytes.fromhex(case["hex"]))[0])
        except EXPECTED_EXC:
            return "ERR"
    raise ValueError(k)


# --------------------------------------------------------------------------------------
# oracle (model-free)

XCHAR = set(range(33, 127)) - {43, 61}
MB64 = set(b"ABCDEFGHIJKLMNOPQRSTUVWXYZabcdefghijklmnopqrstuvwxyz0123456789+,")


def _ref_mb64(run: str) -> bytes:
    """RFC 3501 5.1.3 written out: UTF-16BE, base64 without padding, ',' for '/'"""
    data = run.encode("utf-16-be")
    alphabet = b"ABCDEFGHIJKLMNOPQRSTUVWXYZabcdefghijklmnopqrstuvwxyz0123456789+,"
    bits = "".join(format(x, "08b") for x in data)
    bits += "0" * (-len(bits) % 6)
    return bytes(alphabet[int(bits[i:i + 6], 2)] for i in range(0, len(bits), 6))


def _ref_utf7(s: str) -> bytes:
    out, run = bytearray(), []

    def flush():
        if run:
            out.extend(b"&" + _ref_mb64("".join(run)) + b"-")
            run.clear()
    for c in s:
        if c == "&":
            flush()
            out.extend(b"&-")
        elif 0x20 <= ord(c) <= 0x7E:
            flush()
            out.append(ord(c))
        else:
            run.append(c)
    flush()
    return bytes(out)


def oracle(case, obs):
    k = case["kind"]
    if k == "xenc":
        b = bytes.fromhex(case["hex"])
        enc_hex, dec = obs.split(" ", 1)
        enc = bytes.fromhex(enc_hex)
        # RFC 3461 form
        i = 0
        while i < len(enc):
            if enc[i] == 43:
                if not re.fullmatch(rb"[0-9A-F]{2}", enc[i + 1:i + 3]):
                    cls = "plus" if 43 in b else "other"
                    return Failure(case, f"xtext_encode({b!r}) = {enc!r}: '+' not followed by two upper-case hex digits",
                                   "xtext-bytes-" + cls + "-unescaped")
                i += 3
            elif enc[i] in XCHAR:
                i += 1
            else:
                cls = "equals" if enc[i] == 61 else "nonprintable"
                return Failure(case, f"xtext_encode({b!r}) = {enc!r} contains {enc[i]:#x}, not an xchar", "xtext-bytes-" + cls + "-unescaped")
        if dec != show_cps(b):
            tag = ("xtext-roundtrip-percent-collapsed" if 43 not in enc and re.search(rb"%[0-9A-Fa-f]{2}", b)
                   else "xtext-bytes-plus-unescaped" if 43 in b else "xtext-roundtrip")
            return Failure(case, f"xtext_decode(xtext_encode({b!r})) = {dec}, expected {show_cps(b)}", tag)
        return None
    if k == "xdec":
        b = bytes.fromhex(case["hex"])
        # reference decoder, RFC 3461: xchar stands for itself (that includes '%', '\\', '&'), hexchar = "+" 2HEXDIG;
        # asserted on well-formed xtext only (what int(_, 16) does with other slices is outside the property)
        if re.fullmatch(rb"(?:[!-*,-<>-~]|\+[0-9A-F]{2})*", b):
            want = re.sub(rb"\+([0-9A-F]{2})", lambda m: bytes([int(m.group(1), 16)]), b)
            if obs != show_cps(want):
                return Failure(case, f"xtext_decode({b!r}) = {obs}, RFC 3461 reading is {show_cps(want)}",
                               "xtext-decode-percent" if b"%" in b else "xtext-decode-reference")
        return None
    if k == "uenc":
        s = case["s"]
        if obs == "ENCERR":
            return Failure(case, f"imap4 encoder raised on {s!r}", _utf7_class(s, "raises"))
        enc_hex, dec = obs.split(" ", 1)
        enc = bytes.fromhex(enc_hex)
        # the oracle layer's assumed facts, on the runs of this input
        from twisted.mail import imap4
        for run in _runs(s):
            try:
                b64 = imap4.modified_base64(run)
            except EXPECTED_EXC:
                return Failure(case, f"modified_base64({run!r}) raised", _utf7_class(s, "base64-raises"))
            if not b64 or any(c not in MB64 for c in b64):
                return Failure(case, f"modified_base64({run!r}) = {b64!r} is not modified BASE64", _utf7_class(s, "base64-alphabet"))
            if _unb64(b64) != run:
                return Failure(case, f"modified_unbase64(modified_base64({run!r})) = {_unb64(b64)!r}", _utf7_class(s, "base64-roundtrip"))
        if any(c < 32 or c > 126 for c in enc):
            return Failure(case, f"encoded form {enc!r} is not printable ASCII", _utf7_class(s, "not-printable"))
        if dec != show_cps(s):
            return Failure(case, f"decoder(encoder({s!r})) = {dec} (encoded {enc!r})", _utf7_class(s, "roundtrip"))
        if enc != _ref_utf7(s):
            return Failure(case, f"encoder({s!r}) = {enc!r}, RFC 3501 gives {_ref_utf7(s)!r}", _utf7_class(s, "rfc-form"))
        return None
    return None


def _utf7_class(s: str, what: str) -> str:
    if any(c in s for c in "\t\n\r"):
        return "utf7-tab-lf-cr-" + what
    return "utf7-" + what


# --------------------------------------------------------------------------------------
# generation

UCH = ["a", "&", "-", "+", ",", "/", " ", "~", "\\", "\t", "\n", "\r", "\x00", "\x1f", "\x7f", "\x80", "\xe9",
       "\xff", "\u0100", "\u20ac", "\u65e5", "\u8a9e", "\ud7ff", "\ue000", "\ufffd", "\uffff", "\U00010000",
       "\U0001F600", "\U0010FFFF", "A", "Z", "0"]


def corpus():
    return [
        {"kind": "xenc", "hex": b"a+b".hex()},                          # F14
        {"kind": "xenc", "hex": b"e=mc2+41".hex()},
        {"kind": "xenc", "hex": b"100%41 user%40example.com %2B".hex()},
        {"kind": "uenc", "s": "\t"},                                    # F15
        {"kind": "uenc", "s": "\n"},
        {"kind": "uenc", "s": "\té"},
        {"kind": "uenc", "s": "a\r\nb"},
        {"kind": "uenc", "s": "~peter/mail/台北/日本語"},                 # RFC 3501 example
        {"kind": "uenc", "s": "&&-&a\U0001F600&"},
        {"kind": "uenc", "s": "\xe9" * 40},                             # more than one MIME base64 line
        {"kind": "udec", "hex": b"~peter/mail/&U,BTFw-/&ZeVnLIqe-".hex()},
        {"kind": "udec", "hex": b"a&-b&AAk-&Jjo".hex()},
        {"kind": "xdec", "hex": b"Hello+20world+2B+3d+7".hex()},
    ]


def gen(rng, tier):
    cases = []
    # xtext: every single octet, every pair around '+', '=' and the class boundaries
    for o in range(256):
        cases.append({"kind": "xenc", "hex": bytes([o]).hex()})
    edge = [0, 32, 33, 42, 43, 44, 60, 61, 62, 65, 126, 127, 128, 255]
    pool = edge if tier == "quick" else list(range(256))
    for a in edge:
        for b in pool:
            cases.append({"kind": "xenc", "hex": bytes([a, b]).hex()})
    for _ in range(300 if tier == "quick" else 5000):
        n = rng.randrange(0, 12)
        cases.append({"kind": "xenc", "hex": bytes(rng.choice(edge + [rng.randrange(256)]) for _ in range(n)).hex()})
    # escape-like triples of this codec ('+') and of other codecs (percent-encoding, quoted-printable '=XX',
    # backslash-x) embedded in the data, hex digits of both cases and non-hex, alone and inside text
    hexish = [b"41", b"2B", b"2b", b"3d", b"00", b"fF", b"7e", b"4", b"G1", b"1G", b"zz", b"%%", b"+4", b""]
    for esc in (b"%", b"+", b"=", b"\\x", b"&#", b"%25", b"+2B"):
        for h in hexish:
            for pre, post in ((b"", b""), (b"100", b""), (b"user", b"example.com"), (b"+", b"%")):
                cases.append({"kind": "xenc", "hex": (pre + esc + h + post).hex()})
    for h in hexish:
        for esc in (b"%", b"=", b"\\x"):
            cases.append({"kind": "xdec", "hex": (b"a" + esc + h + b"b").hex()})
    xd = b"+0123456789ABCDEFabcdefGgz!~%"
    for _ in range(200 if tier == "quick" else 3000):
        n = rng.randrange(0, 9)
        b = bytes(rng.choice(xd) for _ in range(n))
        cases.append({"kind": "xdec", "hex": b.hex()})
    # utf-7: every single character of the pool, pairs, random strings
    for c in UCH:
        cases.append({"kind": "uenc", "s": c})
    for a in UCH:
        for b in (UCH if tier != "quick" else rng.sample(UCH, 8)):
            cases.append({"kind": "uenc", "s": a + b})
    if tier != "quick":
        for cp in list(range(0, 0x300)) + list(range(0xD700, 0xD800)) + list(range(0xE000, 0xE100)) + \
                [0xFFFE, 0xFFFF, 0x10000, 0x10FFFF]:
            cases.append({"kind": "uenc", "s": chr(cp)})
            cases.append({"kind": "uenc", "s": "x" + chr(cp) + "é"})
    for _ in range(400 if tier == "quick" else 6000):
        n = rng.randrange(0, 10)
        cases.append({"kind": "uenc", "s": "".join(rng.choice(UCH) for _ in range(n))})
    # LONG shifted runs: one uninterrupted run of 27..31, 56..60, 100 (thorough also 1000) UTF-16 code units of
    # BMP, astral or mixed characters, at the start / in the middle / at the end of the string (base64 flavours
    # differ only beyond one 76-character output line = 57 input bytes)
    bmp = ["\xe9", "\u65e5", "\x00", "\t", "\uffff", "\x7f"]
    astral = ["\U0001F600", "\U00010000", "\U0010FFFF"]
    for units in [27, 28, 29, 30, 31, 56, 57, 58, 59, 60, 100] + ([] if tier == "quick" else [101, 255, 1000]):
        for flavour in ("bmp", "astral", "mixed"):
            run, n = [], 0
            while n < units:
                if flavour == "astral" or (flavour == "mixed" and rng.random() < 0.4 and units - n >= 2):
                    if units - n < 2:
                        run.append(rng.choice(bmp)); n += 1
                    else:
                        run.append(rng.choice(astral)); n += 2
                else:
                    run.append(rng.choice(bmp)); n += 1
            r = "".join(run)
            for s_ in (r, "ab&" + r + "-z", "x" + r):
                cases.append({"kind": "uenc", "s": s_})
    ud = b"&-+,AZaz09/= \x80"
    for _ in range(200 if tier == "quick" else 3000):
        n = rng.randrange(0, 10)
        cases.append({"kind": "udec", "hex": bytes(rng.choice(ud) for _ in range(n)).hex()})
    return cases


def coq_cps(s: str) -> str:
    if not s:
        return "(@nil N)"
    return "[" + ";".join(str(ord(c)) for c in s) + "]%N"


def _dec_table(enc: bytes) -> str:
    ents = []
    for acc in dict.fromkeys(_shifts(enc)):
        r = _unb64(acc)
        if r is not None and any(0xD800 <= ord(c) <= 0xDFFF for c in r):
            return None
        ents.append("(" + coq_bytes(acc) + ", " + ("None" if r is None else "Some " + coq_cps(r)) + ")")
    return "[" + "; ".join(ents) + "]" if ents else "(@nil (list N * option (list N)))"


def to_coq(case):
    from twisted.mail import imap4
    k = case["kind"]
    if k == "xenc":
        return "CXenc " + coq_bytes(bytes.fromhex(case["hex"]))
    if k == "xdec":
        b = bytes.fromhex(case["hex"])
        # int(x, 16) also accepts a sign in front of one hex digit ("++1"): outside the model
        if b"++" in b or b"+-" in b:
            return None
        return "CXdec " + coq_bytes(b)
    if k == "uenc":
        s = case["s"]
        if any(0xD800 <= ord(c) <= 0xDFFF for c in s):
            return None
        return f"CUenc {coq_cps(s)}"
    if k == "udec":
        b = bytes.fromhex(case["hex"])
        td = _dec_table(b)
        if td is None:
            return None
        return f"CUdec {td} {coq_bytes(b)}"
    return None


def shrink(case):
    if "hex" in case:
        b = bytes.fromhex(case["hex"])
        for i in range(len(b)):
            yield dict(case, hex=(b[:i] + b[i + 1:]).hex())
    else:
        s = case["s"]
        for i in range(len(s)):
            yield dict(case, s=s[:i] + s[i + 1:])


def hist(case, obs):
    return case["kind"] + (":error" if obs.endswith("ERR") else "")


SPEC = Spec(
    pid="C41",
    gen=gen,
    impl=impl,
    oracle=oracle,
    coq_header="From C41 Require Import Gen Model Run.",
    coq_fn="run_show",
    to_coq=to_coq,
    regen=lambda: tr.regen(REPO, COQ),
    corpus=corpus,
    shrink=shrink,
    histogram=hist,
    nontrivial=lambda c, o: c["kind"] in ("xdec", "udec") or any(x in o.split(" ")[0] for x in ("2b", "26")),
    rule="xtext: every octet, every pair with an edge octet first (thorough: all second octets), escape-like triples of '+' '%' '=' backslash-x '&#' "
         "with hex / non-hex pairs of both cases alone and inside text, random byte strings "
         "biased to 0 32 33 42..44 60..62 126..128 255; decode of random strings over '+', hex digits of both cases and "
         "non-hex; utf-7: every character of a 32-character pool (controls incl. TAB LF CR NUL, '&', '-', base64 "
         "specials, Latin-1, BMP edges, astral), pairs, random strings <= 9; thorough adds every code point < 0x300, "
         "the surrogate borders and plane edges alone and between other characters; decode of random shift/unshift "
         "sequences. non-trivial = output contains an escape",
    trusted=[
        "translate/c41.py also recognises modified_base64 / modified_unbase64 structurally (after inlining "
        "single-assignment locals) as the CPython expression the hand-written layer coq/C41/B64.v stands for",
        "translator translate/py2coq.py + translate/c41.py (fail-closed skeleton match; comparison of a bytes item "
        "with a str literal is False; validated by this correspondence run)",
        "hand-written models of the xtext loop, xtext_decode, imap4.encoder and imap4.decoder (coq/C41/Model.v)",
        "coq/C41/B64.v (UTF-16, bits, 6-bit groups, modified BASE64 alphabet) is a transcription of RFC 3501 5.1.3 / "
        "RFC 2152; it is tied to CPython's binascii / utf-16-be / utf-7 codecs by this correspondence run (encoder "
        "output and decoder(encoder(s)) on every encoding case) and to a second bit-level reference in the harness; "
        "for raw decoding cases modified_unbase64 is an oracle table (CPython's error rules for malformed shift "
        "sequences are not modelled)",
    ],
    assumptions=["xtext input is bytes (octets < 256); utf-7 input is a str without lone surrogates",
                 "xtext_decode is modelled on '+' followed by hexadecimal digits only (int(_, 16) also accepts signs, "
                 "spaces and underscores: outside the model and outside the property)"],
)
