"""C13 — callFromThread: trace validation (H/TV-tie) of the interleaving LTS coq/C13 against the real
ReactorBase.callFromThread / runUntilCurrent, scheduled deterministically at instrumented atomic points, plus a
supporting stress run on the real select / poll / epoll / asyncio reactors.

case (scheduled) = {"wants": [k_0..k_{n-1}], "sched": ["R" | "u" | t ...], "raises": [[t, n] ...]}
      call n of thread t raises an Exception subclass after recording that it ran (the reactor logs it; the log is
      captured, and every raising call must be logged exactly once)
      "R" = the reactor thread takes its next atomic step, "u" = the poll call returns spuriously,
      t   = producer thread t takes its next atomic step (append, or wakeUp)
      optional "kw": [[t, n, name] ...]  call n of thread t is issued with an extra keyword argument called `name`
      ("delay", "callable": callFromThread(f, *a, **kw) promises f(*a, **kw) whatever the keywords are called);
      optional "sig": [[t, n, "sigTerm"|"sigInt"] ...]  that call invokes the reactor's own signal handler method
      synchronously (what Python does when the signal arrives while the call is executing: handlers run in the
      main = reactor thread between bytecodes); reactor.stop is replaced by a recorder: every such call must be
      followed by exactly one stop, and every thread call must still run exactly once (cases with "sig" are checked by
      the oracle only: the LTS has no calls queued by the reactor thread);
      optional "cancels": [[t, n] ...]   that call cancels every pending timer (reactor.getDelayedCalls()), which
      must not touch calls issued through callFromThread
case (stress)    = {"stress": "select"|"poll"|"epoll"|"asyncio", "threads": n, "calls": m, "seed": s}
case (two reactors) = {"stress2": worker kind, "calls": m}: a worker reactor idles in a secondary thread; code
      running inside a second reactor in the main thread hands m calls to worker.callFromThread; each must run
      promptly, once, in order, in the worker's thread

Instrumentation is done from here only: reactor.threadCallQueue is replaced by a list subclass whose append /
__len__ / __delitem__ stop at a scheduler point, the waker by an object with a flag (SelectReactor._wakerFactory is
the documented override point), and the poll call by "wait until the flag is set".  Between two points exactly one
thread runs, so a schedule determines the execution; the model must print the same observation for every step.
"""
from __future__ import annotations

import itertools
import os
import subprocess
import sys
import threading

from harness.common import Failure, Spec, coq_list, coq_nat

STEP_TIMEOUT = float(os.environ.get("C13_STEP_TIMEOUT", "5"))


class _Stuck(Exception):
    pass


class _Sched:
    def __init__(self):
        self.cv = threading.Condition()
        self.waiting = {}       # tid -> label of the point it is stopped at
        self.finished = set()
        self.grant = None
        self.free = False
        self.tids = {}          # thread ident -> tid (idents of finished threads may be reused: last writer wins)
        self.started = 0
        self.seg = []           # what the running segment observed

    def me(self):
        return self.tids.get(threading.get_ident())

    def point(self, label):
        tid = self.me()
        if tid is None:
            return
        with self.cv:
            if self.free:
                return
            self.waiting[tid] = label
            self.cv.notify_all()
            while self.grant != tid and not self.free:
                if not self.cv.wait(STEP_TIMEOUT * 3):
                    raise _Stuck(f"thread {tid} never granted at {label}")
            if self.grant == tid:
                self.grant = None
            self.waiting.pop(tid, None)

    def settle(self, tid):
        """main thread: wait until tid is stopped at a point (or has finished)."""
        with self.cv:
            while tid not in self.waiting and tid not in self.finished:
                if not self.cv.wait(STEP_TIMEOUT):
                    raise _Stuck(f"thread {tid} did not reach a point")

    def run_segment(self, tid):
        with self.cv:
            del self.seg[:]
            self.grant = tid
            self.waiting.pop(tid, None)
            self.cv.notify_all()
            while self.grant == tid or (tid not in self.waiting and tid not in self.finished):
                if not self.cv.wait(STEP_TIMEOUT):
                    raise _Stuck(f"thread {tid} did not finish its step")
            return "".join(self.seg)

    def done(self, tid):
        with self.cv:
            self.finished.add(tid)
            self.cv.notify_all()

    def release(self):
        with self.cv:
            self.free = True
            self.cv.notify_all()


_reactor = None
_logged = []


class ThreadCallBoom(Exception):
    """raised by scripted thread calls"""


def _quiet_log():
    """send the reactor's failure log to a list instead of stderr (once per process)"""
    from twisted.logger import globalLogBeginner
    if not getattr(_quiet_log, "done", False):
        _quiet_log.done = True
        globalLogBeginner.beginLoggingTo([_logged.append], redirectStandardIO=False, discardBuffer=True)



def _get_reactor():
    """one real SelectReactor per process (never run(); only callFromThread / runUntilCurrent are used)"""
    global _reactor
    if _reactor is None:
        from twisted.internet.selectreactor import SelectReactor

        class FakeWaker:
            def __init__(self):
                self.flag = threading.Event()
                self.sched = None

            def wakeUp(self):
                s = self.sched
                if s is not None and s.me() not in (None, "R"):
                    s.point("wake")
                    s.seg.append(f"w{s.me()}")
                elif s is not None and s.me() == "R":
                    s.seg.append("+W")
                self.flag.set()

            def fileno(self):
                return -1

            def connectionLost(self, reason):
                pass

            def logPrefix(self):
                return "fakewaker"

        class R(SelectReactor):
            def _wakerFactory(self):
                return FakeWaker()

        _reactor = R()
    return _reactor


def _make_queue(sched, state):
    class TracedList(list):
        def append(self, item):
            if sched.me() == "R":
                # queued by the reactor thread itself (a signal handler asking for stop): part of the running segment
                sched.seg.append("+q")
                list.append(self, item)
                return
            sched.point("append")
            f, args, kw = item
            sched.seg.append(f"a{args[0]}.{args[1]}")
            list.append(self, item)

        def __len__(self):
            if sched.me() != "R":
                return list.__len__(self)
            sched.point("len")
            n = list.__len__(self)
            state["lens"] += 1
            k = state["lens"]
            sched.seg.append(("T%d" % n) if k == 1 else ("N%d" % n) if k == 2 else ("C%d" % n))
            return n

        def __delitem__(self, key):
            sched.point("del")
            sched.seg.append(f"D{key.stop}")
            list.__delitem__(self, key)

    return TracedList()


def _impl_sched(case) -> str:
    wants = case["wants"]
    raises = {tuple(x) for x in case.get("raises", [])}
    kwnames = {(t, n): name for t, n, name in case.get("kw", [])}
    cancels = {tuple(x) for x in case.get("cancels", [])}
    sigs = {(t, n): name for t, n, name in case.get("sig", [])}
    stops = []
    _quiet_log()
    del _logged[:]
    r = _get_reactor()
    sched = _Sched()
    state = {"lens": 0}
    executed = []
    q = _make_queue(sched, state)
    r.threadCallQueue = q
    r.waker.flag.clear()
    r.waker.sched = sched
    errors = []

    ncalls = sum(wants)

    timer = r.callLater(3600, lambda: None)     # an application timer for the cancelling calls to find

    def fake_stop():
        sched.point("x")
        sched.seg.append("xS")
        stops.append(threading.get_ident())

    r.stop = fake_stop                          # the signal handlers ask for self.stop through the thread-call queue

    def fn(t, n, **kw):
        sched.point("x")
        sched.seg.append(f"x{t}.{n}")
        executed.append((t, n, threading.get_ident()))
        if len(executed) > 5 * ncalls + 50:
            stop.set()              # calls are being re-run without end: let the reactor thread leave its loop
        if kw != ({kwnames[(t, n)]: 0.25} if (t, n) in kwnames else {}):
            errors.append(f"wrong-kwargs-{t}.{n}")
        if (t, n) in cancels:
            for dc in r.getDelayedCalls():
                dc.cancel()
        if (t, n) in sigs:
            import signal as _signal
            getattr(r, sigs[(t, n)])(_signal.SIGTERM if sigs[(t, n)] == "sigTerm" else _signal.SIGINT, None)
        if (t, n) in raises:
            raise ThreadCallBoom(f"{t}.{n}")

    def register(tid):
        with sched.cv:
            sched.tids[threading.get_ident()] = tid
            sched.started += 1

    def producer(t):
        register(t)
        try:
            for n in range(wants[t]):
                if (t, n) in kwnames:
                    r.callFromThread(fn, t, n, **{kwnames[(t, n)]: 0.25})
                else:
                    r.callFromThread(fn, t, n)
                sched.seg.append("!")          # callFromThread has returned (not part of the model's observation)
        except BaseException as e:     # noqa
            errors.append(repr(e))
        finally:
            sched.done(t)

    stop = threading.Event()
    alldone = lambda: all(t in sched.finished for t in range(len(wants)))

    def reactor_thread():
        register("R")
        try:
            while not stop.is_set():
                state["lens"] = 0
                r.runUntilCurrent()
                if sched.free and alldone() and not list.__len__(q):
                    break
                sched.point("sleepprep")
                sched.seg.append("S")
                sched.point("select")
                if sched.free:
                    waited, quit_ = 0.0, False
                    while not r.waker.flag.wait(0.02):
                        waited += 0.02
                        if alldone() and not list.__len__(q):
                            quit_ = True
                            break
                        if waited > min(3.0, STEP_TIMEOUT):
                            errors.append("STALL")
                            quit_ = True
                            break
                    if quit_:
                        break
                elif state.get("spurious"):
                    state["spurious"] = False
                    sched.seg.append("u")
                    continue
                else:
                    sched.seg.append("U")
                sched.point("drain")
                sched.seg.append("d")
                r.waker.flag.clear()
        except BaseException as e:     # noqa
            errors.append(repr(e))
        finally:
            sched.done("R")

    threads = [threading.Thread(target=producer, args=(t,), daemon=True) for t in range(len(wants))]
    rt = threading.Thread(target=reactor_thread, daemon=True)
    out = []
    try:
        for th in threads + [rt]:
            th.start()
        # wait for every thread to know its tid and reach its first point
        import time
        t0 = time.time()
        while sched.started < len(wants) + 1:
            if time.time() - t0 > STEP_TIMEOUT:
                raise _Stuck("threads did not start")
            time.sleep(0.0005)
        for tid in list(range(len(wants))) + ["R"]:
            sched.settle(tid)
        for lab in case["sched"]:
            if lab == "R" or lab == "u":
                w = sched.waiting.get("R")
                if "R" in sched.finished or w is None:
                    obs = "-"
                elif lab == "u":
                    if w == "select":
                        state["spurious"] = True
                        obs = sched.run_segment("R")
                    else:
                        obs = "-"
                elif w == "select" and not r.waker.flag.is_set():
                    obs = "-"
                else:
                    obs = sched.run_segment("R")
            else:
                t = lab
                if t >= len(wants) or t in sched.finished or t not in sched.waiting:
                    obs = "-"
                else:
                    obs = sched.run_segment(t)
                    if t in sched.finished and obs == "":
                        obs = "-"
            w = sched.waiting.get("R")
            out.append(obs + "|" + ("z" if w in ("sleepprep", "select") else "") + ("k" if r.waker.flag.is_set() else ""))
    finally:
        sched.release()
        for th in threads + [rt]:
            th.join(STEP_TIMEOUT)
        stop.set()
        r.waker.sched = None
        r.threadCallQueue = []
        r.__dict__.pop("stop", None)
        r._exitSignal = None
        for dc in r.getDelayedCalls():
            dc.cancel()
        r.runUntilCurrent()         # drop the cancelled timers
    alive = [th for th in threads + [rt] if th.is_alive()]
    # end-to-end reading after the free run
    want = [(t, n) for t in range(len(wants)) for n in range(wants[t])]
    got = [(t, n) for t, n, _ in executed]
    final = "ok"
    if alive:
        final = "threads-alive"
    elif errors:
        final = "error:" + errors[0][:60].replace(" ", "_").replace('"', "'")
    elif sorted(got) != sorted(want):
        final = "ran-%d-of-%d" % (len(got), len(want))
    elif any(i != rt.ident for _, _, i in executed):
        final = "wrong-thread"
    elif len(stops) != len([1 for t, n in sigs if t < len(wants) and n < wants[t]]):
        final = "stop-requests-%d-of-%d" % (len(stops), len([1 for t, n in sigs if t < len(wants) and n < wants[t]]))
    elif sorted(str(e["log_failure"].value) for e in _logged if "log_failure" in e) != sorted(
            f"{t}.{n}" for t, n in raises if n < wants[t] if t < len(wants)):
        final = "raising-call-not-logged-once"
    else:
        for t in range(len(wants)):
            if [n for tt, n in got if tt == t] != list(range(wants[t])):
                final = f"order-thread-{t}"
    return " ".join(out) + " #" + final


_STRESS = r'''
import sys, threading, time, random
kind, nthreads, ncalls, seed = sys.argv[1], int(sys.argv[2]), int(sys.argv[3]), int(sys.argv[4])
if kind == "select":
    from twisted.internet import selectreactor as m
elif kind == "poll":
    from twisted.internet import pollreactor as m
elif kind == "epoll":
    from twisted.internet import epollreactor as m
else:
    from twisted.internet import asyncioreactor as m
m.install()
from twisted.internet import reactor
from twisted.logger import globalLogBeginner
logged = []
globalLogBeginner.beginLoggingTo([logged.append], redirectStandardIO=False, discardBuffer=True)
class Boom(Exception): pass
got, rid, res = [], [None], {}
def fn(t, n, **kw):
    got.append((t, n, threading.get_ident()))
    if kw != ({"delay": 0.25} if n % 11 == 5 else {}): res["kwargs"] = True
    if n % 97 == 13:
        for dc in reactor.getDelayedCalls():
            if dc is not wdc[0]: dc.cancel()
    if len(got) > 3 * nthreads * ncalls + 100 and "runaway" not in res:
        res["runaway"] = True
        reactor.stop()
    if n % 7 == 3:
        raise Boom("%d.%d" % (t, n))
def producer(t):
    rng = random.Random(seed * 100 + t)
    for n in range(ncalls):
        if n % 11 == 5:
            reactor.callFromThread(fn, t, n, delay=0.25)
        else:
            reactor.callFromThread(fn, t, n)
        if rng.random() < 0.02:
            time.sleep(rng.random() * 0.002)
def idle_probe():
    # all producers are done and the reactor has nothing else to do: a further call must still be run promptly
    for th in ths: th.join()
    time.sleep(0.3)
    t0 = time.monotonic()
    def stamp():
        res["latency"] = time.monotonic() - t0
        reactor.stop()
    reactor.callFromThread(stamp)
ths = [threading.Thread(target=producer, args=(t,), daemon=True) for t in range(nthreads)]
def start():
    rid[0] = threading.get_ident()
    for th in ths: th.start()
    threading.Thread(target=idle_probe, daemon=True).start()
reactor.callWhenRunning(start)
wdc = [reactor.callLater(3600, lambda: None)]
wd = threading.Timer(60.0, lambda: (res.setdefault("hang", True), reactor.callFromThread(reactor.stop)))
wd.daemon = True; wd.start()
reactor.run()
bad = "ok"
nboom = sum(1 for e in logged if "log_failure" in e and isinstance(e["log_failure"].value, Boom))
if "runaway" in res: bad = "ran-%d-of-%d" % (len(got), nthreads * ncalls)
elif "kwargs" in res: bad = "wrong-kwargs"
elif "hang" in res and "latency" not in res: bad = "idle-call-never-ran"
elif len(got) != nthreads * ncalls: bad = "ran-%d-of-%d" % (len(got), nthreads * ncalls)
elif len(set((t, n) for t, n, _ in got)) != len(got): bad = "ran-twice"
elif any(i != rid[0] for _, _, i in got): bad = "wrong-thread"
else:
    for t in range(nthreads):
        if [n for tt, n, _ in got if tt == t] != list(range(ncalls)): bad = "order-thread-%d" % t
    if bad == "ok" and nboom != sum(1 for t in range(nthreads) for n in range(ncalls) if n % 7 == 3):
        bad = "raising-call-not-logged-once"
    if bad == "ok" and res.get("latency", 99) > 5.0: bad = "idle-call-latency-%.1fs" % res["latency"]
print("STRESS " + bad)
'''


_STRESS2 = r'''
import sys, threading, time, asyncio, os
kind, ncalls = sys.argv[1], int(sys.argv[2])
from twisted.logger import globalLogBeginner
globalLogBeginner.beginLoggingTo([lambda e: None], redirectStandardIO=False, discardBuffer=True)
from twisted.internet.selectreactor import SelectReactor
started, info = threading.Event(), {}
def worker_main():
    if kind == "asyncio":
        from twisted.internet.asyncioreactor import AsyncioSelectorReactor
        loop = asyncio.new_event_loop(); asyncio.set_event_loop(loop)
        w = AsyncioSelectorReactor(loop)
    elif kind == "epoll":
        from twisted.internet.epollreactor import EPollReactor
        w = EPollReactor()
    elif kind == "poll":
        from twisted.internet.pollreactor import PollReactor
        w = PollReactor()
    else:
        w = SelectReactor()
    info["reactor"], info["ident"] = w, threading.get_ident()
    w.callWhenRunning(started.set)
    w.run(installSignalHandlers=False)
th = threading.Thread(target=worker_main, daemon=True); th.start()
if not started.wait(10):
    print("STRESS no-result:worker-did-not-start"); os._exit(0)
worker = info["reactor"]
time.sleep(0.3)                      # let the worker go idle in its poll call
ran, done = [], threading.Event()
def work(i, t0):
    ran.append((i, threading.get_ident(), time.monotonic() - t0))
    if i == ncalls - 1: done.set()
main = SelectReactor()
def hand_over():
    for i in range(ncalls):
        worker.callFromThread(work, i, time.monotonic())
    poll(time.monotonic())
def poll(since):
    if done.is_set() or time.monotonic() - since > 3.0: main.stop()
    else: main.callLater(0.05, poll, since)
main.callWhenRunning(hand_over)
main.run(installSignalHandlers=False)
idx = [r[0] for r in ran]
bad = "ok"
if sorted(idx) != list(range(ncalls)): bad = "idle-call-never-ran" if len(idx) < ncalls else "ran-twice"
elif idx != list(range(ncalls)): bad = "order-thread-0"
elif any(r[1] != info["ident"] for r in ran): bad = "wrong-thread"
print("STRESS " + bad); sys.stdout.flush(); os._exit(0)
'''


def _impl_stress2(case) -> str:
    from harness.common import SRC
    env = dict(os.environ, PYTHONPATH=SRC)
    r = subprocess.run([sys.executable, "-c", _STRESS2, case["stress2"], str(case["calls"])], env=env,
                       capture_output=True, text=True, timeout=60)
    for line in r.stdout.splitlines():
        if line.startswith("STRESS "):
            return "stress " + line[7:]
    return "stress no-result:" + (r.stderr.strip().splitlines() or ["?"])[-1][:80].replace('"', "'")


def _impl_stress(case) -> str:
    from harness.common import SRC
    env = dict(os.environ, PYTHONPATH=SRC)
    r = subprocess.run([sys.executable, "-c", _STRESS, case["stress"], str(case["threads"]), str(case["calls"]),
                        str(case.get("seed", 0))], env=env, capture_output=True, text=True, timeout=150)
    for line in r.stdout.splitlines():
        if line.startswith("STRESS "):
            return "stress " + line[7:]
    return "stress no-result:" + (r.stderr.strip().splitlines() or ["?"])[-1][:80].replace('"', "'")


_SLOW = {"n": 0}
MAX_SLOW = 3      # after this many cases that failed by waiting out a timeout, further real-thread cases are skipped


def impl(case) -> str:
    if _SLOW["n"] >= MAX_SLOW:
        return "skipped-after-%d-timeouts" % _SLOW["n"]
    import time
    t0 = time.time()
    try:
        if "stress2" in case:
            o = _impl_stress2(case)
        elif "stress" in case:
            o = _impl_stress(case)
        else:
            o = _impl_sched(case)
    except _Stuck:
        _SLOW["n"] += 1
        raise
    slow = any(x in o for x in ("threads-alive", "STALL", "_Stuck", "never-ran", "no-result", "latency"))
    if slow and time.time() - t0 > 1.5:
        _SLOW["n"] += 1
    return o


# --------------------------------------------------------------------------------------------------------


def oracle(case, obs):
    if obs.startswith("skipped-after-"):
        return None         # the run already has its failures; this case was not executed
    if "stress2" in case:
        if obs != "stress ok":
            return Failure(case, f"{case['stress2']} reactor idle in a secondary thread, {case['calls']} calls handed "
                           f"over from code running inside another reactor: {obs}",
                           "two-reactors-" + obs.split(" ", 1)[1].split(":")[0])
        return None
    if "stress" in case:
        if obs != "stress ok":
            return Failure(case, f"{case['stress']} reactor, {case['threads']} threads x {case['calls']} calls: {obs}",
                           "stress-" + obs.split(" ", 1)[1].split(":")[0].rstrip("0123456789.-s"))
        return None
    body, _, final = obs.partition(" #")
    steps = body.split(" ") if case["sched"] else []
    if len(steps) != len(case["sched"]):
        return Failure(case, "malformed log", "log")
    appended, executed = [], []
    woken = {}      # thread -> number of its calls whose callFromThread has returned (append and wake done)
    napp = {}
    for i, st in enumerate(steps):
        ev, _, flags = st.partition("|")
        ev = ev.replace("+q", "").replace("+W", "") if case.get("sig") else ev
        where = f"step {i} ({case['sched'][i]} -> {ev}): "
        if ev == "xS":
            continue
        if ev.startswith("a"):
            t, n = map(int, ev[1:].rstrip("!").split("."))
            if n != napp.get(t, 0):
                return Failure(case, where + "append out of issue order", "append-order")
            napp[t] = n + 1
            appended.append((t, n))
        elif ev.startswith("w"):
            t = int(ev[1:].rstrip("!"))
        if ev.endswith("!"):
            woken[case["sched"][i]] = napp.get(case["sched"][i], 0)
        elif ev.startswith("x"):
            t, n = map(int, ev[1:].split("."))
            if (t, n) in executed:
                return Failure(case, where + "call executed twice", "ran-twice")
            if (t, n) not in appended:
                return Failure(case, where + "call executed that was never issued", "ran-unissued")
            if n != len([1 for tt, _ in executed if tt == t]):
                return Failure(case, where + "calls of one thread executed out of issue order", "per-thread-order")
            executed.append((t, n))
        if "z" in flags and "k" not in flags:
            for (t, n) in appended:
                if (t, n) not in executed and n < woken.get(t, 0):
                    return Failure(case, where + f"reactor is going to sleep / asleep, waker not pending, but call "
                                   f"{t}.{n} (callFromThread returned) has not run: lost wake-up", "lost-wakeup")
    if final != "ok":
        return Failure(case, "after the schedule, running freely: " + final, "final-" + final.split("-")[0].split(":")[0])
    return None


def _interleavings(a, b):
    """all merges of sequences a and b"""
    if not a:
        yield list(b)
        return
    if not b:
        yield list(a)
        return
    for r in _interleavings(a[1:], b):
        yield [a[0]] + r
    for r in _interleavings(a, b[1:]):
        yield [b[0]] + r


def gen(rng, tier):
    cases = []
    # every interleaving of one producer's steps with a reactor that starts idle, and with one that is mid-batch
    for k, nr in ((1, 9), (2, 7)) if tier == "quick" else ((1, 12), (2, 10), (3, 7)):
        for m in _interleavings([0] * (2 * k), ["R"] * nr):
            cases.append({"wants": [k], "sched": m + ["R"] * (8 + k)})
            # the same interleaving with a raising call (alone in its batch / first / last of a batch)
            for bad in ([[0, 0]], [[0, k - 1]]) if k > 1 else ([[0, 0]],):
                if rng.random() < (0.5 if tier == "quick" else 1.0):
                    cases.append({"wants": [k], "sched": m + ["R"] * (8 + 2 * k), "raises": bad})
    pre = [0, 0, "R", "R", "R"]        # first call appended+woken, reactor has read total=1 and is about to run it
    for m in _interleavings([0, 0, 1, 1], ["R"] * (5 if tier == "quick" else 7)):
        cases.append({"wants": [2, 1], "sched": pre + m + ["R"] * 10})
    # random schedules
    for _ in range(150 if tier == "quick" else 6000):
        n = rng.choice([1, 2, 2, 3, 4])
        wants = [rng.randrange(0, 5) for _ in range(n)]
        sched = []
        L = rng.randrange(10, 90)
        bias = rng.choice([0.3, 0.5, 0.7])
        while len(sched) < L:
            if rng.random() < 0.15:
                bias = rng.choice([0.15, 0.5, 0.85])
            r = rng.random()
            if r < 0.04:
                sched.append("u")
            elif r < 0.04 + bias * 0.96:
                sched.append("R")
            else:
                sched.append(rng.randrange(n + (1 if rng.random() < 0.05 else 0)))
        case = {"wants": wants, "sched": sched}
        if rng.random() < 0.3:
            case["kw"] = [[t, k, rng.choice(["delay", "callable", "delay"])] for t in range(n)
                          for k in range(wants[t]) if rng.random() < 0.3]
        if rng.random() < 0.2 and sum(wants):
            case["sig"] = [[t, k, rng.choice(["sigTerm", "sigInt"])] for t in range(n)
                           for k in range(wants[t]) if rng.random() < 0.25][:2]
        if rng.random() < 0.3:
            case["cancels"] = [[t, k] for t in range(n) for k in range(wants[t]) if rng.random() < 0.3]
        if rng.random() < 0.5:
            p = rng.choice([0.15, 0.4, 1.0])
            case["raises"] = [[t, k] for t in range(n) for k in range(wants[t]) if rng.random() < p]
        cases.append(case)
    # a reactor idling in another thread, calls handed over from inside a second reactor
    for kind in ("asyncio", "epoll", "select"):
        cases.append({"stress2": kind, "calls": 5})
    # supporting stress on the real reactors
    for kind in ("select", "poll", "epoll", "asyncio"):
        if tier == "quick":
            cases.append({"stress": kind, "threads": 4, "calls": 1500, "seed": rng.randrange(1000)})
        else:
            for th in (1, 4, 16):
                cases.append({"stress": kind, "threads": th, "calls": 10000, "seed": rng.randrange(1000)})
    return cases


def corpus():
    return [
        # append lands between the reactor's emptiness test and its going to sleep; the wake-up must survive the drain
        {"wants": [1], "sched": ["R", 0, "R", "R", 0, "R", "R", "R", "R", "R", "R", "R", "R"]},
        # call appended while a batch is running: left for the next iteration, reactor re-wakes itself
        {"wants": [3], "sched": [0, 0, "R", "R", 0, "R", 0, "R", "R", "R", "R", "R", "R", "R", "R", "R", "R", "R", "R"]},
        # spurious poll return
        {"wants": [1, 1], "sched": ["R", "R", "u", "R", 0, 1, "R", "R", "R", 1, 0, "R", "R", "R", "R", "R", "R"]},
        # SIGTERM arrives while the first of three queued calls is executing (the handler runs inside it)
        {"wants": [3], "sched": [0, 0, 0, 0, 0, 0] + ["R"] * 18, "sig": [[0, 0, "sigTerm"]]},
        {"wants": [2, 1], "sched": [0, 0, 1, 1, 0, 0] + ["R"] * 18, "sig": [[0, 1, "sigInt"]]},
        # a call issued with a keyword argument called `delay`, between two ordinary ones
        {"wants": [3], "sched": [0, 0, 0, 0, 0, 0] + ["R"] * 14, "kw": [[0, 1, "delay"]]},
        # a house-keeping call that cancels every pending timer, queued together with two ordinary calls
        {"wants": [3], "sched": [0, 0, 0, 0, 0, 0] + ["R"] * 14, "cancels": [[0, 0]]},
        # a call that raises, alone in its batch: it ran once and is removed from the queue
        {"wants": [1], "sched": [0, 0] + ["R"] * 14, "raises": [[0, 0]]},
        # raising calls first and last in a batch of three, one more call appended while the batch runs
        {"wants": [4], "sched": [0, 0, 0, 0, 0, 0, "R", "R", "R", 0, 0] + ["R"] * 16, "raises": [[0, 0], [0, 2]]},
    ]


def to_coq(case):
    if "stress" in case or "stress2" in case or case.get("sig"):
        return None
    lab = lambda x: "Reactor" if x == "R" else "Spurious" if x == "u" else f"Prod {x}"
    return f"({coq_list([coq_nat(k) for k in case['wants']], 'nat')}, {coq_list([lab(x) for x in case['sched']], 'label')})"


def shrink(case):
    if "stress" in case or "stress2" in case:
        return
    s = case["sched"]
    for i in range(len(s)):
        yield {**case, "sched": s[:i] + s[i + 1:]}


def search(rng):
    """extra cases when a tie broke: more random schedules and the quick stress set (not the 10^4-call one)"""
    out = []
    for _ in range(3):
        out += [c for c in gen(rng, "quick")]
    return out


SPEC = Spec(
    pid="C13",
    gen=gen, impl=impl, oracle=oracle, corpus=corpus, shrink=shrink, search=search,
    coq_header="From C13 Require Import Model Run.",
    coq_fn="run_show",
    to_coq=to_coq,
    model_equal=lambda c, a, b: a.startswith("skipped-after-") or a.partition(" #")[0].replace("!", "") == b,
    nontrivial=lambda c, o: "x" in o or o == "stress ok",
    histogram=lambda c, o: ("stress " + c["stress"]) if "stress" in c else ("two reactors " + c["stress2"])
    if "stress2" in c else f"{len(c['wants'])} producer(s)",
    rule="scheduled traces: every interleaving of one producer's 2/4 (thorough 6) atomic steps with the first 9/7 "
         "(12/10/7) reactor steps, every interleaving of two producers' steps with a reactor that is in the middle of "
         "a batch, and random schedules of 10-90 steps over 1-4 producers x 0-4 calls with spurious poll returns; each "
         "observed step (value read by len(), call run, slice deleted, re-wake, sleep/wake/drain, waker flag) must equal "
         "the LTS's; in about half of the schedules some calls raise an Exception subclass (each must still count as run "
         "once, be removed from the queue and be logged exactly once); plus one stress run per real reactor (select, poll, epoll, asyncio): 4 threads x 1500 calls (thorough "
         "1/4/16 x 10^4), order, exactly-once, reactor thread, every 7th call raising, idle-call latency < 5 s; non-trivial = some call ran",
    trusted=["hand-written LTS coq/C13/Model.v (tied by trace validation only)",
             "hypotheses of the LTS, not checked: list.append / len / del-slice / list iteration step are atomic under "
             "the GIL; a byte written to the waker pipe makes the poll call return and doRead consumes all pending bytes",
             "the in-harness scheduler (threads stopped at instrumented points of a list subclass and a fake waker "
             "installed through SelectReactor._wakerFactory; the poll call replaced by waiting for the waker flag)"],
    assumptions=["real preemption points inside the instrumented segments are not enumerated (only those between the "
                 "atomic list operations and wakeUp are)",
                 "calls made by the reactor thread itself through callFromThread are not scheduled"],
    case_timeout=200.0,
)
