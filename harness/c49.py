"""C49 — Team with in-memory workers: H-tie.

The REAL ``twisted._threads._team.Team`` is built with a real ``createMemoryWorker()`` coordinator and real
memory workers (wrapped only to log ``do``/``quit`` calls), a ``createWorker`` that applies the rule of
``_pool.limitedWorkerCreator`` (``idle + busy < limit``) to a limit the schedule can change, and is stepped by
the schedule: client calls, "coordinator performs one job", "worker w performs one item".  Which worker
``set.pop()`` hands out is observed (the worker that then receives ``do``/``quit``) and fed to the model's
choice list, so the model follows the real set whatever its iteration order.

case = {"limit": int, "ops": [["do", id, raises] | ["grow", n] | ["shrink", n|None] | ["quit"] | ["limit", k]
                               | ["coord"] | ["work", w] | ["drain"]]}
``drain`` = perform coordinator and workers round-robin until nothing is left to perform (expanded into explicit
coord/work steps, which is what the model is given).
"""
from __future__ import annotations

import itertools
import threading

from harness.common import Failure, Spec, coq_bool, coq_list, coq_option, stable_hash

_EXPANDED: dict[str, list] = {}     # case hash -> explicit label list with observed choices


class _ObsWorker:
    """an IWorker that logs and delegates to a real MemoryWorker"""

    def __init__(self, idx, real, log):
        self.idx, self.real, self.log = idx, real, log

    def __hash__(self):
        return self.idx

    def __eq__(self, other):
        return self is other

    def do(self, work):
        self.log.append(("d", self.idx))
        self.real.do(work)

    def quit(self):
        self.log.append(("q", self.idx))
        self.real.quit()


def impl(case) -> str:
    if case.get("kind") == "pool":
        return pool_impl(case)
    from twisted._threads import AlreadyQuit, createMemoryWorker
    from twisted._threads._team import Team

    log = []
    limit = [case["limit"]]
    workers = []        # (ObsWorker, perform)
    coord_real, coord_perform = createMemoryWorker()

    class Coord:
        def do(self, work):
            coord_real.do(work)

        def quit(self):
            log.append(("Q", None))
            coord_real.quit()

    def create():
        st = team.statistics()
        if st.idleWorkerCount + st.busyWorkerCount >= limit[0]:
            return None
        real, perform = createMemoryWorker()
        w = _ObsWorker(len(workers), real, log)
        workers.append((w, perform))
        log.append(("c", w.idx))
        return w

    team = Team(Coord(), create, lambda: log.append(("err", None)))
    out, labels = [], []

    def stats():
        st = team.statistics()
        return f"/{st.idleWorkerCount}.{st.busyWorkerCount}.{st.backloggedWorkCount}"

    def mktask(tid, raises):
        def task():
            log.append(("ran", tid))
            if raises:
                raise RuntimeError("task failure")
        return task

    def client(fn):
        try:
            fn()
            return "ok"
        except AlreadyQuit:
            return "AQ"

    def coord_step():
        del log[:]
        before = team.statistics().backloggedWorkCount
        if not coord_perform():
            ev = ["-"]
        else:
            ev = [("Q" if k == "Q" else f"{k}{w}") for k, w in log if k in ("c", "d", "q", "Q")]
            if team.statistics().backloggedWorkCount == before + 1 and not any(k == "d" for k, _ in log):
                ev.append("b")
        labels.append(["coord", [w for k, w in log if k in ("d", "q")]])
        out.append(",".join(ev) + stats())
        return ev != ["-"]

    def work_step(w):
        del log[:]
        labels.append(["work", w])
        if w >= len(workers) or not workers[w][1]():
            out.append("-" + stats())
            return False
        ran = [t for k, t in log if k == "ran"]
        errs = [1 for k, _ in log if k == "err"]
        tid, raises = ran[0]
        out.append(",".join(f"r{w}:{t}{'!' if errs else ''}" for t in [tid]) + stats())
        return True

    _EXPANDED[stable_hash(case)] = labels      # also when the run below raises: what was done so far
    for op in case["ops"]:
        if op[0] == "do":
            t = (op[1], bool(op[2]))
            out.append(client(lambda: team.do(mktask(t, t[1]))) + stats())
            labels.append(op)
        elif op[0] == "grow":
            out.append(client(lambda: team.grow(op[1])) + stats())
            labels.append(op)
        elif op[0] == "shrink":
            out.append(client(lambda: team.shrink(op[1])) + stats())
            labels.append(op)
        elif op[0] == "quit":
            out.append(client(team.quit) + stats())
            labels.append(op)
        elif op[0] == "limit":
            limit[0] = op[1]
            out.append("lim" + stats())
            labels.append(op)
        elif op[0] == "coord":
            coord_step()
        elif op[0] == "work":
            work_step(op[1])
        elif op[0] == "drain":
            for _ in range(400):
                progressed = coord_step()
                if not progressed:
                    labels.pop(), out.pop()
                for w in range(len(workers)):
                    if work_step(w):
                        progressed = True
                    else:
                        labels.pop(), out.pop()
                if not progressed:
                    break
            else:
                raise RuntimeError("drain did not terminate")
        else:
            raise ValueError(op)
    _EXPANDED[stable_hash(case)] = labels
    return " ".join(out)


def expanded(case):
    h = stable_hash(case)
    if h not in _EXPANDED:
        try:
            impl(case)
        except Exception:
            pass
    return _EXPANDED[h]


# --------------------------------------------------------------------------------------------------
# the property on the implementation's log (plain bookkeeping, no model of Team)


def oracle(case, obs):
    if case.get("kind") == "pool":
        return pool_oracle(case, obs)
    labels = expanded(case)
    steps = obs.split(" ") if obs else []
    if len(steps) != len(labels):
        return Failure(case, "malformed trace", "trace")
    limit = case["limit"]
    quit_ok = False             # a quit() call was accepted
    accepted, ran = [], []
    created, wquit = [], set()
    outstanding = {}            # worker -> number of do() calls whose task has not run yet
    coord_quit = 0
    prev = None
    jobs = []                   # the coordinator's queue as the calls made it: ("do"|"grow"|"shrink"|"quit"|"idle", arg)
    for k, (lab, s) in enumerate(zip(labels, steps)):
        evs, _, stat = s.partition("/")
        idle_n, busy_n, back_n = map(int, stat.split("."))
        where = f"step {k} {lab} -> {s}: "
        if lab[0] in ("do", "grow", "shrink", "quit"):
            if quit_ok and evs != "AQ":
                return Failure(case, where + "call accepted after quit()", "accepted-after-quit")
            if not quit_ok and evs != "ok":
                return Failure(case, where + "call refused before quit()", "refused-before-quit")
            if evs == "ok":
                jobs.append((lab[0], lab[1] if len(lab) > 1 else None))
                if lab[0] == "do":
                    accepted.append(lab[1])
                if lab[0] == "quit":
                    quit_ok = True
        elif lab[0] == "limit":
            limit = lab[1]
        elif lab[0] == "coord":
            if coord_quit and evs != "-":
                return Failure(case, where + "the coordinator performed a job after it was quit", "coord-after-quit")
            job = jobs.pop(0) if evs != "-" and jobs else None
            if job and job[0] == "grow" and job[1] and prev is not None and prev[2] > 0 and prev[0] + prev[1] < limit \
                    and "c" not in [e[:1] for e in evs.split(",")]:
                return Failure(case, where + f"grow({job[1]}) was served with {prev[2]} tasks waiting and "
                               f"{prev[0] + prev[1]} live workers < limit {limit}, but no worker was created: the waiting "
                               "tasks are stranded", "grow-ignored-with-backlog")
            for e in evs.split(","):
                if not e or e in ("-", "b"):
                    continue
                if e[0] == "c":
                    live = len(created) - len(wquit)
                    if live >= limit:
                        return Failure(case, where + f"worker created while {live} live workers >= limit {limit}",
                                       "created-at-limit")
                    created.append(int(e[1:]))
                elif e[0] == "d":
                    w = int(e[1:])
                    if w in wquit:
                        return Failure(case, where + "work given to a worker that was quit", "do-after-worker-quit")
                    outstanding[w] = outstanding.get(w, 0) + 1
                    if outstanding[w] > 1:
                        return Failure(case, where + f"worker {w} was given a second task before finishing the first",
                                       "two-tasks-one-worker")
                elif e[0] == "q":
                    w = int(e[1:])
                    if w in wquit:
                        return Failure(case, where + f"worker {w} quit twice", "worker-quit-twice")
                    if outstanding.get(w, 0):
                        return Failure(case, where + f"worker {w} quit while it still has a task", "quit-busy-worker")
                    wquit.add(w)
                elif e == "Q":
                    coord_quit += 1
                    if coord_quit > 1:
                        return Failure(case, where + "coordinator quit twice", "coord-quit-twice")
                    if not quit_ok:
                        return Failure(case, where + "coordinator quit without Team.quit()", "coord-quit-early")
        elif lab[0] == "work" and evs != "-":
            jobs.append(("idle", lab[1]))
            w, t = evs[1:].split(":")
            tid = int(t.rstrip("!"))
            raised = t.endswith("!")
            want = [x for x in case["ops"] if x[0] == "do" and x[1] == tid]
            if tid in ran:
                return Failure(case, where + f"task {tid} ran twice", "task-ran-twice")
            if tid not in accepted:
                return Failure(case, where + f"task {tid} ran but was never accepted", "task-invented")
            if want and bool(want[0][2]) != raised:
                return Failure(case, where + "logException called iff the task raises: violated", "error-logging")
            ran.append(tid)
            outstanding[int(w)] = outstanding.get(int(w), 0) - 1
        # statistics agree with the log
        live = len(created) - len(wquit)
        if idle_n + busy_n != live:
            return Failure(case, where + f"statistics idle+busy={idle_n + busy_n} but {live} live workers", "statistics")
        # tasks wait in the backlog only while no worker is idle, and no worker is released while they wait
        if back_n > 0 and idle_n > 0:
            return Failure(case, where + f"{back_n} backlogged tasks while {idle_n} workers are idle", "idle-with-backlog")
        if prev is not None and prev[2] > 0 and busy_n < prev[1]:
            return Failure(case, where + f"a busy worker was released ({prev[1]} -> {busy_n} busy) while {prev[2]} tasks "
                           "were waiting in the backlog", "worker-released-with-backlog")
        prev = (idle_n, busy_n, back_n)
    # quiescence (the case ended with a drain): nothing left to perform
    if case["ops"] and case["ops"][-1][0] == "drain":
        missing = [t for t in accepted if t not in ran]
        if missing and (idle_n > 0 or busy_n > 0):
            return Failure(case, f"at quiescence tasks {missing} never ran although {idle_n} idle / {busy_n} busy "
                           "workers exist", "task-lost")
        if missing and back_n != len(missing):
            return Failure(case, f"at quiescence tasks {missing} never ran and are not in the backlog", "task-lost")
        if quit_ok:
            if len(created) != len(wquit):
                return Failure(case, f"after quit() and drain {len(created) - len(wquit)} workers are not stopped",
                               "worker-not-stopped")
            if coord_quit != 1:
                return Failure(case, "after quit() and drain the coordinator was not quit", "coord-not-stopped")
    return None



# --------------------------------------------------------------------------------------------------
# the real ThreadPool (OS threads): oracle-only cases {"kind": "pool", ...}; not modelled in Coq
#
# case = {"kind": "pool", "min": m, "max": M, "pre": k (tasks submitted before start()), "adjust": [m2, M2] | None,
#         "tasks": [[how, cb], ...],   how in POOL_KINDS; cb: 1 = callInThreadWithCallback, 0 = callInThread
#         (cb: 2 / 3 / 4 = a callback that itself raises when told of a success / of a failure / always)
#         "saw": [i, ...] startAWorker() before task i (len(tasks) = before stop()),
#         "sow": [i, ...] stopAWorker() before task i and before a start() due at i (len(tasks) = before a late start()),
#         "fault": k  the k-th call of the thread factory raises RuntimeError("can't start new thread") once}

POOL_KINDS = ["ret", "exc", "sysexit", "genexit", "base", "slow"]


class _Cancelled(BaseException):
    """a BaseException that is not an Exception (cancellation-style)"""


_QUIET = []


def _quiet_logging():
    """failures of callback-less tasks are reported through log.err; keep them off this process's stderr"""
    if not _QUIET:
        from twisted.logger import globalLogBeginner
        globalLogBeginner.beginLoggingTo([lambda event: None], redirectStandardIO=False, discardBuffer=True)
        _QUIET.append(1)


class _PoolThread(threading.Thread):
    """a thread whose join() gives up after 2 s, so that a stop() that cannot stop its workers shows up as
    `alive > 0` in the observation instead of hanging the check (ThreadPool.stop() must run in the submitting
    thread -- LockWorker keeps per-thread state -- so it cannot be moved to a watchdog thread)"""

    def __init__(self, *a, **kw):
        super().__init__(*a, **kw)
        self.daemon = True

    def join(self, timeout=None):
        super().join(2.0 if timeout is None else timeout)


def pool_impl(case) -> str:
    import threading
    import time as _time

    from twisted.python import threadpool

    _quiet_logging()
    name = "verif-c49-pool"
    tp = threadpool.ThreadPool(case["min"], case["max"], name=name)
    lock = threading.Lock()
    calls = {}            # task index -> list of (ok, type name / value)
    ran = {}
    conc = [0, 0]         # current, max
    made = [0]            # thread factory calls
    over = []             # (workers, max) when a thread was created although workers >= max
    fault = case.get("fault")

    def factory(*a, **kw):
        k = made[0]
        made[0] += 1
        if fault is not None and k == fault:
            raise RuntimeError("can't start new thread")      # what the OS says under thread exhaustion
        if tp.workers >= tp.max:
            over.append((tp.workers, tp.max))
        return _PoolThread(*a, **kw)

    tp.threadFactory = factory

    def mk(i, how):
        def f():
            with lock:
                ran[i] = ran.get(i, 0) + 1
                conc[0] += 1
                conc[1] = max(conc[1], conc[0])
            try:
                if how == "slow":
                    _time.sleep(0.003)
                    return ("v", i)
                if how == "ret":
                    return ("v", i)
                if how == "exc":
                    raise ValueError(i)
                if how == "sysexit":
                    raise SystemExit(3)
                if how == "genexit":
                    raise GeneratorExit()
                raise _Cancelled()
            finally:
                with lock:
                    conc[0] -= 1
        return f

    def cb(i, mode):
        # mode 1: returns; 2: raises when told of a success; 3: raises when told of a failure; 4: raises always
        def on(ok, res):
            with lock:
                calls.setdefault(i, []).append((ok, "v" if ok and res == ("v", i) else
                                                "?" if ok else res.type.__name__))
            if mode == 4 or (mode == 2 and ok) or (mode == 3 and not ok):
                raise RuntimeError("the onResult callback itself fails")
        return on

    refused = set()
    notes = []

    def guarded(what, fn):
        """a call that creates threads may be refused visibly (the factory's RuntimeError reaches the caller)"""
        try:
            fn()
            return True
        except RuntimeError as e:
            if "can't start new thread" not in str(e):
                raise
            notes.append(what)
            return False

    tasks = case["tasks"]
    saw = case.get("saw") or []
    sow = case.get("sow") or []
    started = False
    try:
        for i, (how, c) in enumerate(tasks):
            for _ in range(sow.count(i)):
                tp.stopAWorker()
            if i == case["pre"]:
                guarded("start", tp.start)
                started = True
            for _ in range(saw.count(i)):
                guarded("startAWorker", tp.startAWorker)
            if case["adjust"] and i == len(tasks) // 2 and started:
                guarded("adjust", lambda: tp.adjustPoolsize(*case["adjust"]))
            if c:
                ok = guarded(f"submit{i}", lambda: tp.callInThreadWithCallback(cb(i, c), mk(i, how)))
            else:
                ok = guarded(f"submit{i}", lambda: tp.callInThread(mk(i, how)))
            if not ok:
                refused.add(i)
        for _ in range(sow.count(len(tasks))):
            tp.stopAWorker()
        if not started:
            guarded("start", tp.start)
        for _ in range(saw.count(len(tasks))):
            guarded("startAWorker", tp.startAWorker)
        tp.stop()
    finally:
        if not tp.joined:
            try:
                tp.stop()
            except Exception:
                pass
    alive = [th for th in tp.threads if th.is_alive()]
    stray = [th for th in threading.enumerate() if th.name.startswith("PoolThread-" + name) and th.is_alive()]
    limit = max(case["max"], (case["adjust"] or [0, 0])[1])
    out = []
    for i, (how, c) in enumerate(tasks):
        got = calls.get(i, [])
        out.append(f"{i}{how}{'X' if i in refused else ''}:r{ran.get(i, 0)}:c{len(got)}"
                   + "".join(f":{'T' if ok else 'F'}{ty}" for ok, ty in got))
    return (" ".join(out) + f" |alive={len(alive)} stray={len(stray)} conc_ok={'T' if conc[1] <= limit else 'F' + str(conc[1])}"
            + f" create_ok={'T' if not over else 'F%d>=%d' % over[0]} refused={','.join(notes) or '-'}")


_POOL_EXC = {"exc": "ValueError", "sysexit": "SystemExit", "genexit": "GeneratorExit", "base": "_Cancelled"}


def pool_oracle(case, obs):
    head, tail = obs.split(" |")
    toks = head.split(" ") if head else []
    if len(toks) != len(case["tasks"]):
        return Failure(case, "malformed observation", "trace")
    for (how, c), tok in zip(case["tasks"], toks):
        parts = tok.split(":")
        nran, ncall, outs = int(parts[1][1:]), int(parts[2][1:]), parts[3:]
        if parts[0].endswith("X"):
            # the submission itself was refused visibly (thread creation failed): it must then not run at all
            if nran or ncall:
                return Failure(case, f"task {tok}: its submission raised, yet it ran {nran} times / reported {ncall} times",
                               "pool-refused-but-ran")
            continue
        if nran != 1:
            return Failure(case, f"task {tok}: ran {nran} times (submitted before stop()"
                           + (", after an earlier thread-creation fault" if case.get("fault") is not None else "") + ")",
                           "pool-task-not-once")
        if c and ncall != 1:
            return Failure(case, f"task {tok}: onResult called {ncall} times for a task that "
                           + ("returns" if how in ("ret", "slow") else f"raises {_POOL_EXC[how]}")
                           + ("" if c == 1 else " (the callback itself raises when told of "
                              + {2: "a success", 3: "a failure", 4: "anything"}[c] + ")"),
                           "pool-onresult-not-once:" + how + ("" if c == 1 else ":cb-raises"))
        if not c and ncall != 0:
            return Failure(case, f"task {tok}: callback invoked for callInThread", "pool-callback-invented")
        if c:
            want = "Tv" if how in ("ret", "slow") else "F" + _POOL_EXC[how]
            if outs != [want]:
                return Failure(case, f"task {tok}: outcome {outs}, expected {want}", "pool-wrong-outcome:" + how)
    if "alive=0 stray=0" not in tail:
        return Failure(case, "stop() returned while pool threads are still alive: " + tail, "pool-stop-not-joined")
    if "create_ok=T" not in tail:
        return Failure(case, "a pool thread was created although idle + busy workers had reached the maximum: " + tail,
                       "pool-created-at-limit")
    if "conc_ok=T" not in tail:
        return Failure(case, "more tasks ran at once than the pool's maximum: " + tail, "pool-over-limit")
    return None


def pool_gen(rng, tier):
    cases = []
    # every kind of outcome on its own and in pairs, with and without callback
    for how in POOL_KINDS:
        for c in (0, 1):
            cases.append({"kind": "pool", "min": 0, "max": 2, "pre": 0, "adjust": None, "tasks": [[how, c]]})
            cases.append({"kind": "pool", "min": 1, "max": 1, "pre": 1, "adjust": None,
                          "tasks": [[how, c], ["ret", 1], [how, 1]]})
    # callback behaviours x task outcomes
    for how in ("ret", "exc", "base"):
        for c in (1, 2, 3, 4):
            cases.append({"kind": "pool", "min": 0, "max": 2, "pre": 0, "adjust": None, "tasks": [[how, c], ["ret", 1]]})
    # a shrink nobody can satisfy (stopAWorker before start / with none alive), work queued before start(), start(), stop()
    for n in (1, 2):
        for k in (1, 2, 3):
            cases.append({"kind": "pool", "min": 0, "max": 3, "pre": n, "adjust": None, "sow": [n] * k,
                          "tasks": [["ret", 1], ["exc", 1]][:n]})
            cases.append({"kind": "pool", "min": 0, "max": 3, "pre": n, "adjust": None, "sow": [0] * k,
                          "tasks": [["ret", 1], ["exc", 1]][:n]})
    # idle workers already at the maximum, then startAWorker(): no thread may be created
    for m in (1, 2, 3):
        cases.append({"kind": "pool", "min": m, "max": m, "pre": 0, "adjust": None, "saw": [0, 0, 2],
                      "tasks": [["ret", 1], ["slow", 1], ["ret", 1]]})
        cases.append({"kind": "pool", "min": 0, "max": m, "pre": 0, "adjust": [m, m], "saw": [2, 3, 4, 4],
                      "tasks": [["slow", 1], ["ret", 1], ["ret", 0], ["exc", 1]]})
    # thread creation fails once (k-th factory call): refused visibly; everything afterwards still works
    for k in (0, 1, 2):
        for mn in (0, 2):
            cases.append({"kind": "pool", "min": mn, "max": 3, "pre": 0, "adjust": None, "fault": k,
                          "tasks": [["ret", 1], ["slow", 1], ["exc", 1], ["ret", 0], ["base", 1], ["ret", 1]]})
    for _ in range(60 if tier == "quick" else 1500):
        mx = rng.randrange(1, 5)
        mn = rng.randrange(0, mx + 1)
        n = rng.randrange(1, 14)
        adj = None
        if rng.random() < 0.4:
            a = rng.randrange(1, 5)
            adj = [rng.randrange(0, a + 1), a]
        c = {"kind": "pool", "min": mn, "max": mx, "pre": rng.choice([0, 0, 0, rng.randrange(0, n + 1)]),
             "adjust": adj,
             "tasks": [[rng.choice(POOL_KINDS), rng.choice([0, 1, 1, 1, 1, 2, 3, 4])] for _ in range(n)]}
        if rng.random() < 0.3:
            c["sow"] = sorted(rng.randrange(0, n + 1) for _ in range(rng.randrange(1, 4)))
        if rng.random() < 0.4:
            c["saw"] = sorted(rng.randrange(0, n + 1) for _ in range(rng.randrange(1, 4)))
        if rng.random() < 0.3:
            c["pre"] = 0            # tasks queued before a start() that is refused may legitimately wait for ever
            c["fault"] = rng.randrange(0, 4)
        cases.append(c)
    return cases

# --------------------------------------------------------------------------------------------------
# cases


def gen(rng, tier):
    quick = tier == "quick"
    cases = []
    # exhaustive small schedules: 2 tasks, limit in {0,1,2}; every word over a small alphabet, then drain
    alpha = [["do"], ["coord"], ["work", 0], ["work", 1], ["quit"], ["shrink", 1], ["grow", 1], ["limit", 0], ["limit", 2]]
    # a shrink nobody can satisfy, work backlogged with no worker alive, then the limit raised and growth requested
    for over in (1, 2, 3):
        for g in (1, 2, 3):
            for tail in ([], [["quit"], ["drain"]]):
                cases.append({"limit": 0, "ops": [["shrink", over], ["do", 0, 0], ["do", 1, 1], ["drain"], ["limit", 2],
                                                  ["grow", g], ["drain"]] + tail})
                cases.append({"limit": 1, "ops": [["do", 0, 0], ["drain"], ["shrink", over + 1], ["drain"], ["limit", 0],
                                                  ["do", 1, 0], ["drain"], ["limit", 2], ["grow", g], ["drain"]] + tail})
    full = 3 if quick else 4          # exhaustive up to this length
    depth = 6 if quick else 7         # longer words sampled
    for lim in (0, 1, 2):
        for n in range(1, depth + 1):
            words = itertools.product(range(len(alpha)), repeat=n)
            if n > full:
                k = 120 if quick else 400
                words = [tuple(rng.randrange(len(alpha)) for _ in range(n)) for _ in range(k)]
            for word in words:
                ops, tid = [], 0
                for a in word:
                    o = alpha[a]
                    if o[0] == "do":
                        ops.append(["do", tid, tid % 2])
                        tid += 1
                    else:
                        ops.append(list(o))
                cases.append({"limit": lim, "ops": ops + [["drain"]]})
    # random longer schedules
    for _ in range(350 if quick else 1500):
        lim = rng.choice([0, 1, 1, 2, 3, 4])
        ops, tid = [], 0
        for _ in range(rng.randrange(4, 40)):
            r = rng.random()
            if r < 0.25:
                ops.append(["do", tid, int(rng.random() < 0.3)])
                tid += 1
            elif r < 0.50:
                ops.append(["coord"])
            elif r < 0.72:
                ops.append(["work", rng.randrange(0, 5)])
            elif r < 0.78:
                ops.append(["grow", rng.randrange(0, 4)])
            elif r < 0.85:
                ops.append(["shrink", rng.choice([None, 0, 1, 2, 3])])
            elif r < 0.91:
                ops.append(["limit", rng.randrange(0, 5)])
            elif r < 0.95:
                ops.append(["quit"])
            else:
                ops.append(["drain"])
        if rng.random() < 0.8:
            ops.append(["drain"])
        cases.append({"limit": lim, "ops": ops})
    return cases + pool_gen(rng, tier)


def corpus():
    return [
        # all workers busy, one task backlogged, shrink covering every worker, workers finish, quit
        {"limit": 1, "ops": [["do", 0, 0], ["do", 1, 0], ["coord"], ["coord"], ["shrink", 1], ["coord"], ["work", 0],
                             ["drain"], ["quit"], ["drain"]]},
        {"limit": 2, "ops": [["do", 0, 0], ["do", 1, 1], ["do", 2, 0], ["drain"], ["shrink", None], ["do", 3, 0], ["do", 4, 0],
                             ["do", 5, 0], ["coord"], ["coord"], ["coord"], ["coord"], ["shrink", 2], ["drain"], ["quit"],
                             ["drain"]]},
        {"kind": "pool", "min": 0, "max": 2, "pre": 0, "adjust": None,
         "tasks": [["sysexit", 1], ["genexit", 1], ["base", 1], ["exc", 1], ["ret", 1], ["base", 0]]},
        {"limit": 2, "ops": [["do", 0, 0], ["do", 1, 1], ["do", 2, 0], ["coord"], ["coord"], ["coord"], ["work", 0],
                             ["quit"], ["drain"]]},
        {"limit": 0, "ops": [["do", 0, 0], ["coord"], ["quit"], ["drain"]]},
        {"limit": 3, "ops": [["grow", 3], ["coord"], ["shrink", 1], ["do", 0, 0], ["coord"], ["coord"], ["limit", 1],
                             ["do", 1, 0], ["do", 2, 1], ["drain"], ["shrink", None], ["drain"], ["do", 3, 0], ["drain"],
                             ["quit"], ["do", 4, 0], ["grow", 1], ["drain"]]},
        {"limit": 1, "ops": [["do", 0, 0], ["do", 1, 0], ["coord"], ["coord"], ["shrink", 1], ["coord"], ["work", 0],
                             ["drain"]]},
    ]


def to_coq(case):
    nat = lambda v: f"{v}%nat"

    def lab(o):
        if o[0] == "do":
            return f"Do ({nat(o[1])}, {coq_bool(bool(o[2]))})"
        if o[0] == "grow":
            return f"Grow {nat(o[1])}"
        if o[0] == "shrink":
            return f"Shrink {coq_option(None if o[1] is None else nat(o[1]), 'nat')}"
        if o[0] == "quit":
            return "Quit"
        if o[0] == "limit":
            return f"SetLimit {nat(o[1])}"
        if o[0] == "coord":
            return f"Coord {coq_list(map(nat, o[1]), 'nat')}"
        return f"Work {nat(o[1])}"

    if case.get("kind") == "pool":
        if case.get("fault") is not None:
            return None             # a refused submission never reaches the wrapper
        hows = {"ret": "HRet", "slow": "HSlow", "exc": "HExc", "sysexit": "HSysExit", "genexit": "HGenExit", "base": "HBase"}
        cbs = ["NoCb", "CbOk", "CbRaiseOnOk", "CbRaiseOnFail", "CbRaiseAlways"]
        calls = coq_list((f"({hows[h]}, {cbs[c]})" for h, c in case["tasks"]), "(how * cbmode)%type")
        return f"(@inr (nat * list label) _ {calls})"
    labels = expanded(case)
    if len(labels) > 400:
        return None
    return f"(@inl _ (list (how * cbmode)) ({nat(case['limit'])}, {coq_list(map(lab, labels), 'label')}))"


def model_equal(case, a, b):
    if case.get("kind") == "pool":
        # the wrapper model speaks about each call (body runs, reports); threads, limits, stop() are the oracle's
        head = a.split(" |")[0]
        return " ".join(tok.split(":", 1)[1] for tok in head.split(" ")) == b if head else b == ""
    return a == b


def shrink(case):
    if case.get("kind") == "pool":
        ts = case["tasks"]
        for i in range(min(len(ts), 6)):
            yield {**case, "tasks": ts[:i] + ts[i + 1:], "pre": min(case["pre"], len(ts) - 1),
                   "saw": [min(x, len(ts) - 1) for x in case.get("saw") or []]}
        return
    ops = case["ops"]
    for i in range(len(ops)):
        yield {**case, "ops": ops[:i] + ops[i + 1:]}


SPEC = Spec(
    pid="C49",
    gen=gen, impl=impl, oracle=oracle, corpus=corpus, shrink=shrink,
    coq_header="From C49 Require Import Model Wrapper Run.",
    coq_fn="run_show_any",
    to_coq=to_coq,
    model_equal=model_equal,
    nontrivial=lambda c, o: ":" in o and ("q" in o or c.get("kind") == "pool"),
    histogram=lambda c, o: ("real ThreadPool" if c.get("kind") == "pool" else
                            f"limit={c['limit']} quit={'y' if ['quit'] in c['ops'] else 'n'}"),
    rule="every word up to length 3 (quick; thorough 4; longer ones up to 6 / 7 sampled) over {do, coordinator step, worker 0/1 "
         "step, quit, shrink(1), grow(1), limit:=0, limit:=2} for limit in {0,1,2}, each followed by a drain to quiescence; random "
         "schedules of 4-40 ops with tasks that raise, grow/shrink(n|None), limit changes, quit and drains; "
         "non-trivial = a task ran and a worker was quit",
    trusted=["hand-written model coq/C49/Model.v (tied by this correspondence run only)",
             "set.pop() is an arbitrary choice: the model takes the worker the real set handed out (observed through "
             "the do/quit call that follows); theorems hold for every choice list",
             "harness worker wrappers only log and delegate to real MemoryWorker objects"],
    assumptions=["memory workers (createMemoryWorker): each coordinator job and each worker item runs atomically; "
                 "real threads (ThreadWorker/LockWorker, python/threadpool.py) are not modelled",
                 "createWorker follows _pool.limitedWorkerCreator: idle + busy < limit"],
)
