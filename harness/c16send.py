"""C16, the SEND clause — "every message sent with the protocol's send method is received as exactly that message".

case = {"kind": "send", "proto": "line" | "lineonly" | "int8" | "int16" | "int32" | "netstring", "max", "delim": hex (lines),
        "msgs": [hex, ...]}
sendLine / sendString of each message on ONE connection; everything written to the transport, cut in the middle, is then
delivered to a receiver of the same class.
Observation: [OK,ERR,... ] W:<hex written> => <events as in c16.py> |open|closed     (the OK/ERR list only for the IntN kinds:
sendString raises StringTooLongError for a string that does not fit the prefix)
"""
from __future__ import annotations

from harness.common import Failure, coq_bytes, coq_list

INT = {"int8": 1, "int16": 2, "int32": 4}


def impl(case) -> str:
    from twisted.internet.testing import StringTransport
    from twisted.protocols import basic
    from harness.c16 import _protocol, run_impl

    proto = case["proto"]
    p = _protocol(proto, [])
    if proto in ("line", "lineonly"):
        p.delimiter = bytes.fromhex(case["delim"])
    t = StringTransport()
    p.makeConnection(t)
    calls = []
    for m in case["msgs"]:
        m = bytes.fromhex(m)
        if proto in ("line", "lineonly"):
            p.sendLine(m)
        else:
            try:
                p.sendString(m)
                calls.append("OK")
            except basic.StringTooLongError:
                calls.append("ERR")
    w = t.value()
    h = len(w) // 2
    back = run_impl(proto, case["max"], bytes.fromhex(case.get("delim", "")), [w[:h], w[h:]])
    return ((",".join(calls) + " ") if proto in INT else "") + "W:" + w.hex() + " => " + back


def oracle(case, obs):
    proto, mx = case["proto"], case["max"]
    msgs = [bytes.fromhex(m) for m in case["msgs"]]
    head, back = obs.split(" => ")
    wire = bytes.fromhex(head.split("W:")[1])
    evs = back.rsplit(" |", 1)[0].split(" ") if back.rsplit(" |", 1)[0] else []
    if proto in ("line", "lineonly"):
        delim = bytes.fromhex(case["delim"])
        want = b"".join(m + delim for m in msgs)
        if wire != want:
            k = next(i for i in range(len(msgs) + 1) if not wire.startswith(b"".join(m + delim for m in msgs[:i + 1])))
            return Failure(case, f"sendLine({msgs[k]!r}) with delimiter {delim!r} wrote {wire[len(b''.join(m + delim for m in msgs[:k])):][:40]!r}..., "
                                 f"expected the line followed by the delimiter", f"{proto}-sendline-wire-differs")
        if all((m + delim).find(delim) == len(m) and len(m) <= mx for m in msgs):
            if evs != ["L:" + m.hex() for m in msgs] or not back.endswith("|open"):
                return Failure(case, f"lines sent {[m.hex() for m in msgs]}, received {back}", f"{proto}-send-receive-differs")
        return None
    if proto in INT:
        k = INT[proto]
        calls = head.split(" ")[0].split(",") if msgs else []
        want, sent = b"", []
        for m, c in zip(msgs, calls):
            fits = len(m) < 256 ** k
            if (c == "OK") != fits:
                return Failure(case, f"sendString of {len(m)} bytes with a {k}-byte prefix: {c}", f"{proto}-sendstring-refusal")
            if fits:
                want += len(m).to_bytes(k, "big") + m
                sent.append(m)
        if wire != want:
            return Failure(case, "sendString wrote something else than prefix + string", f"{proto}-sendstring-wire-differs")
        if all(len(m) <= mx for m in sent) and (evs != ["S:" + m.hex() for m in sent] or not back.endswith("|open")):
            return Failure(case, f"strings sent {[m.hex()[:20] for m in sent]}, received {back[:200]}", f"{proto}-send-receive-differs")
        return None
    want = b"".join(str(len(m)).encode() + b":" + m + b"," for m in msgs)
    if wire != want:
        return Failure(case, "sendString wrote something else than len:string,", "netstring-sendstring-wire-differs")
    if all(len(m) <= mx for m in msgs) and (evs != ["S:" + m.hex() for m in msgs] or not back.endswith("|open")):
        return Failure(case, f"strings sent {[m.hex()[:20] for m in msgs]}, received {back[:200]}", "netstring-send-receive-differs")
    return None


def hostile_line(rng, delim, mx):
    """lines over the bytes of the delimiter: trailing / leading CR, LF, LF CR, CR CR, proper prefixes of the delimiter ..."""
    alpha = bytes(set(delim)) + b"x"
    tails = [b"", delim[:1], delim[-1:], delim[-1:] + delim[:1], delim[:1] * 2, delim[:-1], delim[1:], delim[::-1]]
    body = bytes(rng.choice(alpha) for _ in range(rng.choice([0, 1, 2, 3])))
    l = rng.choice([b"", delim[-1:], delim[1:]]) + body + rng.choice(tails)
    return l[:mx] if rng.random() < 0.8 else l


def gen(rng, tier):
    from harness.c16 import DELIMS
    n = 60 if tier == "quick" else 1500
    cases = []
    for _ in range(n):
        delim = rng.choice(DELIMS + [b"\r\n", b"\r\n", b"\n", b"\r", b"\x00"])
        mx = rng.choice([3, 4, 8, 16384])
        for proto in ("line", "lineonly"):
            cases.append({"kind": "send", "proto": proto, "max": mx, "delim": delim.hex(),
                          "msgs": [hostile_line(rng, delim, mx).hex() for _ in range(rng.choice([1, 1, 2, 4]))]})
    for _ in range(n // 2):
        proto = rng.choice(["int8", "int16", "int32", "netstring"])
        mx = rng.choice([3, 10, 255, 300, 99999])
        lens = [rng.choice([0, 1, 9, 10, 11, 99, 100, 254, 255, 256, 257]) for _ in range(rng.choice([1, 2, 3]))]
        cases.append({"kind": "send", "proto": proto, "max": mx, "msgs": [bytes(rng.choice(b"0:,\x00a") for _ in range(k)).hex() for k in lens]})
    return cases


def corpus():
    c = lambda proto, delim, msgs, mx=16384: {"kind": "send", "proto": proto, "max": mx, "delim": delim.hex(), "msgs": [m.hex() for m in msgs]}
    return [
        # lines ending in a lone CR / lone LF / LF CR do not contain the delimiter and must arrive unchanged
        c("line", b"\r\n", [b"abc\r", b"\n", b"x\n\r", b"", b"\r\r", b"ok"]),
        c("lineonly", b"\r\n", [b"abc\r", b"\n", b"x\n\r", b""]),
        c("line", b"\r\n\n", [b"a\r\n", b"\n\n", b"\r"]),
        c("line", b"\n", [b"a\r", b"\r\r"]),
        {"kind": "send", "proto": "int8", "max": 300, "msgs": [bytes(255).hex(), bytes(256).hex(), "61"]},
        {"kind": "send", "proto": "netstring", "max": 100, "msgs": ["", "30", "3a2c", bytes(10).hex()]},
    ]


def to_coq(case):
    proto, mx = case["proto"], case["max"]
    if mx >= 5000 and proto in ("line", "lineonly"):
        mx = 4999 if all(len(m) // 2 < 4999 for m in case["msgs"]) else None      # any limit above every line is the same
        if mx is None:
            return None
    msgs = coq_list([coq_bytes(bytes.fromhex(m)) for m in case["msgs"]], "(list N)")
    if sum(len(m) for m in case["msgs"]) > 6000:
        return None
    if proto in ("line", "lineonly"):
        return f"inr (CSendLine {'true' if proto == 'lineonly' else 'false'} {mx}%nat {coq_bytes(bytes.fromhex(case['delim']))} {msgs})"
    if proto in INT:
        return f"inr (CSendInt {INT[proto]}%nat {mx}%N {msgs})"
    return f"inr (CSendNs {mx}%N {msgs})"


def shrink(case):
    ms = case["msgs"]
    for i in range(len(ms)):
        yield {**case, "msgs": ms[:i] + ms[i + 1:]}
    for i, m in enumerate(ms):
        if len(m) > 2:
            yield {**case, "msgs": ms[:i] + [m[2:]] + ms[i + 1:]}
