"""C30 — AMP wire format (AmpBox.serialize, BinaryBoxProtocol) and argument types: H-tie.

cases
  {"t": "recv", "chunks": [hex...]}                 bytes delivered to a BinaryBoxProtocol
  {"t": "recvfam", "stream": hex, "lim": n}         the whole stream, every 2-split, 3-splits of the first n bytes, byte by byte
  {"t": "send", "items": [[khex, vhex], ...]}       AmpBox(dict(items)).serialize()
  {"t": "sendstr", "key": str|None, "val": str|None} a box with a str (non-bytes) key or value
  {"t": "sendseq", "boxes": [[[khex, vhex(, "str")], ...], ...]}   sendBox() of each box in turn on one connection, then all
                                                    bytes written are given to a receiver:  OK:<hex>|ERR:<hex written> ... => boxes
  {"t": "dechist", "ty": T, "steps": [["raw", hex] | ["val", V]]}   fromString calls, one after the other, on ONE argument object
  {"t": "arg", "ty": T, "val": V}                   T = "int" | "str" | "bool" | "dec" | "date" | "uni" | ["list", T]
                                                    V = int | hex | bool | ["fin", neg, coefficient, exponent] | ["inf", neg] |
                                                    ["nan", neg, signalling, payload] | [y, mo, d, h, mi, s, us, offset minutes] |
                                                    [code points] | [V...]
  {"t": "argx", "ty": name, "val": ...}             Float / Decimal / DateTime / Unicode / Path / AmpList: round trip on the
                                                    implementation only (not modelled)
  argx types: float, decimal, listdecimal, listfloat, unicode, path, datetime, amplist (Integer + String + ListOf(Decimal))
observations
  recv:  B[k=v,k=v];B[...] |open|closed     (items of each received box sorted by key, hex)
  send:  OK:<hex> | ERR          arg: E:<hex> D:<value> | ERR        argx: E:<hex> RT:same|DIFF:<repr> | ERR:<class>
"""
from __future__ import annotations

import datetime
import decimal
import math
import struct

from harness.common import Failure, Spec, coq_bytes, coq_list
from harness.c16 import summary
from harness.c47 import split_family


# --------------------------------------------------------------------------------------------------
# implementation drivers


def recv_impl(chunks):
    from twisted.internet.testing import StringTransport
    from twisted.protocols import amp

    boxes = []

    class R:
        def startReceivingBoxes(self, sender):
            pass

        def ampBoxReceived(self, box):
            boxes.append("B[" + ",".join(f"{bytes(k).hex()}={bytes(v).hex()}" for k, v in sorted(box.items())) + "]")

        def stopReceivingBoxes(self, reason):
            pass

    closed = []

    class T(StringTransport):
        def loseConnection(self):
            closed.append(1)
            StringTransport.loseConnection(self)

    p = amp.BinaryBoxProtocol(R())
    p.makeConnection(T())
    for c in chunks:
        if closed:
            break
        p.dataReceived(c)
    return ";".join(boxes) + (" |closed" if closed else " |open")


def send_impl(items):
    from twisted.protocols import amp

    try:
        return "OK:" + amp.AmpBox(dict(items)).serialize().hex()
    except (amp.TooLong, ValueError, TypeError):
        return "ERR"


def sendseq_impl(boxes):
    """sendBox(box) for each box on ONE BinaryBoxProtocol; what each call wrote; then all of it through a real receiver"""
    from twisted.internet.testing import StringTransport
    from twisted.protocols import amp

    class R:
        def startReceivingBoxes(self, sender):
            pass

        def ampBoxReceived(self, box):
            pass

        def stopReceivingBoxes(self, reason):
            pass

    p = amp.BinaryBoxProtocol(R())
    t = StringTransport()
    p.makeConnection(t)
    calls, wire = [], b""
    for items in boxes:
        t.clear()
        try:
            p.sendBox(amp.AmpBox(dict(items)))
            tag = "OK:"
        except (amp.TooLong, ValueError, TypeError):
            tag = "ERR:"
        w = t.value()
        wire += w
        calls.append(tag + w.hex())
    return " ".join(calls) + " => " + recv_impl([wire])


def _seq_items(box):
    return [(bytes.fromhex(i[0]), (bytes.fromhex(i[1]).decode("latin-1") if len(i) > 2 else bytes.fromhex(i[1]))) for i in box]


def _arg(ty):
    from twisted.protocols import amp

    if ty == "int":
        return amp.Integer()
    if ty == "str":
        return amp.String()
    if ty == "bool":
        return amp.Boolean()
    if ty == "dec":
        return amp.Decimal()
    if ty == "date":
        return amp.DateTime()
    if ty == "uni":
        return amp.Unicode()
    if ty == "amplistS":
        al = amp.AmpList([(b"a", amp.Integer()), (b"b", amp.ListOf(amp.Unicode()))])
        al.toString = lambda rows: al.toStringProto(rows, None)
        al.fromString = lambda s: al.fromStringProto(s, None)
        return al
    return amp.ListOf(_arg(ty[1]))


def _digits(n):
    return tuple(int(ch) for ch in str(n))


def _val(ty, v):
    if ty == "str":
        return bytes.fromhex(v)
    if ty == "dec":
        if v[0] == "fin":
            return decimal.Decimal((1 if v[1] else 0, _digits(v[2]), v[3]))
        if v[0] == "inf":
            return decimal.Decimal((1 if v[1] else 0, (0,), "F"))
        return decimal.Decimal((1 if v[1] else 0, _digits(v[3]) if v[3] else (), "N" if v[2] else "n"))
    if ty == "date":
        from twisted.protocols import amp
        tz = amp._FixedOffsetTZInfo.fromSignHoursMinutes("-" if v[7] < 0 else "+", abs(v[7]) // 60, abs(v[7]) % 60)
        return datetime.datetime(*v[:7], tzinfo=tz)
    if ty == "uni":
        return "".join(chr(c) for c in v)
    if ty == "amplistS":
        return [{"a": r[0], "b": ["".join(chr(c) for c in s) for s in r[1]]} for r in v]
    if isinstance(ty, list):
        return [_val(ty[1], x) for x in v]
    return v


def _show(ty, v):
    if ty == "int":
        return "i" + str(v)
    if ty == "str":
        return "s" + bytes(v).hex()
    if ty == "bool":
        return "bT" if v is True else "bF" if v is False else "b?"
    if ty == "dec":
        s, ds, e = v.as_tuple()
        sg = "-" if s else ""
        n = int("".join(map(str, ds))) if ds else 0
        if e == "F":
            return "d" + sg + "Inf"
        if e in ("n", "N"):
            return "d" + sg + ("sNaN" if e == "N" else "NaN") + str(n)
        return "d" + sg + str(n) + "e" + str(e)
    if ty == "date":
        o = v.utcoffset()
        return "t" + ",".join(str(x) for x in (v.year, v.month, v.day, v.hour, v.minute, v.second, v.microsecond)) + "," + str(
            (o.days * 86400 + o.seconds) // 60)
    if ty == "uni":
        return "u" + ".".join(str(ord(ch)) for ch in v)
    if ty == "amplistS":
        return "{" + ";".join("a=%d,b=[%s]" % (r["a"], ",".join("u" + ".".join(str(ord(ch)) for ch in s) for s in r["b"])) for r in v) + "}"
    return "[" + ",".join(_show(ty[1], x) for x in v) + "]"


def dechist_impl(ty, steps):
    """fromString calls one after the other on ONE argument object (Command.arguments are class attributes: shared)"""
    a = _arg(ty)
    out = []
    for kind, x in steps:
        try:
            raw = bytes.fromhex(x) if kind == "raw" else a.toString(_val(ty, x))
        except (struct.error, UnicodeEncodeError):
            out.append("ERR")
            continue
        try:
            out.append("D:" + _show(ty, a.fromString(raw)))
        except Exception:
            out.append("EXC")
    return " ".join(out)


def arg_impl(ty, v):
    a = _arg(ty)
    try:
        e = a.toString(_val(ty, v))
    except (struct.error, UnicodeEncodeError):
        return "ERR"
    return "E:" + e.hex() + " D:" + _show(ty, a.fromString(e))


def _dec_same(p, q):
    """exact: sign, every digit, exponent (also tells NaN payloads and -0 apart)"""
    return p.as_tuple() == q.as_tuple()


def _float_same(p, q):
    """bit for bit; all NaNs count as one value (repr() has no way to name a NaN payload or sign)"""
    return struct.pack("!d", p) == struct.pack("!d", q) or (math.isnan(p) and math.isnan(q))


def _dt_same(p, q):
    return (p.timetuple()[:6] == q.timetuple()[:6] and p.microsecond == q.microsecond and p.utcoffset() == q.utcoffset()
            and q.tzinfo is not None)


def argx_impl(ty, v):
    from twisted.protocols import amp
    from twisted.python import filepath

    same = lambda a, b: a == b
    if ty == "float":
        a, x = amp.Float(), struct.unpack("!d", bytes.fromhex(v))[0]
        same = _float_same
    elif ty == "decimal":
        a, x = amp.Decimal(), decimal.Decimal(v)          # Decimal(str) is exact, whatever the context
        same = _dec_same
    elif ty == "listdecimal":
        a, x = amp.ListOf(amp.Decimal()), [decimal.Decimal(s) for s in v]
        same = lambda p, q: len(p) == len(q) and all(_dec_same(i, j) for i, j in zip(p, q))
    elif ty == "listfloat":
        a, x = amp.ListOf(amp.Float()), [struct.unpack("!d", bytes.fromhex(s))[0] for s in v]
        same = lambda p, q: len(p) == len(q) and all(_float_same(i, j) for i, j in zip(p, q))
    elif ty == "unicode":
        a, x = amp.Unicode(), v
    elif ty == "path":
        a, x = amp.Path(), filepath.FilePath(v)
    elif ty == "datetime":
        tz = amp.utc if v[7] is None else amp._FixedOffsetTZInfo.fromSignHoursMinutes(*v[7])
        a, x = amp.DateTime(), datetime.datetime(*v[:7], tzinfo=tz)
        same = _dt_same
    elif ty == "amplist2":
        # rows with optional fields: v = [[a, bhex|None, c|None, dhex|None], ...]
        a = amp.AmpList([(b"a", amp.Integer()), (b"b", amp.String(optional=True)), (b"c", amp.Integer(optional=True)),
                         (b"d", amp.ListOf(amp.String(), optional=True))])
        mk = lambda r: {"a": r[0], "b": None if r[1] is None else bytes.fromhex(r[1]), "c": r[2],
                        "d": None if r[3] is None else [bytes.fromhex(x) for x in r[3]]}
        x = [mk(r) for r in v]
        e = a.toStringProto(x, None)
        y = a.fromStringProto(e, None)
        return "E:" + e.hex() + (" RT:same" if y == x else " RT:DIFF:" + repr(y)[:120])
    elif ty == "amplist":
        a = amp.AmpList([(b"a", amp.Integer()), (b"b", amp.String()), (b"c", amp.ListOf(amp.Decimal()))])
        x = [{"a": d[0], "b": bytes.fromhex(d[1]), "c": [decimal.Decimal(s) for s in d[2]]} for d in v]
        try:
            e = a.toStringProto(x, None)
        except amp.TooLong:
            return "ERR:TooLong"
        y = a.fromStringProto(e, None)
        ok = len(x) == len(y) and all(p["a"] == q["a"] and p["b"] == q["b"] and len(p["c"]) == len(q["c"])
                                      and all(_dec_same(i, j) for i, j in zip(p["c"], q["c"])) for p, q in zip(x, y))
        return "E:" + e[:64].hex() + (" RT:same" if ok else " RT:DIFF:" + repr(y)[:80])
    else:
        raise AssertionError(ty)
    try:
        e = a.toString(x)
    except (UnicodeEncodeError, struct.error) as ex:
        return "ERR:" + type(ex).__name__
    y = a.fromString(e)
    return "E:" + e[:64].hex() + (" RT:same" if same(x, y) else " RT:DIFF:" + repr(y)[:80])


def members(case):
    s = bytes.fromhex(case["stream"])
    for cs in split_family(case["lim"], s):
        yield {"t": "recv", "chunks": [c.hex() for c in cs]}


CHUNKINGS = [0]


def impl(case) -> str:
    t = case["t"]
    if t == "recv":
        CHUNKINGS[0] += 1
        return recv_impl([bytes.fromhex(c) for c in case["chunks"]])
    if t == "recvfam":
        ms = list(members(case))
        CHUNKINGS[0] += len(ms)
        return summary(recv_impl([bytes.fromhex(c) for c in m["chunks"]]) for m in ms)
    if t == "send":
        return send_impl([(bytes.fromhex(k), bytes.fromhex(v)) for k, v in case["items"]])
    if t == "sendstr":
        k = case["key"] if case["key"] is not None else b"k"
        v = case["val"] if case["val"] is not None else b"v"
        return send_impl([(k, v)])
    if t == "sendseq":
        return sendseq_impl([_seq_items(b) for b in case["boxes"]])
    if t == "dechist":
        return dechist_impl(case["ty"], case["steps"])
    if t == "arg":
        return arg_impl(case["ty"], case["val"])
    return argx_impl(case["ty"], case["val"])


# --------------------------------------------------------------------------------------------------
# the property, independently: a reference reader of the AMP wire format (module docstring of amp.py)


def ref_parse(stream: bytes):
    """-> (list of boxes as sorted (k, v) lists, "open" | "closed")"""
    boxes, cur, pos = [], {}, 0
    while True:
        if len(stream) - pos < 2:
            return boxes, "open"
        n = int.from_bytes(stream[pos:pos + 2], "big")
        if n > 255:
            return boxes, "closed"            # key length limit exceeded
        if len(stream) - pos - 2 < n:
            return boxes, "open"
        key = stream[pos + 2:pos + 2 + n]
        pos += 2 + n
        if n == 0:
            boxes.append(sorted(cur.items()))
            cur = {}
            continue
        if len(stream) - pos < 2:
            return boxes, "open"
        m = int.from_bytes(stream[pos:pos + 2], "big")
        if len(stream) - pos - 2 < m:
            return boxes, "open"
        cur[key] = stream[pos + 2:pos + 2 + m]
        pos += 2 + m


def _fmt(boxes):
    return ";".join("B[" + ",".join(f"{k.hex()}={v.hex()}" for k, v in b) + "]" for b in boxes)


def oracle(case, obs):
    t = case["t"]
    if t == "recvfam":
        for m in members(case):
            f = oracle(m, recv_impl([bytes.fromhex(c) for c in m["chunks"]]))
            if f is not None:
                return f
        return None
    if t == "recv":
        chunks = [bytes.fromhex(c) for c in case["chunks"]]
        boxes, state = ref_parse(b"".join(chunks))
        want = _fmt(boxes) + " |" + state
        if obs != want:
            return Failure(case, f"reference reading of the stream: {want[:200]}; received: {obs[:200]}",
                           "recv-differs-from-reference" if len(chunks) == 1 else "recv-split-differs")
        return None
    if t == "sendseq":
        calls, received = obs.split(" => ")
        calls = calls.split(" ")
        expect = []
        for k, (box, call) in enumerate(zip(case["boxes"], calls)):
            items = _seq_items(box)
            ok = all(isinstance(v, bytes) and 1 <= len(kk) <= 255 and len(v) <= 65535 for kk, v in items)
            if not ok:
                if not call.startswith("ERR:"):
                    return Failure(case, f"sendBox #{k}: an unrepresentable box was not refused", "sendseq-unrepresentable-not-refused")
                if call != "ERR:":
                    return Failure(case, f"sendBox #{k} refused the box but had already written {len(call) // 2 - 2} bytes "
                                         f"({call[4:68]}...): the peer will merge them into the next box",
                                   "sendseq-refused-box-wrote-bytes")
            else:
                w = wire(sorted(items)).hex()
                if call != "OK:" + w:
                    return Failure(case, f"sendBox #{k} wrote {call[:80]} instead of {w[:80]}", "sendseq-wire-differs")
                expect.append(sorted(items))
        want = _fmt(expect) + " |open"
        if received != want:
            return Failure(case, f"after the calls the peer received {received[:200]}, expected {want[:200]}", "sendseq-later-box-corrupted")
        return None
    if t in ("send", "sendstr"):
        if t == "sendstr":
            if obs != "ERR":
                return Failure(case, "a box with a str key or value was serialised", "send-nonbytes-accepted")
            return None
        items = [(bytes.fromhex(k), bytes.fromhex(v)) for k, v in case["items"]]
        representable = all(1 <= len(k) <= 255 and len(v) <= 65535 for k, v in items)
        if not representable:
            if obs == "ERR":
                return None
            got = ref_parse(bytes.fromhex(obs[3:]))
            why = ("empty key" if any(len(k) == 0 for k, v in items) else "over-long key or value")
            return Failure(case, f"unrepresentable box ({why}) was serialised instead of refused; the bytes read back as "
                                 f"{_fmt(got[0])[:120]} |{got[1]}",
                           "send-empty-key-corrupts-stream" if why == "empty key" else "send-overlong-not-refused")
        if obs == "ERR":
            return Failure(case, "representable box refused", "send-representable-refused")
        got = ref_parse(bytes.fromhex(obs[3:]))
        if got != ([sorted(items)], "open"):
            return Failure(case, f"serialised box reads back as {_fmt(got[0])[:160]} |{got[1]}", "send-roundtrip-differs")
        # and through the real receiver, cut in the middle
        b = bytes.fromhex(obs[3:])
        back = recv_impl([b[:len(b) // 2], b[len(b) // 2:]])
        if back != _fmt([sorted(items)]) + " |open":
            return Failure(case, f"serialise -> BinaryBoxProtocol gives {back[:160]}", "send-receive-differs")
        return None
    if t == "dechist":
        ty = case["ty"]
        got = obs.split(" ")
        for k, (step, g) in enumerate(zip(case["steps"], got)):
            fresh = dechist_impl(ty, [step])          # the same call on a fresh argument object
            if step[0] == "val" and not _has_surrogate(ty, step[1]) and fresh != "ERR":
                want = "D:" + _show(ty, _val(ty, step[1]))
                if g != want:
                    return Failure(case, f"step {k}: fromString(toString(x)) gave {g[:120]} instead of {want[:120]} after "
                                         f"{k} earlier fromString call(s) on the same argument object"
                                         + ("" if fresh != want else " (a fresh object decodes it correctly)"),
                                   "arg-decode-depends-on-history" if fresh == want else "arg-roundtrip-" + (ty if isinstance(ty, str) else "list"))
            elif g != fresh:
                return Failure(case, f"step {k}: decoding {step[1][:60]} gives {g[:100]} here and {fresh[:100]} on a fresh argument object",
                               "arg-decode-depends-on-history")
        return None
    if t == "arg":
        ty, v = case["ty"], case["val"]

        def too_long(ty, v):
            if isinstance(ty, list):
                return any(too_long(ty[1], x) or len(bytes.fromhex(_enc_ref(ty[1], x))) > 65535 for x in v)
            return False

        if too_long(ty, v):
            return None if obs == "ERR" else Failure(case, "list element longer than 65535 bytes not refused", "arg-overlong-element")
        if _has_surrogate(ty, v):
            return None if obs == "ERR" else Failure(case, "a lone surrogate was encoded", "arg-surrogate-encoded")
        want = "E:" + _enc_ref(ty, v) + " D:" + _show(ty, _val(ty, v))
        if obs != want:
            return Failure(case, f"expected {want[:160]}, got {obs[:160]}", "arg-roundtrip-" + (ty if isinstance(ty, str) else "list"))
        return None
    if t == "argx" and case["ty"] == "amplist2" and obs.startswith("E:"):
        ref = b""
        for a_, b_, c_, d_ in case["val"]:
            row = {b"a": str(a_).encode()}
            if b_ is not None:
                row[b"b"] = bytes.fromhex(b_)
            if c_ is not None:
                row[b"c"] = str(c_).encode()
            if d_ is not None:
                row[b"d"] = b"".join(struct.pack("!H", len(x) // 2) + bytes.fromhex(x) for x in d_)
            ref += wire(sorted(row.items()))
        if obs.split(" ")[0] != "E:" + ref.hex():
            return Failure(case, f"AmpList rows encode to {obs[2:120]}..., expected {ref.hex()[:120]}... (a field that is None in a row "
                                 f"must not appear in that row's box)", "argx-amplist-optional-field-leaks")
    if obs.startswith("ERR:"):
        legit = ((case["ty"] == "unicode" and obs == "ERR:UnicodeEncodeError" and any(0xD800 <= ord(ch) <= 0xDFFF for ch in case["val"]))
                 or (case["ty"] == "amplist" and obs == "ERR:TooLong" and any(len(d[1]) // 2 > 65535 for d in case["val"]))
                 or (case["ty"] in ("listdecimal", "listfloat") and obs == "ERR:error" and any(len(s) > 65535 for s in case["val"])))
        return None if legit else Failure(case, f"value refused: {obs}", "argx-refused-" + case["ty"])
    if " RT:same" not in obs:
        return Failure(case, f"decode(encode(x)) != x: {obs[:200]}", "argx-roundtrip-" + case["ty"])
    return None


def _dec_ref(v) -> str:
    """to-scientific-string of the General Decimal Arithmetic specification (speleotrove.com/decimal/daconvs.html)"""
    sg = "-" if v[1] else ""
    if v[0] == "inf":
        return sg + "Infinity"
    if v[0] == "nan":
        return sg + ("sNaN" if v[2] else "NaN") + (str(v[3]) if v[3] else "")
    coef, exp = str(v[2]), v[3]
    adjusted = exp + len(coef) - 1
    if exp <= 0 and adjusted >= -6:
        if exp == 0:
            return sg + coef
        if len(coef) > -exp:
            return sg + coef[:exp] + "." + coef[exp:]
        return sg + "0." + "0" * (-exp - len(coef)) + coef
    body = coef[0] + ("." + coef[1:] if len(coef) > 1 else "")
    return sg + body + "E" + ("+" if adjusted >= 0 else "-") + str(abs(adjusted))


def _utf8_ref(c: int) -> bytes:
    if c < 0x80:
        return bytes([c])
    if c < 0x800:
        return bytes([0xC0 | c >> 6, 0x80 | c & 0x3F])
    if c < 0x10000:
        return bytes([0xE0 | c >> 12, 0x80 | c >> 6 & 0x3F, 0x80 | c & 0x3F])
    return bytes([0xF0 | c >> 18, 0x80 | c >> 12 & 0x3F, 0x80 | c >> 6 & 0x3F, 0x80 | c & 0x3F])


def _enc_hist(ty, v) -> str:
    if ty == "amplistS":
        return b"".join(wire(sorted({b"a": str(r[0]).encode(),
                                     b"b": b"".join(struct.pack("!H", len(_u(s))) + _u(s) for s in r[1])}.items())) for r in v).hex()
    return _enc_ref(ty, v)


def _u(cps):
    return b"".join(_utf8_ref(c) for c in cps)


def _has_surrogate(ty, v):
    if ty == "amplistS":
        return any(0xD800 <= c <= 0xDFFF for r in v for s in r[1] for c in s)
    if not isinstance(v, list) and ty != "uni":
        return False
    if ty == "uni":
        return any(0xD800 <= c <= 0xDFFF for c in v)
    if isinstance(ty, list):
        return any(_has_surrogate(ty[1], x) for x in v)
    return False


def _enc_ref(ty, v) -> str:
    if ty == "int":
        return str(v).encode().hex()
    if ty == "str":
        return v
    if ty == "bool":
        return (b"True" if v else b"False").hex()
    if ty == "dec":
        return _dec_ref(v).encode().hex()
    if ty == "date":
        y, mo, d, h, mi, s, us, off = v
        return ("%04d-%02d-%02dT%02d:%02d:%02d.%06d%s%02d:%02d" % (y, mo, d, h, mi, s, us, "+" if off > 0 else "-", abs(off) // 60,
                                                                    abs(off) % 60)).encode().hex()
    if ty == "uni":
        return b"".join(_utf8_ref(c) for c in v).hex()
    out = b""
    for x in v:
        e = bytes.fromhex(_enc_ref(ty[1], x))
        out += struct.pack("!H", len(e) & 0xFFFF) + e
    return out.hex()


# --------------------------------------------------------------------------------------------------
# generation


def rand_key(rng):
    n = rng.choice([1, 1, 2, 3, 8, 254, 255])
    return bytes(rng.choice(b"abc\x00\xff_") for _ in range(n))


def rand_box(rng, small=False):
    n = rng.choice([0, 1, 1, 2, 3, 5])
    d = {}
    for _ in range(n):
        k = rand_key(rng) if not small else bytes(rng.choice(b"ab") for _ in range(rng.choice([1, 2])))
        ln = rng.choice([0, 1, 2, 5]) if small else rng.choice([0, 1, 2, 255, 256, 300, 65535 if rng.random() < 0.05 else 7])
        d[k] = bytes(rng.randrange(256) for _ in range(ln)) if ln < 1000 else bytes(ln)
    return sorted(d.items())


def wire(items):
    out = b""
    for k, v in items:
        out += struct.pack("!H", len(k)) + k + struct.pack("!H", len(v)) + v
    return out + b"\0\0"


def random_split(rng, s):
    out, i = [], 0
    while i < len(s):
        k = rng.choice([1, 1, 2, 3, 4, 7, 30, 300, 70000])
        out.append(s[i:i + k])
        i += k
    return out


def clean_val(rng, ty):
    for _ in range(50):
        v = rand_val(rng, ty)
        if not _has_surrogate(ty, v) and len(str(v)) < 3000:
            return v
    return [] if isinstance(ty, list) or ty in ("uni", "amplistS") else 0


def rand_val(rng, ty, depth=0):
    if ty == "int":
        return rng.choice([0, 1, -1, 9, 10, -10, 255, 65535, 2 ** 64, -(2 ** 64), 2 ** 64 - 1, -(2 ** 70) - 1, 10 ** 30, 2 ** 1000, -(2 ** 1000),
                           10 ** 100 - 1, rng.randrange(-10 ** 6, 10 ** 6)])
    if ty == "str":
        return bytes(rng.randrange(256) for _ in range(rng.choice([0, 1, 2, 10, 10, 255, 256, 300]))).hex()
    if ty == "bool":
        return rng.random() < 0.5
    if ty == "dec":
        s, ds, e = decimal.Decimal(rand_decimal(rng)).as_tuple()
        n = int("".join(map(str, ds))) if ds else 0
        if e == "F":
            return ["inf", bool(s)]
        if e in ("n", "N"):
            return ["nan", bool(s), e == "N", n]
        return ["fin", bool(s), n, e]
    if ty == "date":
        v = rand_argx(rng, "datetime")
        o = v[7]
        return v[:7] + [0 if o is None else (-1 if o[0] == "-" else 1) * (o[1] * 60 + o[2])]
    if ty == "amplistS":
        word = lambda: [rng.choice([0x61, 0xFEFF, 0xE9, 0x1F600]) for _ in range(rng.choice([0, 1, 3]))]
        return [[rng.randrange(-9, 1000), [word() for _ in range(rng.choice([0, 1, 2]))]] for _ in range(rng.choice([0, 1, 2, 3]))]
    if ty == "uni":
        cp = lambda: rng.choice([0, 0x41, 0x7F, 0x80, 0x7FF, 0x800, 0xFFFF, 0x10000, 0x10FFFF, 0xD7FF, 0xE000, 0xFFFD, 0x1F600,
                                 0xFEFF, 0xFFFE, 0x301, 0x200B, 0x85, 0x2028, rng.randrange(0x110000)])
        s = [cp() for _ in range(rng.choice([0, 1, 2, 5]))]
        if rng.random() < 0.4:      # boundary code points at position 0: BOM (once, twice), U+FFFE, NUL, astral, combining mark
            s = rng.choice([[0xFEFF], [0xFEFF, 0xFEFF], [0xFFFE], [0], [0x10000], [0x301], [0xEF, 0xBB, 0xBF]]) + s
        if rng.random() < 0.85:
            s = [c for c in s if not 0xD800 <= c <= 0xDFFF]
        elif rng.random() < 0.5:
            s.append(rng.choice([0xD800, 0xDBFF, 0xDC00, 0xDFFF]))
        return s
    return [rand_val(rng, ty[1], depth + 1) for _ in range(rng.choice([0, 1, 2, 4]))]


def gen(rng, tier):
    cases = []
    thorough = tier == "thorough"
    n = 40 if not thorough else 500
    # receive side: families over short multi-box streams (small boxes), with malformed tails
    for _ in range(n):
        s = b"".join(wire(rand_box(rng, small=True)) for _ in range(rng.choice([1, 2, 3])))
        r = rng.random()
        if r < 0.25:
            s = s[:rng.randrange(len(s) + 1)]
        elif r < 0.4:
            s += rng.choice([b"\x01\x00", b"\x01", b"\xff\xffzz", b"\x00\x01a\xff\xff", b"\x00\x02ab\x00", b"\x00\x01a\x00\x00\x00\x01a\x00\x01z\x00\x00"])
        cases.append({"t": "recvfam", "stream": s[:60].hex(), "lim": 14 if not thorough else 20})
    # receive side: random splits of streams of realistic boxes (key 255, value 256/300/65535, key length 256)
    for _ in range(n):
        boxes = [rand_box(rng) for _ in range(rng.choice([1, 2, 4]))]
        s = b"".join(wire(b) for b in boxes)
        if rng.random() < 0.2:
            s += struct.pack("!H", rng.choice([256, 257, 4096, 65535])) + b"k" * 300
        if len(s) < 4000:
            cases.append({"t": "recv", "chunks": [c.hex() for c in random_split(rng, s)]})
    # send side
    for _ in range(2 * n):
        items = rand_box(rng, small=rng.random() < 0.5)
        r = rng.random()
        if r < 0.12:
            items = sorted(dict(items + [(b"", bytes(rng.randrange(256) for _ in range(rng.choice([0, 1, 5]))))]).items())
        elif r < 0.2:
            items = sorted(dict(items + [(b"k" * rng.choice([256, 257, 1000]), b"v")]).items())
        elif r < 0.26:
            items = sorted(dict(items + [(b"big", bytes(rng.choice([65535, 65536, 70000])))]).items())
        if sum(len(k) + len(v) for k, v in items) < 3000 or rng.random() < 0.15:
            cases.append({"t": "send", "items": [[k.hex(), v.hex()] for k, v in items]})
    cases += [{"t": "sendstr", "key": None, "val": "text"}, {"t": "sendstr", "key": None, "val": ""}]
    # histories of sendBox calls on one connection: valid boxes mixed with boxes that must be refused, the offending
    # pair at every position of the sorted key order; a refusal must write nothing, later boxes must arrive exactly
    for _ in range(n):
        seq = []
        for _ in range(rng.choice([2, 3, 4, 6])):
            items = dict(rand_box(rng, small=True))
            box = [[k.hex(), v.hex()] for k, v in sorted(items.items())]
            r = rng.random()
            if r < 0.45:
                bad = rng.choice(["longkey", "str", "empty"] * 4 + ["longval"])
                pos = rng.choice(["first", "middle", "last"])
                name = {"first": b"\x00", "middle": b"am", "last": b"zz"}[pos]
                if bad == "longkey":
                    pair = [(name + b"k" * 256).hex(), "76"]
                elif bad == "longval":
                    pair = [name.hex(), bytes(65536).hex()]
                elif bad == "str":
                    pair = [name.hex(), b"text".hex(), "str"]
                else:
                    pair = ["", "76"]
                box = sorted(box + [pair], key=lambda i: bytes.fromhex(i[0]))
            seq.append(box)
        seq.append([[b"end".hex(), b"1".hex()]])
        cases.append({"t": "sendseq", "boxes": seq})
    # argument types
    tys = ["int", "str", "bool", ["list", "int"], ["list", "str"], ["list", "bool"], ["list", ["list", "int"]], ["list", ["list", ["list", "str"]]],
           "dec", "dec", "dec", "date", "uni", ["list", "dec"], ["list", "uni"], ["list", "date"], ["list", ["list", "dec"]]]
    for _ in range(6 * n):
        ty = rng.choice(tys)
        cases.append({"t": "arg", "ty": ty, "val": rand_val(rng, ty)})
    # decode histories on ONE argument object: a malformed value (cut inside an element, garbage appended) or a valid one,
    # then valid ones: the decode of a valid encoding must not depend on what was decoded before
    htys = [["list", "str"], ["list", "uni"], ["list", ["list", "str"]], ["list", "int"], ["list", "dec"], ["list", ["list", "uni"]],
            "amplistS", "uni", "int", ["list", "bool"]]
    for _ in range(3 * n):
        ty = rng.choice(htys)
        steps = []
        for k in range(rng.choice([2, 2, 3, 4])):
            v = clean_val(rng, ty)
            if rng.random() < (0.6 if k == 0 else 0.25):
                e = bytes.fromhex(_enc_hist(ty, v))
                r = rng.random()
                if r < 0.6 and len(e) > 1:
                    e = e[:rng.randrange(1, len(e))]                      # ends inside an element / a length prefix
                elif r < 0.8:
                    e = e + rng.choice([b"\x00", b"\x00\x05ab", b"\xff", b"\x00\x01"])
                steps.append(["raw", e.hex()])
            else:
                steps.append(["val", v])
        if steps[-1][0] != "val":
            steps.append(["val", clean_val(rng, ty)])
        cases.append({"t": "dechist", "ty": ty, "steps": steps})
    for _ in range(3 * n):
        k = rng.choice(["float", "decimal", "decimal", "decimal", "unicode", "path", "datetime", "amplist", "amplist2", "amplist2",
                        "listdecimal", "listfloat"])
        cases.append({"t": "argx", "ty": k, "val": rand_argx(rng, k)})
    return cases


FLOAT_BITS = [0x0000000000000000, 0x8000000000000000, 0x0000000000000001, 0x8000000000000001, 0x000FFFFFFFFFFFFF, 0x0010000000000000,
              0x7FEFFFFFFFFFFFFF, 0xFFEFFFFFFFFFFFFF, 0x7FF0000000000000, 0xFFF0000000000000, 0x7FF8000000000000, 0xFFF8000000000000,
              0x7FF0000000000001, 0x3FF0000000000000, 0x3FF0000000000001, 0x3FEFFFFFFFFFFFFF, 0x3FB999999999999A, 0x4340000000000000,
              0x4340000000000001, 0x433FFFFFFFFFFFFF, 0x3E7AD7F29ABCAF48, 0x44B52D02C7E14AF6]


def rand_decimal(rng):
    """text accepted by decimal.Decimal(); constructed exactly, independent of the context precision"""
    digits = lambda n: str(rng.randrange(1, 10)) + "".join(str(rng.randrange(10)) for _ in range(n - 1))
    r = rng.random()
    sign = rng.choice(["", "-"])
    if r < 0.30:        # more significant digits than the default context (28): 29..60
        n = rng.choice([28, 29, 29, 30, 40, 59, 60, 100])
        d = digits(n)
        cut = rng.randrange(0, n + 1)
        body = d[:cut] + ("." + d[cut:] if cut < n else "")
        if cut == 0:
            body = "0" + body
        return sign + body + rng.choice(["", "", "E+5", "E-50", "E+999990", "E-999990"])
    if r < 0.45:        # exponents around the limits of the default context (Emax 999999, Emin -999999, Etiny -1000026)
        return sign + rng.choice(["1", "9.99", "123", digits(28), digits(5)]) + "E" + rng.choice(
            ["+999999", "+999998", "+1000000", "+1000001", "-999999", "-1000000", "-1000026", "-1000027", "-1000100", "+999972", "+2000000",
             "-2000000"])
    if r < 0.58:        # NaN / sNaN with payloads (short, 28, 29, 40 digits), infinities
        return sign + rng.choice(["NaN", "sNaN", "NaN0", "NaN1", "sNaN7", "NaN" + digits(28), "NaN" + digits(29), "sNaN" + digits(40),
                                  "Infinity", "Inf"])
    if r < 0.70:        # zeros with sign and exponent, trailing zeros
        return sign + rng.choice(["0", "0.0", "0.000", "0E+10", "0E-10", "0E+999999", "0E-1000026", "1.50", "1.500000", "100", "1E+2",
                                  "0.000001", "0.0000001", "1E-7", "1E-6"])
    if r < 0.80:        # big integers as Decimals
        return str(rng.choice([2 ** 200, -(2 ** 200), 10 ** 28, 10 ** 28 - 1, 10 ** 28 + 1, 10 ** 40 + 7, 2 ** 93, 3 ** 100]))
    if r < 0.88:        # values computed under a wider context
        with decimal.localcontext() as ctx:
            ctx.prec = rng.choice([29, 40, 60])
            return str(rng.choice([decimal.Decimal(2).sqrt(), decimal.Decimal(1) / decimal.Decimal(3), decimal.Decimal(1) / decimal.Decimal(7) * 10 ** 30,
                                   decimal.Decimal(10).ln()]))
    return sign + str(rng.randrange(10 ** 9)) + "e" + str(rng.randrange(-30, 30))


def rand_argx(rng, k):
    if k == "float":
        return struct.pack("!Q", rng.choice(FLOAT_BITS + [rng.getrandbits(64), rng.getrandbits(52), rng.getrandbits(64) | 0x7FF0000000000000])).hex()
    if k == "decimal":
        return rand_decimal(rng)
    if k == "listdecimal":
        return [rand_decimal(rng) for _ in range(rng.choice([0, 1, 2, 5]))]
    if k == "listfloat":
        return [rand_argx(rng, "float") for _ in range(rng.choice([0, 1, 3]))]
    if k == "unicode":
        return rng.choice(["\ufeff", "\ufeffabc", "\ufeff\ufeffx", "\ufffe", "\u0301a", "a\ufeff", "", "abc", "\u00e9\u4e2d\U0001F600", "\x00\n", "a" * 100, "\U0010FFFF", "\U00010000" * 20, "\uffff\ufffe", "\ud800",
                           "x\udfffy", "\u0000", "\u00e9" * 32768])
    if k == "path":
        return rng.choice(["/tmp/x", "relative/p", "/", "/a b/\u00e9", "/" + "d" * 255, "/\U0001F600/x"])
    if k == "datetime":
        off = rng.choice([None, ["+", 0, 0], ["-", 0, 0], ["-", 5, 30], ["+", 14, 0], ["-", 23, 59], ["+", 23, 59], ["+", 0, 1], ["-", 0, 1]])
        y, mo, d = rng.choice([(1, 1, 1), (9999, 12, 31), (1970, 1, 1), (2000, 2, 29), (2024, rng.randrange(1, 13), rng.randrange(1, 29))])
        h, mi, s = rng.choice([(0, 0, 0), (23, 59, 59), (rng.randrange(24), rng.randrange(60), rng.randrange(60))])
        return [y, mo, d, h, mi, s, rng.choice([0, 1, 999999, 999999, rng.randrange(10 ** 6)]), off]
    if k == "amplist2":     # optional fields present / absent per row; present-then-absent in particular
        opt = lambda f: None if rng.random() < 0.5 else f()
        rows = [[rng.randrange(-5, 100), opt(lambda: bytes(rng.choice(b"xy") for _ in range(rng.choice([0, 1, 3]))).hex()),
                 opt(lambda: rng.randrange(1000)), opt(lambda: [b"e".hex()] * rng.choice([0, 1, 2]))] for _ in range(rng.choice([1, 2, 3, 5]))]
        if rng.random() < 0.5 and len(rows) >= 2:
            rows[0][1], rows[0][2], rows[0][3] = "7365743161", 7, ["6c"]
            rows[1][1], rows[1][2], rows[1][3] = None, None, None
        return rows
    # amplist: a = Integer, b = String, c = ListOf(Decimal)
    blen = lambda: rng.choice([0, 1, 3, 255, 256, 65535 if rng.random() < 0.1 else 7, 65536 if rng.random() < 0.05 else 2])
    return [[rng.choice([0, -1, 2 ** 64, -(2 ** 64), 2 ** 1000, rng.randrange(-100, 100)]), bytes(blen()).hex(),
             [rand_decimal(rng) for _ in range(rng.choice([0, 1, 3]))]] for _ in range(rng.choice([0, 1, 3]))]


def corpus():
    return [
        # DESIGN.md section 6, F11: an empty key serialises as the terminator
        {"t": "send", "items": [["", "76"], ["61", "62"]]},
        {"t": "send", "items": [["", ""]]},
        {"t": "send", "items": [["61", "62"], ["63", ""]]},
        {"t": "send", "items": [[(b"k" * 256).hex(), "76"]]},
        {"t": "send", "items": [["6b", bytes(65536).hex()]]},
        {"t": "send", "items": [["6b", bytes(65535).hex()]]},
        {"t": "recv", "chunks": ["00", "0161", "0001", "62", "0000"]},
        # a refused box must not leave bytes on the wire (the offending pair sorts last / in the middle)
        {"t": "sendseq", "boxes": [[["61", "31"], ["62", "32"], [(b"z" * 256).hex(), "33"]], [["63", "34"]]]},
        {"t": "sendseq", "boxes": [[["61", "31"], ["6d", "74657874", "str"], ["7a", "32"]], [["63", "34"]], [["", "35"], ["64", "36"]], [["65", "37"]]]},
        # AmpList rows with optional fields: set in the first row, None in the second
        {"t": "argx", "ty": "amplist2", "val": [[1, "7365743161", 7, ["6c"]], [2, None, None, None], [3, "", 0, []]]},
        {"t": "recv", "chunks": ["0100"]},
        {"t": "recv", "chunks": ["00016100", "ff", "7a" * 255, "0000"]},
        {"t": "recv", "chunks": ["000161000162000161000163", "0000"]},
        {"t": "arg", "ty": ["list", "str"], "val": ["", "00", ""]},
        {"t": "arg", "ty": "int", "val": -(10 ** 40)},
        {"t": "arg", "ty": ["list", "str"], "val": ["61" * 256, "", "62" * 255]},
        {"t": "arg", "ty": ["list", ["list", "int"]], "val": [[10 ** 20] * 15, []]},
        {"t": "arg", "ty": ["list", "str"], "val": ["00" * 65536]},
        {"t": "arg", "ty": ["list", "str"], "val": ["00" * 65535]},
        {"t": "argx", "ty": "float", "val": struct.pack("!d", float("nan")).hex()},
        {"t": "argx", "ty": "float", "val": "0000000000000001"},
        {"t": "argx", "ty": "float", "val": "8000000000000000"},
        # a Decimal with more significant digits than the default context precision must come back exactly
        {"t": "argx", "ty": "decimal", "val": "1234567890123456789012345678901234567890"},
        {"t": "argx", "ty": "decimal", "val": str(2 ** 200)},
        {"t": "argx", "ty": "decimal", "val": "0.1234567890123456789012345678901"},
        {"t": "argx", "ty": "decimal", "val": "1E+1000000"},
        {"t": "argx", "ty": "decimal", "val": "1E-1000027"},
        {"t": "argx", "ty": "decimal", "val": "-sNaN1234567890123456789012345678901234567890"},
        {"t": "argx", "ty": "decimal", "val": "-0E-5"},
        {"t": "argx", "ty": "listdecimal", "val": ["1.000000000000000000000000000000000001", "NaN", "-0"]},
        {"t": "argx", "ty": "unicode", "val": "\ud800"},
        {"t": "argx", "ty": "datetime", "val": [1, 1, 1, 0, 0, 0, 0, ["+", 23, 59]]},
        {"t": "argx", "ty": "datetime", "val": [9999, 12, 31, 23, 59, 59, 999999, ["-", 23, 59]]},
        {"t": "arg", "ty": "int", "val": 2 ** 1000},
        {"t": "arg", "ty": "int", "val": -(2 ** 64)},
        # Unicode: a leading U+FEFF is a character like any other
        {"t": "arg", "ty": "uni", "val": [0xFEFF]},
        {"t": "arg", "ty": "uni", "val": [0xFEFF, 0x61, 0x62, 0x63]},
        {"t": "arg", "ty": ["list", "uni"], "val": [[0xFEFF, 0xFEFF, 0x78], [0x61, 0xFEFF]]},
        {"t": "argx", "ty": "unicode", "val": "\ufeffabc"},
        # one ListOf object: a value cut inside its last element, then a well-formed one
        {"t": "dechist", "ty": ["list", "str"], "steps": [["raw", "000161000362"], ["val", ["78", "7979"]], ["val", []]]},
        {"t": "dechist", "ty": ["list", ["list", "str"]], "steps": [["raw", "00050001610003"], ["val", [["61"], []]], ["raw", "00"], ["val", [[]]]]},
        {"t": "dechist", "ty": "amplistS", "steps": [["raw", "0001610001310001620003000161"], ["val", [[5, [[0x61]]]]]]},
    ]


# --------------------------------------------------------------------------------------------------
# model side


def _coq_ty(ty):
    return ({"int": "TInt", "str": "TStr", "bool": "TBool", "dec": "TDec", "date": "TDate", "uni": "TUni"}[ty] if isinstance(ty, str)
            else f"(TList {_coq_ty(ty[1])})")


def _coq_val(ty, v):
    if ty == "int":
        return f"(VInt ({v})%Z)"
    if ty == "str":
        return f"(VStr {coq_bytes(bytes.fromhex(v))})"
    if ty == "bool":
        return f"(VBool {'true' if v else 'false'})"
    if ty == "dec":
        b = lambda x: "true" if x else "false"
        if v[0] == "fin":
            return f"(VDec (DFin {b(v[1])} {v[2]}%N ({v[3]})%Z))"
        if v[0] == "inf":
            return f"(VDec (DInf {b(v[1])}))"
        return f"(VDec (DNaN {b(v[1])} {b(v[2])} {v[3]}%N))"
    if ty == "date":
        return "(VDate (mkdt " + " ".join(f"{x}%N" for x in v[:7]) + f" ({v[7]})%Z))"
    if ty == "uni":
        return "(VUni " + coq_list([f"{c}%N" for c in v], "N") + ")"
    return "(VList " + coq_list([_coq_val(ty[1], x) for x in v], "val") + ")"


def to_coq(case):
    t = case["t"]
    if t == "recv":
        if sum(len(c) for c in case["chunks"]) > 6000:
            return None
        return "Recv " + coq_list([coq_bytes(bytes.fromhex(c)) for c in case["chunks"]], "(list N)")
    if t == "recvfam":
        return f"RecvFamily {case['lim']}%nat {coq_bytes(bytes.fromhex(case['stream']))}"
    if t == "send":
        if sum(len(k) + len(v) for k, v in case["items"]) > 12000:
            return None          # very large literals: oracle only
        items = coq_list([f"({coq_bytes(bytes.fromhex(k))}, {coq_bytes(bytes.fromhex(v))})" for k, v in case["items"]], "item")
        return f"Send false {items}"
    if t == "sendseq":
        if any(len(i) > 2 for b in case["boxes"] for i in b) or sum(len(i[0]) + len(i[1]) for b in case["boxes"] for i in b) > 12000:
            return None          # str values / very large literals: oracle only
        boxes = [coq_list([f"({coq_bytes(bytes.fromhex(i[0]))}, {coq_bytes(bytes.fromhex(i[1]))})" for i in b], "item") for b in case["boxes"]]
        return "SendSeq " + coq_list(boxes, "box")
    if t == "dechist":
        def leaves(ty):
            return leaves(ty[1]) if isinstance(ty, list) else ty
        if leaves(case["ty"]) not in ("str", "uni", "bool") or len(str(case["steps"])) > 20000:
            return None          # raw bytes under int()/Decimal() go through CPython's lenient parsers: oracle only
        st = [f"(inl {coq_bytes(bytes.fromhex(x))})" if k == "raw" else f"(inr {_coq_val(case['ty'], x)})" for k, x in case["steps"]]
        return f"DecHist {_coq_ty(case['ty'])} {coq_list(st, '(bytes + val)')}"
    if t == "arg":
        if len(str(case["val"])) > 30000:
            return None          # very large literals: oracle only
        return f"Arg {_coq_ty(case['ty'])} {_coq_val(case['ty'], case['val'])}"
    return None


def shrink(case):
    if case["t"] == "sendseq":
        bs = case["boxes"]
        for i in range(len(bs)):
            yield {**case, "boxes": bs[:i] + bs[i + 1:]}
        for i, b in enumerate(bs):
            for j in range(len(b)):
                yield {**case, "boxes": bs[:i] + [b[:j] + b[j + 1:]] + bs[i + 1:]}
        return
    if case["t"] == "argx" and case["ty"] == "amplist2":
        v = case["val"]
        for i in range(len(v)):
            yield {**case, "val": v[:i] + v[i + 1:]}
        return
    if case["t"] == "recv":
        ch = case["chunks"]
        for i in range(len(ch) - 1):
            yield {**case, "chunks": ch[:i] + [ch[i] + ch[i + 1]] + ch[i + 2:]}
    elif case["t"] == "send":
        it = case["items"]
        for i in range(len(it)):
            yield {**case, "items": it[:i] + it[i + 1:]}
        for i, (k, v) in enumerate(it):
            if len(v) > 2:
                yield {**case, "items": it[:i] + [[k, v[:2]]] + it[i + 1:]}


SPEC = Spec(
    pid="C30",
    gen=gen, impl=impl, oracle=oracle, corpus=corpus, shrink=shrink,
    coq_header="From TwLib Require Import PyBytes Seg.\nFrom C30 Require Import Text Model Run.",
    coq_fn="run_case",
    to_coq=to_coq,
    nontrivial=lambda c, o: o not in (" |open", "ERR") or c["t"] in ("send", "sendstr"),
    histogram=lambda c, o: c["t"] + ("/" + (c["ty"] if isinstance(c["ty"], str) else "list") if c["t"] in ("arg", "argx") else ""),
    extra=lambda ctx: {"chunkings_run": CHUNKINGS[0]},
    rule="receive: streams of 1-3 small boxes (keys 1-2 bytes, values 0-5), truncated or followed by malformed bytes, as families "
         "(whole, every 2-split, 3-splits of the first 14 bytes, byte-by-byte) + random splits of boxes with keys up to 255 and "
         "values 0/255/256/300/65535 and key lengths 256+; send: random boxes incl. empty key, key 256/257/1000, value "
         "65535/65536/70000, str values; arguments: Integer (0, +-1, 2^64, -(2^70)-1, 10^30), String, Boolean, ListOf nested to "
         "depth 3 (modelled) and Float (specials, random bit patterns), Decimal (specials), Unicode, Path, DateTime (offsets "
         "-23:59..+14:00), AmpList (round trip on the implementation only); non-trivial = something was received/encoded",
    trusted=["hand-written model coq/C30/Model.v (tied by this correspondence run only)",
             "coq/Lib/PyBytes.v: struct.pack('!H'), int.from_bytes, b'%d' % n / int() as the assumed semantics of the CPython builtins",
             "Float/Decimal/DateTime/Unicode/Path/AmpList codecs are CPython/stdlib oracles: checked by round trip on the "
             "implementation only, no Coq model"],
    assumptions=["boxes are given as sorted(dict.items()) (distinct keys); Integer.fromString is modelled for '-'?digits only"],
)
