"""C39 — telnet option negotiation converges: T-tie (coq/C39/Gen.v regenerated from telnet.py on every run:
dispatchers, the four maps, the sixteen handlers, the four request methods) + H-tie (coq/C39/Model.v gives the
tables their operational meaning; correspondence against two real Telnet objects with a controlled in-flight queue)."""
from __future__ import annotations

import itertools

from harness.common import COQ, REPO, Failure, Spec, coq_list
from translate import c39 as tr

# case = {"pa": [[accL, accR], ...], "pb": [...], "ops": [["req", side, opt, kind] | ["dlv", side]], "hyp": bool}
#   pa/pb   enableLocal / enableRemote answers of endpoint A / B, per option index
#   req     side "A"/"B" calls will/wont/do/dont on option index opt
#   dlv     the oldest command in flight FROM that side is delivered to the other side (the bytes of it not delivered yet);
#           ["dlv", side, "bytes"] hands them over one byte per dataReceived call;
#           ["dlv2", side] delivers the TWO oldest commands in one dataReceived call (reported as two deliveries)
#   part    ["part", side, n]: only the next n (1 or 2) bytes of the oldest command are delivered now -- never its last
#           byte; the command takes effect when a later dlv completes it.  Invisible to the model (C38: segmentation of
#           the wire is invisible), so these operations produce no observation of their own
#   mode    "queued" (default): commands wait in the in-flight queue until a dlv/part operation; "sync": ZERO-LATENCY
#           transport -- write() delivers the command to the peer before it returns, and the peer's answer comes back
#           re-entrantly the same way (an in-memory pipe); the ops are then requests only, and each request is
#           reported as the request followed by the (up to 4) deliveries it set off, in order
#   hyp     the case respects "policies accept the options they themselves request"

OPT_BYTES = [b"\x01", b"\x03", b"\x1f", b"\x22"]
KINDS = ["will", "wont", "do", "dont"]
CMD = {251: "WILL", 252: "WONT", 253: "DO", 254: "DONT"}


def _run(case):
    from twisted.conch import telnet
    from twisted.internet import defer

    real_defer = telnet.defer
    try:
        return _run_inner(case, telnet, defer)
    finally:
        telnet.defer = real_defer


def _run_inner(case, telnet, defer):

    log = []
    chan = {"A": [], "B": []}          # commands in flight FROM A / FROM B: (opt index, name, bytes)
    sync = case.get("mode") == "sync"
    delivered = []                      # sync mode: the commands delivered during the current operation, in order
    ids = {}                            # request Deferred -> id

    class LoggingDeferred(defer.Deferred):
        """the request Deferreds: the moment they fire is part of the observation (in sync mode that is before the
        request method has even returned them)"""

        def callback(self, result):
            log.append(("fire", self, "ok" if result is True else f"?{result!r}"))
            defer.Deferred.callback(self, result)

        def errback(self, fail=None):
            log.append(("fire", self, "ref" if getattr(fail, "check", lambda *a: False)(telnet.OptionRefused) or
                        isinstance(fail, telnet.OptionRefused) else "?" + type(getattr(fail, "value", fail)).__name__))
            defer.Deferred.errback(self, fail)

    class DeferShim:
        Deferred = LoggingDeferred

        def __getattr__(self, name):
            return getattr(defer, name)

    def render(entries):
        return ",".join(e if isinstance(e, str) else f"F{ids.get(e[1], '?')}={e[2]}" for e in entries)

    class Tr:
        disconnecting = False

        def __init__(self, name):
            self.name = name

        def write(self, data):
            data = bytes(data)
            assert len(data) % 3 == 0 and all(data[i] == 255 for i in range(0, len(data), 3)), data
            for i in range(0, len(data), 3):
                name, o = CMD[data[i + 1]], OPT_BYTES.index(data[i + 2:i + 3])
                log.append(">" + name)
                if sync:
                    delivered.append((o, name))
                    feed("B" if self.name == "A" else "A", data[i:i + 3])
                else:
                    chan[self.name].append((o, name, data[i:i + 3]))

    class T(telnet.Telnet):
        def __init__(self, pol):
            telnet.Telnet.__init__(self)
            self.pol = pol

        def enableLocal(self, option):
            log.append("eL")
            return self.pol[OPT_BYTES.index(option)][0]

        def enableRemote(self, option):
            log.append("eR")
            return self.pol[OPT_BYTES.index(option)][1]

        def disableLocal(self, option):
            log.append("dL")

        def disableRemote(self, option):
            log.append("dR")

    marks = []                          # positions in log where a negotiation command was dispatched

    class T2(T):
        def commandReceived(self, command, argument):
            marks.append(len(log))
            T.commandReceived(self, command, argument)

    ends = {"A": T2(case["pa"]), "B": T2(case["pb"])}
    for n, t in ends.items():
        t.makeConnection(Tr(n))
    off = {"A": 0, "B": 0}              # bytes of the oldest command already delivered
    out, nid = [], 0

    def feed(to, data):
        try:
            ends[to].dataReceived(data)
        except AssertionError:
            log.append("!A")
        except Exception as e:                          # anything else a handler raises is an observation too
            log.append("!" + type(e).__name__)

    telnet.defer = DeferShim()          # restored by _run
    for op in case["ops"]:
        del log[:]
        del marks[:]
        del delivered[:]
        if op[0] == "req":
            _, sd, o, kind = op
            res = []
            try:
                d = getattr(ends[sd], kind)(OPT_BYTES[o])
            except Exception as e:
                out.append("!" + type(e).__name__)
                if sync:
                    out += ["-"] * 4
                continue
            if isinstance(d, LoggingDeferred):
                ids[d] = nid
                nid += 1
                d.addErrback(lambda f: None)            # the refusal was logged when it fired; keep the logs quiet
                out.append(f"I{ids[d]}")
            else:
                d.addErrback(lambda f: res.append(f.type.__name__))
                out.append({"AlreadyNegotiating": "AN", "AlreadyEnabled": "AE", "AlreadyDisabled": "AD"}.get(
                    res[0] if res else "", "?" + (res[0] if res else "fired")))
            if sync:
                # the deliveries this request set off, in order; each one's effects start where it was dispatched
                if len(marks) >= len(delivered):
                    bounds = marks[:len(delivered)] + [len(log)]
                else:
                    bounds = marks + [len(log)] * (len(delivered) - len(marks) + 1)
                segs = [f"{name}{oo}:" + render(log[bounds[k]:bounds[k + 1]]) for k, (oo, name) in enumerate(delivered)]
                if len(segs) > 4:
                    segs = segs[:3] + ["+".join(segs[3:])]
                out += segs + ["-"] * (4 - len(segs))
        elif op[0] == "part":
            frm = op[1]
            to = "B" if frm == "A" else "A"
            if chan[frm]:
                n = min(op[2], 2 - off[frm])
                if n > 0:
                    feed(to, chan[frm][0][2][off[frm]:off[frm] + n])
                    off[frm] += n
            if log:                                     # a partial command must not have any visible effect
                out.append("?early:" + render(log))
        else:
            frm = op[1]
            to = "B" if frm == "A" else "A"
            count = 2 if op[0] == "dlv2" else 1
            heads = []
            data = b""
            while chan[frm] and len(heads) < count:
                o, name, raw = chan[frm].pop(0)
                heads.append((o, name))
                data += raw[off[frm]:]
                off[frm] = 0
            if data:
                if len(op) > 2 and op[2] == "bytes":
                    for i in range(len(data)):
                        feed(to, data[i:i + 1])
                else:
                    feed(to, data)
            # split the log at the points where the commands were dispatched
            if len(marks) >= len(heads):
                bounds = [0] + marks[1:len(heads)] + [len(log)]
            else:                                       # a command never reached commandReceived
                bounds = [0] + [len(log)] * len(heads)
            for k in range(count):
                if k < len(heads):
                    o, name = heads[k]
                    out.append(f"{name}{o}:" + render(log[bounds[k]:bounds[k + 1]]))
                else:
                    out.append("-")
    nopt = len(case["pa"])
    fin = ""
    for o in range(nopt):
        for n in ("A", "B"):
            s = ends[n].getOptionState(OPT_BYTES[o])
            fin += f" {n}{o}:us={s.us},him={s.him}"
    q = lambda l: ",".join(f"{name}{o}" for o, name, _ in l)
    return " ".join(out) + " |" + fin + " qAB=" + q(chan["A"]) + " qBA=" + q(chan["B"])


def impl(case) -> str:
    return _run(case)


# ----- the property on the observation, without the model ---------------------------------------------------


def oracle(case, obs):
    """total: whatever the observation looks like, the answer is a verdict, never an exception"""
    try:
        return _oracle(case, obs)
    except Exception as e:                      # an observation the parser below does not understand is a failure
        return Failure(case, f"observation not of the expected form ({type(e).__name__}: {e}): {obs[:300]}",
                       "unexpected-observation")


def _oracle(case, obs):
    if not case.get("hyp", True):
        return None
    body, fin = obs.split(" |", 1)
    steps = body.split(" ") if body else []
    issued, fired = [], []
    flat_ops = []
    for op in case["ops"]:
        if op[0] == "part":
            continue
        flat_ops.append(op)
        if op[0] == "dlv2":
            flat_ops.append(op)
        if op[0] == "req" and case.get("mode") == "sync":
            other = "B" if op[1] == "A" else "A"
            flat_ops += [["dlv", op[1]], ["dlv", other], ["dlv", op[1]], ["dlv", other]]
    if any(st.startswith("?early") for st in steps):
        return Failure(case, "a partially delivered command already had a visible effect: "
                       + [st for st in steps if st.startswith("?early")][0], "partial-command-effect")
    if len(flat_ops) != len(steps):
        return Failure(case, "malformed observation", "log")
    for k, (op, st) in enumerate(zip(flat_ops, steps)):
        if "+" in st:
            return Failure(case, f"op {k} {op}: one request set off more than four deliveries ({st})", "message-loop")
        if "!A" in st.split(":")[-1].split(",") or st == "!A":
            return Failure(case, f"op {k} {op}: an assertion inside a negotiation handler failed ({st})", "assertion-reached")
        if "!" in st:
            return Failure(case, f"op {k} {op}: a negotiation handler raised ({st})", "handler-raised")
        if st.startswith("?") or "=?" in st:
            return Failure(case, f"op {k} {op}: unexpected request result {st}", "unexpected-result")
        if op[0] == "req" and st.startswith("I"):
            issued.append(int(st[1:]))
        if op[0] in ("dlv", "dlv2") and ":" in st:
            for e in st.split(":", 1)[1].split(","):
                if e.startswith("F"):
                    if not e[1:].split("=")[0].isdigit():
                        return Failure(case, f"op {k} {op}: a Deferred that no request returned was fired ({st})",
                                       "unknown-deferred-fired")
                    i = int(e[1:].split("=")[0])
                    if i not in issued:
                        return Failure(case, f"op {k}: Deferred {i} fired before being issued", "fired-unissued")
                    if i in fired:
                        return Failure(case, f"op {k}: Deferred {i} fired twice", "fired-twice")
                    fired.append(i)
    qab = fin.split(" qAB=")[1].split(" qBA=")[0]
    qba = fin.split(" qBA=")[1]
    if case.get("drained"):
        if qab or qba:
            return Failure(case, f"commands still in flight after {case['drained']} further deliveries: {qab} / {qba}",
                           "message-loop")
    if not qab and not qba:
        # quiescent: both sides agree on every option, nothing is negotiating, every request has fired once
        parts = dict(p.split(":", 1) for p in fin.split(" qAB=")[0].split())
        for o in range(len(case["pa"])):
            a = dict(x.split("=") for x in parts[f"A{o}"].split(","))
            b = dict(x.split("=") for x in parts[f"B{o}"].split(","))
            if any(v.endswith("*") for v in list(a.values()) + list(b.values())):
                return Failure(case, f"option {o}: still negotiating with nothing in flight: A {a} B {b}",
                               "stuck-negotiating")
            if a["us"] != b["him"] or b["us"] != a["him"]:
                return Failure(case, f"option {o}: the sides disagree at rest: A {a} B {b}", "quiescent-disagreement")
        if sorted(fired) != sorted(issued):
            return Failure(case, f"requests {sorted(set(issued) - set(fired))} never fired although nothing is in flight",
                           "request-never-fired")
    return None


# ----- generation ---------------------------------------------------------------------------------------------

DRAIN = [["dlv", "A"], ["dlv", "B"]] * 6


def _allowed(case, op):
    if op[0] != "req":
        return True
    pol = case["pa" if op[1] == "A" else "pb"][op[2]]
    return not ((op[3] == "will" and not pol[0]) or (op[3] == "do" and not pol[1]))


def _actions(nopt):
    acts = [["dlv", "A"], ["dlv", "B"]]
    for sd in "AB":
        for o in range(nopt):
            for k in KINDS:
                acts.append(["req", sd, o, k])
    return acts


def _explore(pa, pb, nopt, max_states, max_depth):
    """breadth-first exploration of the REAL objects: states are hashed by the observable final state
    (option states on both sides + commands in flight); one case per edge, each followed by a drain"""
    base = {"pa": pa, "pb": pb, "hyp": True}
    start = _run({**base, "ops": []}).split(" |", 1)[1]
    seen = {start: []}
    todo = [[]]
    cases = []
    while todo and len(seen) < max_states:
        path = todo.pop(0)
        if len(path) >= max_depth:
            continue
        for a in _actions(nopt):
            if not _allowed(base, a):
                continue
            ops = path + [a]
            cases.append({**base, "ops": ops + DRAIN, "drained": len(DRAIN)})
            key = _run({**base, "ops": ops}).split(" |", 1)[1]
            if key not in seen:
                seen[key] = ops
                todo.append(ops)
    return cases, len(seen)


def _segment(rng, ops, coalesce=True):
    """decorate a run with wire segmentation: partial deliveries (cut after IAC, or after the verb) placed just before
    the completing delivery or a few operations earlier, byte-wise deliveries, two commands coalesced in one delivery"""
    out = []
    for op in ops:
        if op[0] == "dlv" and len(op) == 2:
            r = rng.random()
            if r < 0.35:
                part = ["part", op[1], rng.choice([1, 2, 2])]
                out.insert(rng.randrange(max(0, len(out) - 3), len(out) + 1), part)
                out.append(op)
            elif r < 0.5:
                out.append(["dlv", op[1], "bytes"])
            elif r < 0.6 and coalesce:
                out.append(["dlv2", op[1]])
            else:
                out.append(op)
        else:
            out.append(op)
    return out


def _with_segmentation(rng, case, p):
    if rng.random() >= p:
        return case
    n = len(DRAIN) if case.get("drained") else 0
    core = case["ops"][:len(case["ops"]) - n]
    # outside the hypothesis an assertion can fail inside a handler; the exception then leaves dataReceived and the REST of
    # a coalesced delivery is dropped with it (like any exception from a parser callback), which the message-at-a-time
    # model does not describe: no coalesced deliveries there
    return {**case, "ops": _segment(rng, core, coalesce=case.get("hyp", True)) + case["ops"][len(core):]}


def _sync_cases(rng, tier):
    """zero-latency transport: every sequence of <= 2 (thorough 3) allowed requests on one option for several policy
    pairs, then random longer request sequences on 1-2 options"""
    quick = tier == "quick"
    pols = [[False, False], [False, True], [True, False], [True, True]]
    combos = [(a, b) for a in pols for b in pols]
    if quick:
        combos = [([True, True], [True, True]), ([True, True], [False, False]), ([True, False], [False, True]),
                  ([False, False], [True, True])]
    reqs = [a for a in _actions(1) if a[0] == "req"]
    cases = []
    full = [([True, True], [True, True]), ([True, True], [False, False]), ([True, False], [False, True]),
            ([False, False], [True, True])]
    for a, b in combos:
        base = {"pa": [a], "pb": [b], "hyp": True, "mode": "sync"}
        for n in range(1, (3 if (not quick and (a, b) in full) else 2) + 1):
            for seq in itertools.product(reqs, repeat=n):
                if all(_allowed(base, op) for op in seq):
                    cases.append({**base, "ops": [list(op) for op in seq]})
    for _ in range(150 if quick else 1500):
        nopt = rng.choice([1, 2])
        base = {"pa": [rng.choice(pols) for _ in range(nopt)], "pb": [rng.choice(pols) for _ in range(nopt)],
                "hyp": True, "mode": "sync"}
        ops = [a for a in (rng.choice([x for x in _actions(nopt) if x[0] == "req"]) for _ in range(rng.randrange(2, 14)))
               if _allowed(base, a)]
        cases.append({**base, "ops": ops})
    return cases


def gen(rng, tier):
    return [_with_segmentation(rng, c, 0.6) for c in _gen(rng, tier)] + _sync_cases(rng, tier)


def _gen(rng, tier):
    quick = tier == "quick"
    cases = []
    pols = [[False, False], [False, True], [True, False], [True, True]]
    combos = [(a, b) for a in pols for b in pols]
    if quick:
        combos = [([True, True], [True, True]), ([True, True], [False, False]), ([True, False], [False, True]),
                  ([False, True], [True, True])]
    for a, b in combos:
        cs, n = _explore([a], [b], 1, 2000, 40)
        cases += cs
    # two options sharing the channels: exhaustive to a bounded depth for accepting policies, then random
    cs, n = _explore([[True, True]] * 2, [[True, True]] * 2, 2, 60 if quick else 500, 6 if quick else 7)
    cases += cs
    for _ in range(300 if quick else 2500):
        nopt = rng.choice([1, 2, 2, 3])
        pa = [rng.choice(pols) for _ in range(nopt)]
        pb = [rng.choice(pols) for _ in range(nopt)]
        base = {"pa": pa, "pb": pb}
        ops = []
        for _ in range(rng.randrange(4, 40)):
            a = rng.choice(_actions(nopt)) if rng.random() < 0.6 else ["dlv", rng.choice("AB")]
            if _allowed(base, a):
                ops.append(a)
        drain = rng.random() < 0.7
        cases.append({**base, "ops": ops + (DRAIN if drain else []), "hyp": True, **({"drained": len(DRAIN)} if drain else {})})
    # outside the hypothesis (an endpoint requests what its own policy refuses): correspondence only
    for _ in range(60 if quick else 600):
        pa, pb = [rng.choice(pols)], [rng.choice(pols)]
        ops = [rng.choice(_actions(1)) for _ in range(rng.randrange(3, 20))]
        cases.append({"pa": pa, "pb": pb, "ops": ops, "hyp": False})
    return cases


def corpus():
    T = [True, True]
    return [
        {"pa": [T], "pb": [T], "hyp": True, "drained": 12,
         "ops": [["req", "A", 0, "will"], ["req", "B", 0, "do"], ["dlv", "A"], ["dlv", "B"]] + DRAIN},
        {"pa": [T], "pb": [T], "hyp": True, "drained": 12,
         "ops": [["req", "B", 0, "do"], ["dlv", "B"], ["req", "A", 0, "wont"], ["dlv", "A"], ["dlv", "A"], ["dlv", "B"]] + DRAIN},
        {"pa": [T], "pb": [[False, False]], "hyp": True, "drained": 12,
         "ops": [["req", "A", 0, "will"], ["req", "A", 0, "do"], ["dlv", "A"], ["dlv", "B"], ["req", "A", 0, "do"]] + DRAIN},
        # a negotiation command cut exactly after the verb, the option byte arriving later (and cut after IAC; byte-wise;
        # two commands coalesced)
        {"pa": [T], "pb": [T], "hyp": True, "drained": 12,
         "ops": [["req", "A", 0, "will"], ["part", "A", 2], ["req", "B", 0, "do"], ["dlv", "A"], ["part", "B", 1],
                 ["dlv", "B", "bytes"]] + DRAIN},
        {"pa": [T, T], "pb": [T, T], "hyp": True, "drained": 12,
         "ops": [["req", "A", 0, "will"], ["req", "A", 1, "do"], ["dlv2", "A"], ["part", "B", 2], ["dlv2", "B"]] + DRAIN},
        # zero-latency transport: the answer arrives before the request method returns
        {"pa": [T], "pb": [T], "hyp": True, "mode": "sync",
         "ops": [["req", "A", 0, "will"], ["req", "A", 0, "wont"], ["req", "B", 0, "do"], ["req", "B", 0, "dont"]]},
        {"pa": [[False, False]], "pb": [T], "hyp": False,
         "ops": [["req", "A", 0, "do"], ["dlv", "A"], ["dlv", "B"]]},          # assert enableRemote fails
        {"pa": [T, T], "pb": [T, [False, True]], "hyp": True, "drained": 12,
         "ops": [["req", "A", 0, "will"], ["req", "A", 1, "will"], ["req", "B", 1, "will"], ["dlv", "A"], ["dlv", "B"],
                 ["dlv", "A"], ["req", "B", 0, "dont"]] + DRAIN},
    ]


def to_coq(case):
    pol = lambda l: coq_list([f"mkpol {str(p[0]).lower()} {str(p[1]).lower()}" for p in l], "pol")
    msg = {"will": "WILL", "wont": "WONT", "do": "DO", "dont": "DONT"}

    def op(o):
        if o[0] == "req":
            r = [f"MReq {o[1]} {o[2]}%nat {msg[o[3]]}"]
            if case.get("mode") == "sync":      # zero latency = the request, then the chain of deliveries it sets off
                other = "B" if o[1] == "A" else "A"
                r += [f"MDlv {o[1]}", f"MDlv {other}", f"MDlv {o[1]}", f"MDlv {other}"]
            return r
        if o[0] == "part":
            return []                         # segmentation of the wire is invisible to the model (C38)
        return [f"MDlv {o[1]}"] * (2 if o[0] == "dlv2" else 1)

    opts = coq_list([f"{i}%nat" for i in range(len(case["pa"]))], "nat")
    ops = [x for o in case["ops"] for x in op(o)]
    return f"({pol(case['pa'])}, {pol(case['pb'])}, {coq_list(ops, 'mact')}, {opts})"


def shrink(case):
    ops = case["ops"]
    core = ops[:-len(DRAIN)] if case.get("drained") else ops
    tail = ops[len(core):]
    for i in range(len(core)):
        yield {**case, "ops": core[:i] + core[i + 1:] + tail}


def histogram(case, obs):
    k = f"{len(case['pa'])}opt" + (" sync" if case.get("mode") == "sync" else "")
    if not case.get("hyp", True):
        return k + " outside-hypothesis"
    body = obs.split(" |")[0]
    return k + (" refused" if "=ref" in body else "") + (" crossing" if body.count("I") >= 2 else "")


SPEC = Spec(
    pid="C39",
    gen=gen, impl=impl, oracle=oracle, corpus=corpus, shrink=shrink,
    coq_header="From C39 Require Import Base Gen Model Run.",
    coq_fn="run_show",
    to_coq=to_coq,
    regen=lambda: tr.regen(REPO, COQ),
    nontrivial=lambda c, o: ">" in o,
    histogram=histogram,
    rule="breadth-first exploration of two REAL Telnet objects (state = option states of both sides + commands in "
         "flight), one case per explored edge followed by 12 alternating deliveries: one option, every "
         "enableLocal/enableRemote policy pair (quick: 4 of the 16), all requests allowed by the hypothesis, unbounded "
         "depth; two options sharing the channels to depth 6 (thorough 8); random runs of 4-40 operations on 1-3 options "
         "with random policies; runs outside the hypothesis for the correspondence only; 60% of all runs are decorated with "
         "wire segmentation (a command cut after IAC or after the verb with the rest arriving up to 3 operations later, "
         "byte-wise delivery, two commands coalesced in one delivery); plus a ZERO-LATENCY transport (write() delivers to the peer "
         "re-entrantly, answers come back before the request method returns): every sequence of <= 2 (thorough 3) requests for "
         "4 (16) policy pairs and random longer ones; non-trivial = at least one command was sent",
    trusted=["translate/c39.py (fail-closed ast matcher for the dispatchers, maps, handlers and request methods)",
             "hand-written operational meaning of the generated tables in coq/C39/Model.v (tied by this correspondence run)",
             "the harness's in-flight queue: FIFO per direction; a command takes effect in the model when its last byte is "
             "delivered (C38: segmentation of the wire is invisible to the parser)"],
    assumptions=["each endpoint's enableLocal/enableRemote answer depends on the option only",
                 "an endpoint calls will(opt) only if its enableLocal(opt) is true and do(opt) only if its enableRemote(opt) "
                 "is true (the property's hypothesis)"],
)
