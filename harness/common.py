"""Shared machinery for every property check (see DESIGN.md section 1.1).

A property module ``harness/cNN.py`` defines ``SPEC = Spec(...)`` (or a ``main(ctx)``)
and this file does the rest of the decision protocol:

  1. gate + (optional) regenerate Gen.v from /repo  + build the Coq closure of
     coq/CNN/Property.v, capture ``Print Assumptions``;
  2. correspondence: run the implementation (in-process, from $VERIF_REPO/src) and
     the Gallina model (``vm_compute`` on generated Cases files, sharded) on the
     same cases and diff canonical observation strings;
  3. property oracle on the implementation's observations (always);
  4. known findings, VIOLATION / KNOWN-FINDING lines, evidence file.
"""
from __future__ import annotations

import hashlib
import json
import os
import random
import re
import shutil
import signal
import subprocess
import sys
import time
import traceback
from concurrent.futures import ThreadPoolExecutor
from contextlib import contextmanager
from dataclasses import dataclass, field
from typing import Any, Callable, Iterable, Optional

VERIF = os.path.dirname(os.path.dirname(os.path.abspath(__file__)))
REPO = os.environ.get("VERIF_REPO", "/repo")
SRC = os.path.join(REPO, "src")
COQ = os.environ.get("VERIF_COQ", os.path.join(VERIF, "coq"))  # seedtest.sh points this at a private copy
WORK = os.environ.get("VERIF_WORK", os.path.join(VERIF, ".work"))
NPROC = int(os.environ.get("VERIF_JOBS", "8"))
OUT = os.environ.get("VERIF_OUT", VERIF)  # evidence/ and replays/ go here (seedtest.sh points it elsewhere)

FORBIDDEN = re.compile(
    r"\b(Admitted|admit|Axiom|Axioms|Parameter|Parameters|Conjecture|Conjectures|"
    r"Admit\s+Obligations|Unset\s+Guard\s+Checking|Unset\s+Positivity\s+Checking|"
    r"Unset\s+Universe\s+Checking|bypass_check|native_compute|give_up)\b"
)


# --------------------------------------------------------------------------------------
# small utilities


class CaseTimeout(BaseException):
    """Raised inside the implementation when a case exceeds its time limit.  A BaseException so that
    ``except Exception`` in the code under test cannot swallow it."""


# what the implementation is currently running (for the hard-hang exit below)
_RUNNING: dict = {"pid": None, "case": None, "seed": 0, "tier": "quick", "done": 0}
MAX_HANGS = 4          # stop running further cases once this many have hung
HARD_HANG_AFTER = 6  # further timer firings (1 s apart) after the first CaseTimeout was swallowed


def _hard_hang() -> None:
    """The implementation keeps running although CaseTimeout was raised in it several times (a loop that
    swallows every exception): report the non-termination as a violation with the case as the failing input
    and leave — nothing else can be done in-process."""
    pid = _RUNNING.get("pid") or "C??"
    try:
        path = write_replay(pid, {"property": pid, "kind": "failing-input", "tag": "hang",
                                  "reason": "implementation did not terminate within the per-case limit and "
                                            "swallowed the interruption (busy loop)",
                                  "case": _RUNNING.get("case"), "impl_observation": "HANG",
                                  "seed": _RUNNING.get("seed")})
        n = int(_RUNNING.get("done") or 0) + 1
        write_evidence(pid, _RUNNING.get("tier") or "quick", int(_RUNNING.get("seed") or 0),
                       {"evaluations": n, "distinct_nontrivial": n,
                        "rule": "run aborted: the implementation hung on the case in the replay file",
                        "samples": [{"case": repr(_RUNNING.get("case"))[:500], "impl": "HANG"}]},
                       ["run aborted by the hard-hang guard"], 0.0, 1)
        sys.stdout.write(f"VIOLATION property={pid} replay={path}\n")
        sys.stdout.flush()
    finally:
        os._exit(1)


@contextmanager
def time_limit(seconds: float):
    """Per-case wall-clock limit for implementation runs (non-termination detection).  The timer keeps firing
    every second after the limit: code that catches the first CaseTimeout gets it again; after
    HARD_HANG_AFTER further firings the run is ended by _hard_hang()."""
    fired = [0]

    def handler(signum, frame):
        fired[0] += 1
        if fired[0] > HARD_HANG_AFTER:
            _hard_hang()
        raise CaseTimeout()

    old = signal.signal(signal.SIGALRM, handler)
    signal.setitimer(signal.ITIMER_REAL, seconds, 1.0)
    try:
        yield
    finally:
        signal.setitimer(signal.ITIMER_REAL, 0)
        signal.signal(signal.SIGALRM, old)


def hexs(b: bytes) -> str:
    return bytes(b).hex()


def coq_bytes(b: bytes) -> str:
    """bytes -> Coq term of type ``list N``."""
    if not b:
        return "(@nil N)"
    return "[" + ";".join(str(x) for x in bytes(b)) + "]%N"


def coq_list(items: Iterable[str], ty: Optional[str] = None) -> str:
    items = list(items)
    if not items:
        return f"(@nil {ty})" if ty else "[]"
    return "[" + "; ".join(items) + "]"


def coq_Z(n: int) -> str:
    return f"({n})%Z"


def coq_N(n: int) -> str:
    assert n >= 0
    return f"{n}%N"


def coq_nat(n: int) -> str:
    assert 0 <= n < 5000, "no large nat literals"
    return f"{n}%nat"


def coq_bool(b: bool) -> str:
    return "true" if b else "false"


def coq_option(x: Optional[str], ty: Optional[str] = None) -> str:
    if x is None:
        return f"(@None {ty})" if ty else "None"
    return f"(Some {x})"


def coq_string(s: str) -> str:
    """ASCII text -> Coq string literal (only for printable ASCII without newlines)."""
    assert all(32 <= ord(c) < 127 for c in s), s
    return '"' + s.replace('"', '""') + '"%string'


def exc_name(e: BaseException) -> str:
    return type(e).__name__


def stable_hash(obj: Any) -> str:
    return hashlib.sha1(json.dumps(obj, sort_keys=True, default=repr).encode()).hexdigest()[:16]


def _run(cmd, cwd=None, timeout=None, env=None, input=None):
    return subprocess.run(
        cmd, cwd=cwd, timeout=timeout, env=env, input=input, text=True,
        stdout=subprocess.PIPE, stderr=subprocess.STDOUT,
    )


# --------------------------------------------------------------------------------------
# Coq build


def coq_dirs() -> list[str]:
    return sorted(
        d for d in os.listdir(COQ)
        if os.path.isdir(os.path.join(COQ, d)) and not d.startswith(".")
    )


def logical_name(d: str) -> str:
    return "TwLib" if d == "Lib" else d


def coq_flags() -> list[str]:
    out: list[str] = []
    for d in coq_dirs():
        out += ["-Q", os.path.join(COQ, d), logical_name(d)]
    return out


def regen_coqproject() -> None:
    """(Re)write coq/_CoqProject and coq/Makefile when the file set changed."""
    lines = []
    for d in coq_dirs():
        lines.append(f"-Q {d} {logical_name(d)}")
    lines.append("-arg -w -arg -notation-overridden,-deprecated,-ambiguous-paths")
    for d in coq_dirs():
        for f in sorted(os.listdir(os.path.join(COQ, d))):
            if f.endswith(".v") and not f.startswith("Cases") and not f.startswith("."):
                lines.append(f"{d}/{f}")
    text = "\n".join(lines) + "\n"
    path = os.path.join(COQ, "_CoqProject")
    old = open(path).read() if os.path.exists(path) else None
    if old != text or not os.path.exists(os.path.join(COQ, "Makefile")):
        with open(path, "w") as f:
            f.write(text)
        r = _run(["coq_makefile", "-f", "_CoqProject", "-o", "Makefile"], cwd=COQ, timeout=120)
        if r.returncode != 0:
            raise RuntimeError("coq_makefile failed:\n" + r.stdout)
        dep = os.path.join(COQ, ".Makefile.d")
        if os.path.exists(dep):
            os.remove(dep)


@contextmanager
def build_lock():
    import fcntl

    os.makedirs(WORK, exist_ok=True)
    with open(os.path.join(WORK, "build.lock"), "w") as lk:
        fcntl.flock(lk, fcntl.LOCK_EX)
        try:
            yield
        finally:
            fcntl.flock(lk, fcntl.LOCK_UN)


def gate(dirs: list[str]) -> list[str]:
    """Forbidden-construct gate over the given coq sub-directories."""
    bad = []
    for d in dirs:
        p = os.path.join(COQ, d)
        if not os.path.isdir(p):
            continue
        for f in sorted(os.listdir(p)):
            if not f.endswith(".v"):
                continue
            txt = open(os.path.join(p, f), errors="replace").read()
            txt = re.sub(r"\(\*.*?\*\)", " ", txt, flags=re.S)  # comments (non-nested is enough)
            txt = re.sub(r'"(?:[^"]|"")*"', '""', txt)  # string literals
            for m in FORBIDDEN.finditer(txt):
                bad.append(f"{d}/{f}: {m.group(0)}")
    return bad


@dataclass
class ProofResult:
    ok: bool
    obligations: int
    discharged: int
    theorems: list[str]
    assumptions: dict[str, str]
    log: str
    cmd: str
    failed_theorems: list[str] = field(default_factory=list)
    wall_s: float = 0.0


def _property_theorems(path: str) -> list[str]:
    txt = open(path).read()
    txt = re.sub(r"\(\*.*?\*\)", " ", txt, flags=re.S)
    return re.findall(r"^\s*(?:Theorem|Lemma|Corollary)\s+([A-Za-z_][A-Za-z0-9_']*)", txt, flags=re.M)


def deps_of(pid: str) -> list[str]:
    """coq sub-directories a property's development may import (for the gate)."""
    out = ["Lib", pid]
    p = os.path.join(COQ, pid)
    if os.path.isdir(p):
        for f in os.listdir(p):
            if f.endswith(".v"):
                for m in re.finditer(r"(?:From\s+|Require\s+(?:Import\s+|Export\s+)?)(C\d\d)\b", open(os.path.join(p, f)).read()):
                    if m.group(1) not in out:
                        out.append(m.group(1))
    return out


def build_proofs(pid: str, timeout: int = 1500) -> ProofResult:
    """make the closure of coq/<pid>/Property.vo, then re-run coqc on Property.v to
    capture ``Print Assumptions``.  obligations = theorems stated in Property.v."""
    t0 = time.time()
    prop = os.path.join(COQ, pid, "Property.v")
    theorems = _property_theorems(prop) if os.path.exists(prop) else []
    cmd = f"make -C coq {pid}/Property.vo && coqc <flags> coq/{pid}/Property.v"
    bad = gate(deps_of(pid))
    if bad:
        return ProofResult(False, len(theorems), 0, theorems, {}, "forbidden constructs: " + "; ".join(bad), cmd,
                           failed_theorems=theorems, wall_s=time.time() - t0)
    if not theorems:
        return ProofResult(False, 0, 0, [], {}, "no Property.v or no theorem in it", cmd, wall_s=time.time() - t0)
    with build_lock():
        regen_coqproject()
        try:
            targets = pid_targets(pid)
            r = _run(["make", "-C", COQ, f"-j{NPROC}"] + targets, timeout=timeout)
        except subprocess.TimeoutExpired:
            return ProofResult(False, len(theorems), 0, theorems, {}, "make timed out", cmd,
                               failed_theorems=theorems, wall_s=time.time() - t0)
    if r.returncode != 0:
        return ProofResult(False, len(theorems), 0, theorems, {}, r.stdout[-6000:], cmd,
                           failed_theorems=_guess_failed(r.stdout, theorems), wall_s=time.time() - t0)
    # second pass for the Print Assumptions text
    os.makedirs(os.path.join(WORK, pid), exist_ok=True)
    os.makedirs(os.path.join(WORK, pid, "pa"), exist_ok=True)
    out_vo = os.path.join(WORK, pid, "pa", "Property.vo")
    try:
        r2 = _run(["coqc"] + coq_flags() + ["-w", "-notation-overridden,-deprecated,-ambiguous-paths",
                                            "-o", out_vo, prop], timeout=timeout)
    except subprocess.TimeoutExpired:
        return ProofResult(False, len(theorems), 0, theorems, {}, "coqc Property.v timed out", cmd,
                           failed_theorems=theorems, wall_s=time.time() - t0)
    if r2.returncode != 0:
        return ProofResult(False, len(theorems), 0, theorems, {}, r2.stdout[-6000:], cmd,
                           failed_theorems=_guess_failed(r2.stdout, theorems), wall_s=time.time() - t0)
    assumptions = parse_assumptions(r2.stdout, theorems)
    return ProofResult(True, len(theorems), len(theorems), theorems, assumptions, r2.stdout[-4000:], cmd,
                       wall_s=time.time() - t0)


def _guess_failed(log: str, theorems: list[str]) -> list[str]:
    m = re.search(r'File "([^"]+)", line (\d+)', log)
    if not m:
        return theorems
    return [f"{os.path.relpath(m.group(1), COQ) if os.path.isabs(m.group(1)) else m.group(1)}:{m.group(2)}"]


def parse_assumptions(out: str, theorems: list[str]) -> dict[str, str]:
    """Property.v prints, for each theorem, Print Assumptions output in order."""
    blocks = re.split(r"(?=^(?:Closed under the global context|Axioms:|Fetching opaque proofs))", out, flags=re.M)
    blocks = [b.strip() for b in blocks if b.strip().startswith(("Closed", "Axioms"))]
    res = {}
    for i, t in enumerate(theorems):
        res[t] = blocks[i] if i < len(blocks) else "(no Print Assumptions output)"
    return res


def coqchk(pid: str, timeout: int = 1800) -> tuple[bool, str]:
    r = _run(["coqchk", "-silent", "-o"] + coq_flags() + [f"{logical_name(pid)}.Property"], timeout=timeout)
    return r.returncode == 0, r.stdout[-3000:]


# --------------------------------------------------------------------------------------
# running the model inside Coq


_ENSURED: set[str] = set()


def header_targets(header: str) -> list[str]:
    """The make targets (dir/File.vo) of the project modules a Require/Import prelude names."""
    dirs = {logical_name(d): d for d in coq_dirs()}
    names: list[str] = []
    for m in re.finditer(r"(?:From\s+([A-Za-z0-9_.]+)\s+)?Require\s+(?:Import|Export)?\s*([^.]*(?:\.[A-Za-z0-9_]+[^.]*)*)\.(?:\s|$)", header):
        pre = m.group(1)
        for w in m.group(2).split():
            names.append(f"{pre}.{w}" if pre else w)
    out = []
    for n in names:
        parts = n.split(".")
        if len(parts) >= 2 and parts[0] in dirs:
            f = os.path.join(dirs[parts[0]], *parts[1:]) + ".v"
            if os.path.exists(os.path.join(COQ, f)):
                out.append(f + "o")
    return out


def ensure_modules(header: str) -> None:
    """Build (under the build lock) every project module the prelude requires: a fresh checkout has
    only what Property.vo and Run.vo depend on."""
    todo = [t for t in header_targets(header) if t not in _ENSURED]
    missing = [t for t in todo if not os.path.exists(os.path.join(COQ, t))]
    if missing:
        with build_lock():
            regen_coqproject()
            r = _run(["make", "-C", COQ, f"-j{NPROC}"] + todo, timeout=1500)
        if r.returncode != 0:
            raise RuntimeError("building the modules the evaluation prelude requires failed:\n" + r.stdout[-3000:])
    _ENSURED.update(todo)


def pid_targets(pid: str) -> list[str]:
    """Every module in coq/<pid>/ (Property, Run, and whatever else the check evaluates or cites)."""
    d = os.path.join(COQ, pid)
    return [f"{pid}/{f}o" for f in sorted(os.listdir(d))
            if f.endswith(".v") and not f.startswith("Cases") and not f.startswith(".")]


def coq_eval(pid: str, header: str, fn: str, terms: list[str], shard: int = 400,
             timeout: int = 900, tag: str = "Cases") -> list[str]:
    """Evaluate ``fn term`` (a Coq ``string``) for every term with vm_compute, sharded
    over several coqc processes.  ``header`` is the Require/Import prelude.  Returns one
    result line per term.  Result strings must not contain newlines or double quotes."""
    if not terms:
        return []
    ensure_modules(header)
    wd = os.path.join(WORK, pid, f"{tag}_{os.getpid()}")
    shutil.rmtree(wd, ignore_errors=True)
    os.makedirs(wd)
    shards = [terms[i:i + shard] for i in range(0, len(terms), shard)]
    files = []
    for k, sh in enumerate(shards):
        path = os.path.join(wd, f"Cases{k}.v")
        with open(path, "w") as f:
            f.write("From Coq Require Import String List NArith ZArith Ascii.\nImport ListNotations.\n")
            f.write(header + "\n")
            f.write("Definition verif_nl : string := String (ascii_of_nat 10) EmptyString.\n")
            for j, t in enumerate(sh):
                f.write(f"Definition verif_case_{j} := ({fn} ({t})).\n")
            f.write("Eval vm_compute in (String.concat verif_nl [" +
                    "; ".join(f"verif_case_{j}" for j in range(len(sh))) + "]).\n")
        files.append(path)

    def one(path):
        r = _run(["coqc"] + coq_flags() + ["-w", "-all", "-o", path[:-2] + ".vo", path], timeout=timeout)
        if r.returncode != 0:
            raise RuntimeError(f"model evaluation failed for {path}:\n{r.stdout[-3000:]}")
        m = re.search(r'^\s*= "(.*)"(?:%string)?\s*\n\s*: string', r.stdout, flags=re.S | re.M)
        if not m:
            raise RuntimeError(f"cannot parse coqc output for {path}:\n{r.stdout[-2000:]}")
        return m.group(1).replace('""', '"').split("\n")

    with ThreadPoolExecutor(max_workers=NPROC) as ex:
        outs = list(ex.map(one, files))
    res: list[str] = []
    for sh, o in zip(shards, outs):
        if len(o) != len(sh):
            raise RuntimeError(f"model returned {len(o)} lines for {len(sh)} cases")
        res += o
    shutil.rmtree(wd, ignore_errors=True)
    return res


# --------------------------------------------------------------------------------------
# known findings


def load_known(pid: str) -> dict[str, dict]:
    path = os.path.join(VERIF, "known_findings.json")
    if not os.path.exists(path):
        return {}
    data = json.load(open(path))
    return {e["tag"]: e for e in data.get("findings", []) if e.get("property") == pid}


# --------------------------------------------------------------------------------------
# the standard protocol


@dataclass
class Failure:
    """A property failure observed on the implementation."""
    case: Any
    reason: str
    tag: str = ""          # classification used to match known findings ('' = unclassified)
    obs: Any = None


@dataclass
class Spec:
    pid: str
    # cases ---------------------------------------------------------------------------
    gen: Callable[[random.Random, str], list]                 # (rng, tier) -> cases (JSON-able)
    impl: Callable[[Any], str]                                # case -> canonical observation string
    oracle: Callable[[Any, str], Optional[Failure]]           # property oracle on the impl observation
    # model -----------------------------------------------------------------------------
    coq_header: str = ""                                      # Require Import ... for Cases files
    coq_fn: str = ""                                          # Gallina function : input -> string
    to_coq: Optional[Callable[[Any], Optional[str]]] = None   # case -> Coq term (None = not modelled)
    # optional ----------------------------------------------------------------------------
    corpus: Callable[[], list] = lambda: []
    nontrivial: Callable[[Any, str], bool] = lambda c, o: True
    shrink: Optional[Callable[[Any], Iterable]] = None        # case -> smaller candidates
    search: Optional[Callable[[random.Random], list]] = None  # extra cases when a tie breaks
    regen: Optional[Callable[[], Optional[str]]] = None       # T-tie: rewrite Gen.v; returns error text or None
    rule: str = ""
    trusted: list[str] = field(default_factory=list)
    assumptions: list[str] = field(default_factory=list)
    case_timeout: float = 10.0
    describe: Callable[[Any], Any] = lambda c: c              # case -> sample for the evidence
    extra: Optional[Callable[["Ctx"], dict]] = None           # extra coverage keys / side checks
    model_equal: Optional[Callable[[Any, str, str], bool]] = None  # (case, impl, model) -> agree?
    shard: int = 400                                          # cases per Cases<k>.v file (coq_eval)
    histogram: Optional[Callable[[Any, str], str]] = None     # case class for the distribution


class Ctx:
    def __init__(self, pid: str, tier: str, seed: int):
        self.pid, self.tier, self.seed = pid, tier, seed
        self.rng = random.Random(seed)
        self.t0 = time.time()
        self.lines: list[str] = []

    def say(self, s: str) -> None:
        print(s, flush=True)


def safe_impl(spec: Spec, case) -> str:
    _RUNNING["pid"], _RUNNING["case"] = spec.pid, case
    try:
        with time_limit(spec.case_timeout):
            return spec.impl(case)
    except CaseTimeout:
        return "HANG"
    except BaseException as e:  # the driver itself should map expected exceptions
        if isinstance(e, KeyboardInterrupt):
            raise
        try:
            text = str(e)
        except BaseException:  # exceptions whose own __str__ raises
            text = "<unprintable>"
        return "CRASH:" + exc_name(e) + ":" + text[:200].replace("\n", " ")
    finally:
        _RUNNING["done"] = int(_RUNNING.get("done") or 0) + 1


def write_replay(pid: str, payload: dict) -> str:
    d = os.path.join(OUT, "replays", pid)
    os.makedirs(d, exist_ok=True)
    path = os.path.join(d, stable_hash(payload) + ".json")
    with open(path, "w") as f:
        json.dump(payload, f, indent=1, default=repr)
    return path


def do_shrink(spec: Spec, fail: Failure, budget: int = 400) -> Failure:
    if spec.shrink is None:
        return fail
    cur = fail
    n = 0
    progress = True
    while progress and n < budget:
        progress = False
        for cand in spec.shrink(cur.case):
            n += 1
            if n >= budget:
                break
            obs = safe_impl(spec, cand)
            f = _oracle(spec, cand, obs)
            if f is not None and f.tag == cur.tag:
                cur = f
                progress = True
                break
    return cur


def _oracle(spec: Spec, case, obs: str) -> Optional[Failure]:
    if obs == "HANG":
        return Failure(case, "implementation did not terminate within the per-case limit", "hang", obs)
    if obs.startswith("CRASH:"):
        return Failure(case, "implementation raised an unexpected exception: " + obs, "crash:" + obs.split(":")[1], obs)
    f = spec.oracle(case, obs)
    if f is not None and f.obs is None:
        f.obs = obs
    return f


def run_spec(spec: Spec, tier: str, seed: int, replay: Optional[str] = None) -> int:
    ctx = Ctx(spec.pid, tier, seed)
    pid = spec.pid
    _RUNNING.update(pid=pid, seed=seed, tier=tier, done=0)
    known = load_known(pid)
    broken: list[str] = []       # proof obligations / correspondences that no longer check

    if replay:
        data = json.load(open(replay))
        case = data.get("case")
        obs = safe_impl(spec, case)
        f = _oracle(spec, case, obs)
        ctx.say(f"replay case={json.dumps(case, default=repr)[:400]}")
        ctx.say(f"impl  -> {obs[:400]}")
        if spec.to_coq and spec.to_coq(case) is not None:
            try:
                m = coq_eval(pid, spec.coq_header, spec.coq_fn, [spec.to_coq(case)], tag="Replay")[0]
                ctx.say(f"model -> {m[:400]}")
            except Exception as e:
                ctx.say(f"model evaluation failed: {e}")
        ctx.say("oracle -> " + (f.reason if f else "property holds on this case"))
        return 1 if f else 0

    # 1. regenerate + proofs ---------------------------------------------------------------
    regen_err = None
    if spec.regen is not None:
        try:
            regen_err = spec.regen()
        except Exception as e:
            regen_err = "translator crashed: " + "".join(traceback.format_exception_only(type(e), e)).strip()
        if regen_err:
            broken.append("translator: " + regen_err)
    proof = build_proofs(pid)
    if not proof.ok:
        broken.append("proof: " + ", ".join(proof.failed_theorems or ["build"]) + " :: " + proof.log[-600:])
    chk_out = None
    if tier == "thorough" and proof.ok and os.environ.get("VERIF_COQCHK", "1") == "1":
        ok, chk_out = coqchk(pid)
        if not ok:
            broken.append("coqchk: " + chk_out[-600:])

    # 2. cases ---------------------------------------------------------------------------------
    corpus = list(spec.corpus())
    cases = corpus + list(spec.gen(ctx.rng, tier))
    seen = set()
    uniq = []
    for c in cases:
        h = stable_hash(c)
        if h not in seen:
            seen.add(h)
            uniq.append(c)
    cases = uniq
    # run the implementation; a few hangs are enough evidence — do not wait case_timeout for hundreds of cases
    impl_obs = []
    hangs = 0
    for c in cases:
        o = safe_impl(spec, c)
        impl_obs.append(o)
        if o == "HANG":
            hangs += 1
            if hangs >= MAX_HANGS:
                break
    if len(impl_obs) < len(cases):
        ctx.say(f"[{pid}] {hangs} cases hung; the remaining {len(cases) - len(impl_obs)} cases were not run")
        cases = cases[:len(impl_obs)]

    # 3. oracle on the implementation (always) ----------------------------------------------
    failures: list[Failure] = []
    for c, o in zip(cases, impl_obs):
        f = _oracle(spec, c, o)
        if f is not None:
            failures.append(f)

    # 4. correspondence ------------------------------------------------------------------------
    diverging: list[tuple[Any, str, str]] = []
    modelled = 0
    model_err = None
    if spec.to_coq is not None and proof.ok or (spec.to_coq is not None and not proof.ok and _model_built(pid)):
        idx, terms = [], []
        for i, c in enumerate(cases):
            t = spec.to_coq(c)
            if t is not None:
                idx.append(i)
                terms.append(t)
        try:
            outs = coq_eval(pid, spec.coq_header, spec.coq_fn, terms, shard=spec.shard)
            modelled = len(outs)
            eq = spec.model_equal or (lambda c, a, b: a == b)
            for i, m in zip(idx, outs):
                if not eq(cases[i], impl_obs[i], m):
                    diverging.append((cases[i], impl_obs[i], m))
        except Exception as e:
            model_err = str(e)[-1500:]
            broken.append("model evaluation: " + model_err)
    if diverging:
        c, a, b = diverging[0]
        broken.append(f"correspondence: {len(diverging)} case(s) where model and implementation differ; first: "
                      f"case={json.dumps(spec.describe(c), default=repr)[:300]} impl={a[:200]} model={b[:200]}")

    # 5. when a tie broke: search for a failing input -----------------------------------------
    searched = 0
    if broken and not [f for f in failures if f.tag not in known]:
        extra = []
        if spec.search is not None:
            extra = list(spec.search(ctx.rng))
        else:
            extra = list(spec.gen(random.Random(seed + 1), "thorough"))
        for c in extra:
            o = safe_impl(spec, c)
            searched += 1
            f = _oracle(spec, c, o)
            if f is not None and f.tag not in known:
                failures.append(f)
                break

    # 6. classify ------------------------------------------------------------------------------
    new_failures = [f for f in failures if f.tag not in known]
    known_hits: dict[str, Failure] = {}
    for f in failures:
        if f.tag in known and f.tag not in known_hits:
            known_hits[f.tag] = f
    for tag, f in known_hits.items():
        ctx.say(f"KNOWN-FINDING: property={pid} {known[tag].get('what', tag)}")

    rc = 0
    nviol = 0
    if new_failures:
        # report one violation per distinct tag (shrunk)
        done = set()
        for f in new_failures:
            if f.tag in done:
                continue
            done.add(f.tag)
            f = do_shrink(spec, f)
            path = write_replay(pid, {"property": pid, "kind": "failing-input", "tag": f.tag, "reason": f.reason,
                                      "case": f.case, "impl_observation": f.obs, "seed": seed,
                                      "broken_ties": broken})
            ctx.say(f"VIOLATION property={pid} replay={path}")
            nviol += 1
        rc = 1
    elif broken:
        payload = {"property": pid, "kind": "tie-broken", "no_longer_checks": broken, "seed": seed,
                   "searched_cases": searched + len(cases)}
        if diverging:
            payload["case"] = diverging[0][0]
            payload["impl_observation"] = diverging[0][1]
            payload["model_observation"] = diverging[0][2]
        path = write_replay(pid, payload)
        ctx.say(f"VIOLATION property={pid} replay={path} no-failing-input-found")
        nviol += 1
        rc = 1

    # 7. evidence ------------------------------------------------------------------------------
    nontriv = set()
    hist: dict[str, int] = {}
    for c, o in zip(cases, impl_obs):
        if spec.nontrivial(c, o):
            nontriv.add(stable_hash([c, o]))
        if spec.histogram:
            k = spec.histogram(c, o)
            hist[k] = hist.get(k, 0) + 1
    samples = [{"case": spec.describe(c), "impl": o[:300]} for c, o in list(zip(cases, impl_obs))[:3]]
    if len(cases) > 6:
        step = max(1, len(cases) // 3)
        samples += [{"case": spec.describe(cases[i]), "impl": impl_obs[i][:300]} for i in range(step, len(cases), step)][:3]
    trusted = ["Coq 8.16.1 kernel (coqc, vm_compute; no native_compute)"]
    for t, a in proof.assumptions.items():
        trusted.append(f"Print Assumptions {t}: {' '.join(a.split())[:400]}")
    trusted += spec.trusted
    coverage = {
        "obligations": max(proof.obligations, 1),
        "discharged": proof.discharged,
        "checker_cmd": proof.cmd + (" ; coqchk -o" if chk_out is not None else ""),
        "trusted_base": trusted,
        "theorems": proof.theorems,
        "evaluations": len(cases) + searched,
        "distinct_nontrivial": len(nontriv),
        "rule": spec.rule,
        "samples": samples or [{"note": "no cases"}],
        "traces_validated_against_impl": modelled,
        "model_divergences": len(diverging),
        "corpus_cases": len(corpus),
        "known_findings_reproduced": sorted(known_hits),
        "broken_ties": broken,
        "proof_wall_s": round(proof.wall_s, 2),
    }
    if hist:
        coverage["input_distribution"] = dict(sorted(hist.items()))
    if chk_out is not None:
        coverage["coqchk"] = chk_out[-1500:]
    if spec.extra is not None:
        try:
            coverage.update(spec.extra(ctx) or {})
        except Exception as e:  # side information only
            coverage["extra_error"] = repr(e)
    write_evidence(pid, tier, seed, coverage, spec.assumptions, time.time() - ctx.t0, nviol)
    ctx.say(f"[{pid}] tier={tier} seed={seed} theorems={proof.discharged}/{proof.obligations} cases={len(cases)} "
            f"modelled={modelled} diverging={len(diverging)} failures={len(failures)} "
            f"known={len(known_hits)} wall={time.time() - ctx.t0:.1f}s rc={rc}")
    return rc


def _model_built(pid: str) -> bool:
    return os.path.exists(os.path.join(COQ, pid, "Model.vo"))


def write_evidence(pid: str, tier: str, seed: int, coverage: dict, assumptions: list[str], wall: float,
                   violations: int, level: str = "proof") -> None:
    os.makedirs(os.path.join(OUT, "evidence"), exist_ok=True)
    ev = {
        "property_id": pid,
        "tier": tier,
        "seed": seed,
        "level": level,
        "coverage": coverage,
        "assumptions": assumptions,
        "wall_s": round(wall, 2),
        "violations": violations,
    }
    with open(os.path.join(OUT, "evidence", f"{pid}.json"), "w") as f:
        json.dump(ev, f, indent=1, default=repr)
        f.write("\n")
