"""C36 — SSH channel flow control and flush-before-close: H-tie.

A real SSHConnection with one real SSHChannel (subclassed only to record callbacks) on a fake
transport that records sendPacket calls; the harness plays the peer by handing wire-format
CHANNEL_* payloads to SSHConnection.packetReceived.  Model: coq/C36 (step machine with ghost log).
"""
from __future__ import annotations

import itertools
import struct

from harness.common import Failure, Spec, coq_bytes, coq_list

REMOTE_ID = 7
BIG = 1 << 20

# case = {"rw": int, "rmp": int, "lw": int, "lmp": int, "ops": [op]}
# op   = ["w", hex] | ["x", type, hex] | ["lose"] | ["adj", n] | ["rd", hex] | ["rx", type, hex] | ["rclose"]
#        | ["aadj", n]   (the receiving application calls conn.adjustWindow(channel, n))


# --------------------------------------------------------------------------------------
# implementation driver


def impl(case) -> str:
    from twisted.conch.ssh import channel, common, connection

    events: list[str] = []

    class Transport:
        def sendPacket(self, t, payload):
            if t == connection.MSG_CHANNEL_DATA:
                rid, = struct.unpack(">L", payload[:4])
                d, rest = common.getNS(payload[4:])
                events.append(("D" if rid == REMOTE_ID and not rest else "BADD") + d.hex())
            elif t == connection.MSG_CHANNEL_EXTENDED_DATA:
                rid, ty = struct.unpack(">2L", payload[:8])
                d, rest = common.getNS(payload[8:])
                events.append(("X" if rid == REMOTE_ID and not rest else "BADX") + f"{ty}:" + d.hex())
            elif t == connection.MSG_CHANNEL_CLOSE:
                events.append("C" if payload == struct.pack(">L", REMOTE_ID) else "BADC")
            elif t == connection.MSG_CHANNEL_WINDOW_ADJUST:
                rid, n = struct.unpack(">2L", payload)
                events.append(("A" if rid == REMOTE_ID else "BADA") + str(n))
            else:
                events.append(f"P{t}")

        def sendUnimplemented(self):
            events.append("UNIMPL")

        def logPrefix(self):
            return "fake"

    class Chan(channel.SSHChannel):
        name = b"verif"

        # "recv_adjust": n = the receiving application calls conn.adjustWindow(channel, n) from inside the callbacks
        def dataReceived(self, data):
            events.append("r" + bytes(data).hex())
            if case.get("recv_adjust") is not None:
                self.conn.adjustWindow(self, case["recv_adjust"])

        def extReceived(self, dataType, data):
            events.append(f"e{dataType}:" + bytes(data).hex())
            if case.get("recv_adjust") is not None:
                self.conn.adjustWindow(self, case["recv_adjust"])

        def closed(self):
            events.append("z")

        # re-entrant application: the hooks may write synchronously (a push producer resumed / paused in the hook)
        depth = 0

        calls = None

        def _hook(self, script, which):
            self.calls = self.calls or {"+": 0, "-": 0}
            self.calls[which] += 1
            if self.depth >= 6:
                events.append("!deep")
                return
            self.depth += 1
            try:
                for h in script:
                    # every call the hook makes is logged at call time (hw/hx/hl): hooks nest (a write made from
                    # stopWriting() may itself run out of window), and the oracle needs the true call order
                    if h[0] == "w":
                        events.append("hw" + h[1])
                        self.write(bytes.fromhex(h[1]))
                    elif h[0] == "l":
                        # ["l"]: loseConnection() on every invocation; ["l", k]: on the k-th invocation only
                        if len(h) == 1 or h[1] == self.calls[which]:
                            events.append("hl")
                            self.loseConnection()
                    else:
                        events.append(f"hx{h[1]}:{h[2]}")
                        self.writeExtended(h[1], bytes.fromhex(h[2]))
            finally:
                self.depth -= 1

        def stopWriting(self):
            events.append("-")
            self._hook(case.get("stop_hook") or [], "-")

        def startWriting(self):
            events.append("+")
            self._hook(case.get("start_hook") or [], "+")

    conn = connection.SSHConnection()
    conn.transport = Transport()
    ch = Chan(localWindow=case["lw"], localMaxPacket=case["lmp"])
    conn.openChannel(ch)
    conn.packetReceived(connection.MSG_CHANNEL_OPEN_CONFIRMATION,
                        struct.pack(">4L", ch.id, REMOTE_ID, case["rw"], case["rmp"]))
    del events[:]
    lid = struct.pack(">L", ch.id)
    out = []
    for op in case["ops"]:
        try:
            k = op[0]
            if k == "w":
                ch.write(bytes.fromhex(op[1]))
            elif k == "x":
                ch.writeExtended(op[1], bytes.fromhex(op[2]))
            elif k == "lose":
                ch.loseConnection()
            elif k == "adj":
                conn.packetReceived(connection.MSG_CHANNEL_WINDOW_ADJUST, lid + struct.pack(">L", op[1]))
            elif k == "rd":
                conn.packetReceived(connection.MSG_CHANNEL_DATA, lid + common.NS(bytes.fromhex(op[1])))
            elif k == "rx":
                conn.packetReceived(connection.MSG_CHANNEL_EXTENDED_DATA,
                                    lid + struct.pack(">L", op[1]) + common.NS(bytes.fromhex(op[2])))
            elif k == "rclose":
                conn.packetReceived(connection.MSG_CHANNEL_CLOSE, lid)
            elif k == "aadj":
                conn.adjustWindow(ch, op[1])
            else:
                raise ValueError(op)
        except KeyError:
            events.append("K")
        out.append(",".join(events) if events else ".")
        del events[:]
    # documented public attributes of SSHChannel
    return (" ".join(out) + f" |rw={ch.remoteWindowLeft} lw={ch.localWindowLeft}"
            f" lc={'T' if ch.localClosed else 'F'} rc={'T' if ch.remoteClosed else 'F'}")


# --------------------------------------------------------------------------------------
# the property, evaluated on the implementation's log with independent bookkeeping


def oracle(case, obs):
    f = _oracle(case, obs)
    if f is not None and f.tag == "close-not-sent" and any(h[0] == "l" for h in case.get("stop_hook") or []) \
            and not any(h[0] in "wx" for h in case["stop_hook"]):
        f.reason = "[loseConnection() called from stopWriting()] " + f.reason
        f.tag = "close-request-lost-during-extbuf-flush"
    elif f is not None and f.tag == "ext-stream-order" and any(h[0] == "x" for h in case.get("stop_hook") or []) \
            and "adj" in f.reason.split("->")[0]:
        # writeExtended() from the stopWriting() that fires while addWindowBytes re-writes detached extBuf entries
        f.reason = "[writeExtended() from stopWriting() during the extBuf flush] " + f.reason
        f.tag = "reentrant-writeExtended-during-extbuf-flush"
    return f


def _strip_hook_calls(obs):
    """the hw/hx/hl markers are the harness's own calls, not part of the model's observation"""
    head, _, tail = obs.partition(" |")
    ops = []
    for tok in head.split(" "):
        evs = [e for e in tok.split(",") if not e.startswith("h")]
        ops.append(",".join(evs) if evs else ".")
    return " ".join(ops) + " |" + tail


def _oracle(case, obs):
    ops = case["ops"]
    head = obs.split(" |")[0]
    per = head.split(" ") if ops else []
    if len(per) != len(ops):
        return Failure(case, "malformed log", "log")
    rmp, lmp, lw = case["rmp"], case["lmp"], case["lw"]
    pw = case["rw"]                 # the peer's remaining window as the peer computes it
    aw = lw                         # our advertised window as the peer computes it
    wr, sent = bytearray(), bytearray()      # normal data written / sent
    xwr, xsent = [], []                      # (type, byte) written / sent
    closed = False                  # CLOSE sent
    want_close = False              # loseConnection() called or CLOSE received
    rclosed = False
    zs = 0
    for k, (op, evs) in enumerate(zip(ops, per)):
        where = f"op {k} {op} -> {evs}: "
        es = [] if evs == "." else evs.split(",")
        if "K" in es:
            if not (closed and rclosed):
                return Failure(case, where + "the connection forgot a channel that is not closed in both directions",
                               "channel-forgotten")
            continue
        kind = op[0]
        refused_expected = False
        if kind == "w" and not closed:
            wr += bytes.fromhex(op[1])
        elif kind == "x" and not closed:
            xwr += [(op[1], b) for b in bytes.fromhex(op[2])]
        elif kind == "adj":
            pw += op[1]
        elif kind in ("lose", "rclose"):
            want_close = True
            if kind == "rclose":
                rclosed = True
        got = None
        if kind in ("rd", "rx"):
            n = len(bytes.fromhex(op[-1]))
            got = ("r" + op[1]) if kind == "rd" else (f"e{op[1]}:" + op[2])
            refused_expected = n > aw or n > lmp
        for e in es:
            c = e[0]
            if e.startswith("BAD") or e.startswith("P") or e == "UNIMPL":
                return Failure(case, where + "malformed or unexpected packet", "bad-packet")
            if c in "DX":
                if closed:
                    return Failure(case, where + "data sent after CLOSE", "data-after-close")
                d = bytes.fromhex(e[1:] if c == "D" else e.split(":", 1)[1])
                if len(d) == 0:
                    return Failure(case, where + "empty data packet", "empty-data-packet")
                if len(d) > rmp:
                    return Failure(case, where + f"{len(d)}-byte packet exceeds remote max packet {rmp}",
                                   "data-exceeds-maxpacket")
                if len(d) > pw:
                    return Failure(case, where + f"{len(d)}-byte packet exceeds the peer's remaining window {pw}",
                                   "data-exceeds-window")
                pw -= len(d)
                if c == "D":
                    sent += d
                    if not wr.startswith(sent):
                        return Failure(case, where + "normal data not the next bytes written", "data-stream-order")
                else:
                    t = int(e[1:].split(":", 1)[0])
                    xsent += [(t, b) for b in d]
                    if xwr[:len(xsent)] != xsent:
                        return Failure(case, where + "extended data not the next (type, byte)s written",
                                       "ext-stream-order")
            elif c == "C":
                if closed:
                    return Failure(case, where + "CLOSE sent twice", "close-twice")
                closed = True
                if refused_expected:
                    continue
                if not want_close:
                    if kind in ("rd", "rx"):
                        return Failure(case, where + f"peer respected the advertised window {aw} and max packet {lmp} but "
                                       "was answered with CLOSE", "compliant-peer-refused")
                    return Failure(case, where + "CLOSE sent although nobody asked for it", "close-unrequested")
                if bytes(sent) != bytes(wr):
                    return Failure(case, where + f"CLOSE sent with {len(wr) - len(sent)} byte(s) of normal data "
                                   "written but never sent", "close-before-buf-flushed")
                if xsent != xwr:
                    return Failure(case, where + f"CLOSE sent with {len(xwr) - len(xsent)} byte(s) of extended data "
                                   "written but never sent", "close-before-extbuf-flushed")
            elif c == "A":
                aw += int(e[1:])
            elif c in "re":
                if e != got:
                    return Failure(case, where + "delivered something that was not received", "deliver-wrong")
                if refused_expected:
                    return Failure(case, where + "data beyond the advertised window / max packet was delivered",
                                   "overflow-accepted")
                aw -= len(bytes.fromhex(op[-1]))
                got = None
            elif c == "z":
                zs += 1
                if zs > 1 or not (closed and rclosed):
                    return Failure(case, where + "closed() called twice or before both directions closed",
                                   "closed-callback")
            elif c in "+-":
                pass
            elif c == "h":
                # a call made by the application from inside a hook, at this very point
                if e[1] == "l":
                    want_close = True
                elif not closed:
                    if e[1] == "w":
                        wr += bytes.fromhex(e[2:])
                    else:
                        t, d = e[2:].split(":", 1)
                        xwr += [(int(t), b) for b in bytes.fromhex(d)]
            else:
                return Failure(case, where + "unknown event", "log")
        if kind in ("rd", "rx"):
            if refused_expected:
                if not closed:
                    return Failure(case, where + "peer overran the window and the channel was not closed",
                                   "overflow-not-closed")
            elif got is not None:
                return Failure(case, where + f"peer respected window {aw} and max packet {lmp} but its data was "
                               "refused", "compliant-peer-refused")
            elif not closed and aw <= 0:
                return Failure(case, where + "advertised window is 0 after an accepted packet and no WINDOW_ADJUST "
                               "was sent: a compliant peer can never send again",
                               "recv-window-1-never-replenished" if lw == 1 else "recv-window-stuck")
        if not closed:
            pending = (len(wr) - len(sent)) + (len(xwr) - len(xsent))
            if pending > 0 and pw > 0:
                return Failure(case, where + f"{pending} byte(s) still buffered although the peer's window has {pw} "
                               "left", "stalled-with-window")
            if pending == 0 and want_close:
                return Failure(case, where + "close requested, nothing buffered, but CLOSE not sent", "close-not-sent")
        if closed and rclosed and zs == 0:
            return Failure(case, where + "both directions closed but closed() not called", "closed-callback-missing")
    return None


# --------------------------------------------------------------------------------------
# generator


class _Bytes:
    """distinct, increasing byte values per stream so that reordering / loss is visible"""

    def __init__(self):
        self.k = 0

    def take(self, n):
        out = bytes((self.k + i) % 251 for i in range(n))
        self.k += n
        return out.hex()


def _history(rng, n, sizes, adj_sizes, weights):
    ops = []
    b = _Bytes()
    kinds = ["w", "x", "lose", "adj", "rd", "rx", "rclose", "aadj"]
    for _ in range(n):
        k = rng.choices(kinds, weights)[0]
        if k == "w":
            ops.append(["w", b.take(rng.choice(sizes))])
        elif k == "x":
            ops.append(["x", rng.choice([1, 1, 2, 3]), b.take(rng.choice(sizes))])
        elif k == "adj":
            ops.append(["adj", rng.choice(adj_sizes)])
        elif k == "rd":
            ops.append(["rd", b.take(rng.choice(sizes))])
        elif k == "rx":
            ops.append(["rx", rng.choice([1, 2]), b.take(rng.choice(sizes))])
        elif k == "aadj":
            ops.append(["aadj", rng.choice(adj_sizes)])
        else:
            ops.append([k])
    return ops


def _hook_script(rng, sizes, base):
    """what a hook writes synchronously; byte values 251..255 are not used by the histories themselves"""
    out = []
    for _ in range(rng.choice([1, 1, 2, 3])):
        n = max(1, rng.choice(sizes))
        d = bytes([base + (i % 2) for i in range(n)]).hex()
        out.append(["w", d] if rng.random() < 0.6 else ["x", rng.choice([1, 2]), d])
    if rng.random() < 0.2:
        out.append(["l"] if rng.random() < 0.4 else ["l", rng.choice([1, 2, 2, 3])])      # always the last element
    return out


def gen(rng, tier):
    cases = []
    quick = tier == "quick"
    # (a) bounded-exhaustive: every history up to depth d over a small alphabet, tiny limits
    alpha = [("w", 1), ("w", 3), ("x1", 2), ("x2", 1), ("lose",), ("adj", 1), ("adj", 4), ("rd", 1), ("rd", 2),
             ("rx", 1), ("rclose",), ("aadj", 3)]
    depth = 3 if quick else 4
    cfgs = [(0, 1, 1, 1), (1, 2, 2, 1), (2, 1, 3, 2), (3, 2, 4, 3)] if quick else \
        [(rw, rmp, lw, lmp) for rw in (0, 1, 3) for rmp in (1, 2) for lw in (1, 2, 4) for lmp in (1, 3)]
    for rw, rmp, lw, lmp in cfgs:
        for n in range(1, depth + 1):
            for word in itertools.product(alpha, repeat=n):
                if n == depth and rng.random() > (0.5 if quick else 0.15):
                    continue
                b = _Bytes()
                ops = []
                for a in word:
                    if a[0] == "w":
                        ops.append(["w", b.take(a[1])])
                    elif a[0] in ("x1", "x2"):
                        ops.append(["x", int(a[0][1]), b.take(a[1])])
                    elif a[0] in ("adj", "aadj"):
                        ops.append([a[0], a[1]])
                    elif a[0] == "rd":
                        ops.append(["rd", b.take(a[1])])
                    elif a[0] == "rx":
                        ops.append(["rx", 1, b.take(a[1])])
                    else:
                        ops.append([a[0]])
                case = {"rw": rw, "rmp": rmp, "lw": lw, "lmp": lmp, "ops": ops}
                if any(o[0] in ("rd", "rx") for o in ops) and rng.random() < 0.3:
                    case["recv_adjust"] = rng.choice([1, 3, 8])
                if any(o[0] == "adj" for o in ops) and rng.random() < 0.4:
                    case["start_hook"] = rng.choice([[["w", "fbfc"]], [["x", 1, "fb"]], [["w", "fb"], ["x", 2, "fcfb"], ["w", "fc"]]])
                cases.append(case)
    # (b) random histories, limits from 1 byte up, several op mixes
    mixes = {
        "send": [5, 4, 1, 5, 1, 1, 0.5, 0.3],
        "close": [3, 5, 3, 5, 0.5, 0.5, 1.5, 0.3],
        "recv": [1, 1, 0.5, 1, 6, 4, 0.5, 2.5],
        "all": [3, 3, 1, 3, 3, 2, 1, 1],
    }
    nrand = 1500 if quick else 40000
    for i in range(nrand):
        mix = list(mixes)[i % len(mixes)]
        small = rng.random() < 0.7
        rw = rng.choice([0, 1, 2, 3, 5, 8] if small else [0, 7, 16, 40, 200])
        rmp = rng.choice([1, 2, 3, 4] if small else [1, 5, 16, 64])
        lw = rng.choice([1, 2, 3, 4, 6] if small else [5, 9, 16, 33, 100])
        lmp = rng.choice([1, 2, 3, 5] if small else [1, 4, 16, 50])
        sizes = [0, 1, 1, 2, 3, 4, 7] if small else [0, 1, 3, 8, 15, 17, 33]
        adjs = [0, 1, 1, 2, 3, 5, 9] if small else [0, 1, 4, 16, 37, 100]
        ops = _history(rng, rng.randrange(2, 14 if quick else 30), sizes, adjs, mixes[mix])
        if rng.random() < 0.5:
            ops.append(["adj", BIG])       # drain: everything still buffered must come out, in order
        case = {"rw": rw, "rmp": rmp, "lw": lw, "lmp": lmp, "ops": ops}
        if rng.random() < (0.5 if mix == "recv" else 0.15):
            case["recv_adjust"] = rng.choice(adjs)
        r = rng.random()
        if r < 0.35:
            case["start_hook"] = _hook_script(rng, sizes, 251)
        elif r < 0.53:
            case["stop_hook"] = [["l", rng.choice([1, 2, 2, 3, 4])]] if rng.random() < 0.7 else [["l"]]
        elif r < 0.63:
            case["stop_hook"] = _hook_script(rng, sizes, 253)
            if rng.random() < 0.5:
                case["start_hook"] = _hook_script(rng, sizes, 251)
        cases.append(case)
    # (c) wide windows (32-bit sizes must not be unary numbers anywhere)
    for _ in range(20 if quick else 400):
        ops = _history(rng, rng.randrange(2, 12), [0, 1, 5, 30], [0, 1, 2 ** 31, 2 ** 32 - 1], mixes["all"])
        cases.append({"rw": rng.choice([0, 2 ** 32 - 1, 2 ** 21]), "rmp": rng.choice([1, 32768, 2 ** 32 - 1]),
                      "lw": rng.choice([131072, 2 ** 32 - 1]), "lmp": rng.choice([3, 32768]), "ops": ops})
    return cases


def corpus():
    h = lambda s: s.encode().hex()
    return [
        # close requested with two extBuf entries of different types: CLOSE must follow BOTH
        {"rw": 0, "rmp": 5, "lw": 4, "lmp": 4,
         "ops": [["x", 1, h("abc")], ["x", 2, h("def")], ["lose"], ["adj", 100]]},
        # ... same with the window running out in the middle of the second entry
        {"rw": 0, "rmp": 2, "lw": 4, "lmp": 4,
         "ops": [["x", 1, h("abc")], ["x", 2, h("def")], ["x", 1, h("g")], ["lose"], ["adj", 4], ["adj", 1], ["adj", 9]]},
        # buf and extBuf both pending at close; window arrives byte by byte
        {"rw": 1, "rmp": 1, "lw": 2, "lmp": 2,
         "ops": [["w", h("abcd")], ["x", 1, h("ef")], ["w", h("gh")], ["lose"], ["adj", 1], ["adj", 1], ["adj", 2],
                 ["adj", 1], ["adj", 1], ["adj", 1], ["adj", 5]]},
        # peer closes while data is buffered; closed() only after our CLOSE
        {"rw": 0, "rmp": 3, "lw": 4, "lmp": 4, "ops": [["w", h("abcd")], ["rclose"], ["adj", 3], ["rd", h("x")], ["adj", 3],
                                                       ["rd", h("x")]]},
        # receiver: packets at the window / max-packet limits, then one byte over
        {"rw": 0, "rmp": 1, "lw": 4, "lmp": 3, "ops": [["rd", h("abc")], ["rd", h("d")], ["rd", h("efg")], ["rd", h("hijk")]]},
        {"rw": 0, "rmp": 1, "lw": 6, "lmp": 6, "ops": [["rd", h("ab")], ["rd", h("c")], ["rd", h("defgh")], ["rx", 1, h("ijklmn")],
                                                       ["rd", h("opqrstu")]]},
        # the application grants extra window beyond localWindowSize; the peer uses all of what was advertised
        {"rw": 0, "rmp": 1, "lw": 8, "lmp": 8, "ops": [["aadj", 8], ["rd", h("abc")], ["rd", h("defghijk")], ["rd", h("lmnop")]]},
        {"rw": 0, "rmp": 1, "lw": 4, "lmp": 9, "ops": [["aadj", 5], ["rd", h("abcdefghi")], ["aadj", 0], ["rx", 1, h("jklm")]]},
        # re-entrant startWriting(): backlog "bcd" buffered, WINDOW_ADJUST wakes the producer which writes at once
        {"rw": 1, "rmp": 4, "lw": 8, "lmp": 8, "start_hook": [["w", "fbfc"], ["x", 1, "fb"]],
         "ops": [["w", h("abcd")], ["adj", 2], ["adj", 1], ["adj", 9]]},
        {"rw": 0, "rmp": 2, "lw": 8, "lmp": 8, "start_hook": [["x", 1, "fbfc"], ["w", "fb"]],
         "ops": [["x", 1, h("abc")], ["w", h("de")], ["adj", 1], ["adj", 3], ["lose"], ["adj", 9]]},
        # the application re-opens the window from inside dataReceived(); max packet larger than half the window
        {"rw": 0, "rmp": 1, "lw": 8, "lmp": 8, "recv_adjust": 8,
         "ops": [["rd", h("abc")], ["rd", h("defghijk")], ["rd", h("lmnopqrs")], ["rx", 1, h("tuvwxyz0")]]},
        {"rw": 0, "rmp": 1, "lw": 4, "lmp": 4, "recv_adjust": 1,
         "ops": [["rd", h("a")], ["rd", h("bcde")], ["rd", h("fghi")], ["rd", h("jk")], ["rd", h("lmno")]]},
        # loseConnection() from the stopWriting() that fires WHILE addWindowBytes re-writes the extBuf entries
        {"rw": 0, "rmp": 4, "lw": 8, "lmp": 8, "stop_hook": [["l", 2]],
         "ops": [["x", 1, h("abcdef")], ["adj", 2], ["adj", 20]]},
        {"rw": 1, "rmp": 2, "lw": 8, "lmp": 8, "stop_hook": [["l", 3]],
         "ops": [["x", 1, h("abc")], ["x", 2, h("de")], ["adj", 1], ["adj", 1], ["w", h("f")], ["adj", 20]]},
        {"rw": 0, "rmp": 4, "lw": 8, "lmp": 8, "start_hook": [["w", "fb"], ["l"]], "ops": [["w", h("abc")], ["adj", 9]]},
        # writing from inside stopWriting(): the window must already be charged when the hook runs
        {"rw": 4, "rmp": 10, "lw": 8, "lmp": 8, "stop_hook": [["x", 1, "fdfe"]], "ops": [["w", h("abcdefgh")], ["adj", 20]]},
        {"rw": 4, "rmp": 10, "lw": 8, "lmp": 8, "stop_hook": [["w", "fdfe"]], "ops": [["x", 1, h("abcdefgh")], ["adj", 20]]},
        # 1-byte local window
        {"rw": 0, "rmp": 1, "lw": 1, "lmp": 1, "ops": [["rd", h("a")], ["rd", h("b")]]},
    ]


# --------------------------------------------------------------------------------------
# model side


def _hx(s):
    return coq_bytes(bytes.fromhex(s))


def _op(o):
    k = o[0]
    if k == "w":
        return f"Write {_hx(o[1])}"
    if k == "x":
        return f"WriteExt {o[1]}%N {_hx(o[2])}"
    if k == "lose":
        return "Lose"
    if k == "adj":
        return f"RAdjust {o[1]}%N"
    if k == "rd":
        return f"RData {_hx(o[1])}"
    if k == "rx":
        return f"RExt {o[1]}%N {_hx(o[2])}"
    if k == "aadj":
        return f"AppAdjust {o[1]}%N"
    return "RClose"


def to_coq(case):
    if case["rmp"] < 1 or case["lw"] < 1 or case["lmp"] < 1 or case.get("stop_hook") \
            or any(h[0] == "l" for h in case.get("start_hook") or []):
        return None         # stopWriting() hooks and loseConnection() from hooks: oracle only (not in the Coq model)
    hook = coq_list([f"HWrite {_hx(h[1])}" if h[0] == "w" else f"HWriteExt {h[1]}%N {_hx(h[2])}"
                     for h in case.get("start_hook") or []], "hop")
    radj = "(@None N)" if case.get("recv_adjust") is None else f"(Some {case['recv_adjust']}%N)"
    return (f"(true, {hook}, {radj}, ({case['rw']}%N, {case['rmp']}%N, {case['lw']}%N, {case['lmp']}%N), "
            f"{coq_list(map(_op, case['ops']), 'op')})")


def shrink(case):
    ops = case["ops"]
    for i in range(len(ops)):
        yield {**case, "ops": ops[:i] + ops[i + 1:]}
    for i, o in enumerate(ops):
        if o[0] in ("w", "rd") and len(o[1]) > 2:
            yield {**case, "ops": ops[:i] + [[o[0], o[1][:-2]]] + ops[i + 1:]}
        if o[0] in ("x", "rx") and len(o[2]) > 2:
            yield {**case, "ops": ops[:i] + [[o[0], o[1], o[2][:-2]]] + ops[i + 1:]}
        if o[0] in ("adj", "aadj") and o[1] > 1:
            yield {**case, "ops": ops[:i] + [[o[0], o[1] // 2]] + ops[i + 1:]}
    for hk in ("start_hook", "stop_hook"):
        if case.get(hk) and len(case[hk]) > 1:
            for i in range(len(case[hk])):
                yield {**case, hk: case[hk][:i] + case[hk][i + 1:]}
    for key in ("rw",):
        if case[key] > 0:
            yield {**case, key: case[key] - 1}


def histogram(case, obs):
    head = obs.split(" |")[0]
    f = []
    if "D" in head or "X" in head:
        f.append("sent")
    if "C" in head:
        f.append("close")
    if "r" in head or "e" in head:
        f.append("recv")
    if "A" in head:
        f.append("adjust")
    if "z" in head:
        f.append("closed-both")
    if case.get("start_hook") and "+" in head:
        f.append("start-hook")
    if case.get("stop_hook") and "-" in head:
        f.append("stop-hook")
    return "+".join(f) or "quiet"


SPEC = Spec(
    pid="C36",
    gen=gen, impl=impl, oracle=oracle, corpus=corpus, shrink=shrink,
    coq_header="From C36 Require Import Model Run.",
    coq_fn="run_show",
    to_coq=to_coq,
    model_equal=lambda c, a, b: _strip_hook_calls(a) == b,
    nontrivial=lambda c, o: any(t in o.split(" |")[0] for t in ("D", "X", "C", "A")),
    histogram=histogram,
    rule="every history up to depth 3 (quick; deepest level sampled 50%) / 4 (thorough, 15%) over a 12-letter alphabet "
         "{write 1/3 bytes, writeExtended type 1/2, loseConnection, WINDOW_ADJUST 1/4, CHANNEL_DATA 1/2, EXTENDED_DATA, "
         "CLOSE, application adjustWindow(3)} for 4 (thorough 36) tiny window/packet configurations; random histories of 2-13 (thorough 2-29) ops in four "
         "op mixes with remote window 0-200, max packets 1-64, local window 1-100, half ending with a draining "
         "WINDOW_ADJUST; 32-bit window sizes; non-trivial = at least one data/ext/close/adjust packet sent; "
         "35% of the random and 40% of the exhaustive histories with a WINDOW_ADJUST run on a channel whose startWriting() "
         "hook writes 1-3 chunks of normal/extended data synchronously, 10% on one whose stopWriting() hook does (oracle only); "
         "in half of the receive-heavy and 15% of the other random histories (30% of the exhaustive ones that receive) the "
         "application calls conn.adjustWindow(n) from inside dataReceived/extReceived; distinct by (case, observation)",
    trusted=["hand-written model coq/C36/Model.v (tied by this correspondence run only)",
             "fake transport records sendPacket; the harness plays the peer by calling SSHConnection.packetReceived with "
             "well-formed payloads (declared string length = actual length)",
             "Chan subclass callbacks only record: re-entrant use of the channel from dataReceived/closed/startWriting/"
             "stopWriting is not modelled",
             "N (truncated) subtraction in the model; lemmas write_sub_exact-style bounds show no subtraction truncates"],
    assumptions=["remoteMaxPacket >= 1 (with 0 write() raises ValueError and writeExtended() never terminates; outside "
                 "the property's quantifier, reported in design.d/C36.md)",
                 "one channel per connection; channel ids do not influence flow control",
                 "WINDOW_ADJUST amounts are uint32 (non-negative)"],
)
