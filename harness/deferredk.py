"""Shared driver for the Deferred kernel properties (C01, C02, C03): runs a *program* (a list of
operations over a few Deferreds with defunctionalised callbacks) on real twisted Deferreds and prints the
canonical observation that coq/Lib/DeferredKShow.v prints for the model.

program = {"canc": [canceller, ...],            one per Deferred: ["none"] | ["nothing"] | ["cb", z] | ["eb", e] | ["raise", e]
           "ops":  [op, ...]}
op      = ["add", d, cb, eb] | ["cb", d, z] | ["eb", d, e] | ["pause", d] | ["unpause", d] | ["cancel", d]
          ["chain", d1, d2]   d1.chainDeferred(d2)          (evaluated on the re-entrant kernel: RChain)
          ["dbg", 999, flag]  defer.setDebugging(flag)      (no Deferred involved; the models ignore it: a no-op)
          ["eb", d, e, form]: how the failure is handed to errback (same meaning, model ignores it):
          "exc" (default) errback(E()) | "failure" errback(Failure(E())) | "bare" argument-less errback() inside the
          except block of a raised E | "none" errback(None) inside such a block
cb, eb  = None | beh | ["script", [sop, ...], beh]      a script runs kernel operations INSIDE the callback, then behaves as beh
beh     = ["ret", value] | ["raise", e] | ["pass"]
sop     = ["add", d, beh|None, beh|None] | ["cb", d, z] | ["eb", d, e] | ["pause", d] | ["unpause", d] | ["cancel", d]
value   = ["N"] | ["I", z] | ["F", e] | ["D", i]

Observation (all API-level: callback arguments, exceptions by class, the public attributes called / result /
paused / callbacks):
    <op events> <op events> ... | <final state of every Deferred>
  op events : comma-joined  Rd.k(arg)  user callback of add-operation k on Deferred d ran with arg
                            !e         exception class e raised by a callback ESCAPED from the driving call
                            Fd         Deferred d accepted a result during this operation
                            A / S      AlreadyCalledError raised / late result silently swallowed
                            Kd         canceller of d invoked;  Xe  it raised E_e out of cancel();  RE RecursionError
              or "-" when nothing happened
  Deferred  : called:result:paused:[ids of pending user callbacks]
"""
from __future__ import annotations

import warnings

from harness.common import coq_list

_EXC: dict = {}


# exception class numbers: 0..99 ordinary Exception subclasses; 100.. = BaseExceptions that are NOT Exceptions
# (a callback raising any of them must still turn into a Failure result for the next errback)
BASE_CLASSES = [100, 101, 102, 103, 104]


def exc_class(n: int):
    if n not in _EXC:
        if n == 100:
            _EXC[n] = GeneratorExit
        elif n == 101:
            import asyncio

            _EXC[n] = asyncio.CancelledError
        elif n == 102:
            _EXC[n] = SystemExit
        elif n == 103:
            _EXC[n] = KeyboardInterrupt
        elif n >= 104:
            _EXC[n] = type(f"E{n}", (BaseException,), {})
        else:
            _EXC[n] = type(f"E{n}", (Exception,), {})
    return _EXC[n]


def exc_number(cls):
    for n, c in _EXC.items():
        if c is cls:
            return n
    return None


def show_value(v, index) -> str:
    from twisted.internet import defer
    from twisted.python.failure import Failure

    if v is None:
        return "N"
    if isinstance(v, Failure):
        if v.type is defer.CancelledError:
            return "EC"
        if v.type is defer.AlreadyCalledError:
            return "EA"
        if v.type is RecursionError:
            return "ER"
        for n, cls in _EXC.items():
            if v.type is cls:
                return f"E{n}"
        raise RuntimeError(f"unexpected failure {v.type!r}")
    if isinstance(v, defer.Deferred):
        return "D%d" % index[id(v)]
    if isinstance(v, int):
        return str(v)
    raise RuntimeError(f"unexpected value {v!r}")


_SUB = {}


def sub_deferred_class():
    """a trivial Deferred subclass (class SubDeferred(Deferred): pass): behaviour must not depend on the exact type"""
    from twisted.internet import defer

    if "cls" not in _SUB:
        _SUB["cls"] = type("SubDeferred", (defer.Deferred,), {})
    return _SUB["cls"]


def rand_cls(rng, nd, p=0.5):
    """per-Deferred class choice for a case: 0 = Deferred, 1 = trivial subclass"""
    mode = rng.random()
    if mode < 0.35:
        return [1] * nd
    return [1 if rng.random() < p else 0 for _ in range(nd)]


EB_FORMS = ["exc", "failure", "bare", "none"]


def do_errback(d, e, form="exc"):
    """d.errback(...) with exception class e, in one of the call forms the API offers"""
    from twisted.python.failure import Failure

    if form == "exc":
        d.errback(exc_class(e)())
    elif form == "failure":
        d.errback(Failure(exc_class(e)()))
    else:
        try:
            raise exc_class(e)()
        except BaseException:
            if form == "bare":
                d.errback()
            else:
                d.errback(None)


def eb_form(o):
    return o[3] if len(o) > 3 else "exc"


def vary_errbacks(case, rng):
    """the same program with every errback operation (top level and in scripts) in a random call form"""
    def sop(x):
        return [x[0], x[1], x[2], rng.choice(EB_FORMS)] if x[0] == "eb" else x

    def beh(b):
        if b is not None and b[0] == "script":
            return ["script", [sop(x) for x in b[1]], b[2]]
        return b

    ops = []
    for o in case["ops"]:
        if o[0] == "eb":
            ops.append([o[0], o[1], o[2], rng.choice(EB_FORMS[1:])])
        elif o[0] == "add":
            ops.append(["add", o[1], beh(o[2]), beh(o[3])])
        else:
            ops.append(o)
    return {**case, "ops": ops}


def has_errback(case) -> bool:
    def in_beh(b):
        return b is not None and b[0] == "script" and any(x[0] == "eb" for x in b[1])
    return any(o[0] == "eb" or (o[0] == "add" and (in_beh(o[2]) or in_beh(o[3]))) for o in case["ops"])


def with_errback_forms(cases, rng, fraction):
    """a sample of the cases that contain an errback once more with other call forms (bare errback() inside an except
    block, errback(None), errback(Failure))"""
    return [vary_errbacks(c, rng) for c in cases if has_errback(c) and rng.random() < fraction]


class Runner:
    """Executes a program on real Deferreds, recording the observation."""

    def __init__(self, canc, cls=None):
        from twisted.internet import defer

        self.defer = defer
        self.events: list[str] = []      # events of the operation in progress
        self.ds = []
        self.funcs: dict = {}            # id(function) -> add-operation number
        self.nadd = 0
        for i, c in enumerate(canc):
            klass = sub_deferred_class() if (cls and i < len(cls) and cls[i]) else defer.Deferred
            self.ds.append(klass(self._canceller(i, c)))
        self.index = {id(d): i for i, d in enumerate(self.ds)}
        self.keep = []                   # keep Failures alive: no GC-time logging during a case
        self.in_canceller = None
        self.f_logged = set()            # Deferreds whose firing has been put into the event list

    def _canceller(self, i, c):
        if c[0] == "none":
            return None

        def canceller(d):
            self.events.append(f"K{i}")
            if c[0] == "cb":
                d.callback(c[1])
            elif c[0] == "eb":
                d.errback(exc_class(c[1])())
            elif c[0] == "raise":
                self.in_canceller = exc_class(c[1])
                raise exc_class(c[1])()
        return canceller

    def _make_value(self, v):
        from twisted.python.failure import Failure

        if v[0] == "N":
            return None
        if v[0] == "I":
            return v[1]
        if v[0] == "F":
            return Failure(exc_class(v[1])())
        return self.ds[v[1]]

    def _behave(self, beh, arg):
        if beh[0] == "ret":
            return self._make_value(beh[1])
        if beh[0] == "raise":
            raise exc_class(beh[1])()
        return arg

    def _fn(self, d, k, beh):
        def f(arg):
            self.events.append(f"R{d}.{k}({show_value(arg, self.index)})")
            if beh[0] == "script":
                for sop in beh[1]:
                    self._sop(sop)           # exceptions (AlreadyCalledError, a canceller's) leave the callback
                return self._behave(beh[2], arg)
            return self._behave(beh, arg)
        self.funcs[id(f)] = k
        self.keep.append(f)
        return f

    def _add(self, di, cb, eb):
        defer = self.defer
        d = self.ds[di]
        k = self.nadd
        self.nadd += 1
        if cb is not None and cb == eb:
            d.addBoth(self._fn(di, k, cb))
        elif cb is not None and eb is not None:
            d.addCallbacks(self._fn(di, k, cb), self._fn(di, k, eb))
        elif cb is not None:
            d.addCallback(self._fn(di, k, cb))
        elif eb is not None:
            d.addErrback(self._fn(di, k, eb))
        else:
            d.addCallbacks(defer.passthru)

    def _chain(self, d1, d2):
        """ds[d1].chainDeferred(ds[d2]) — the real method.  It adds (d2.callback, d2.errback) as a callback pair; so that
        the moment d2 fires is observed like every other firing, the pair it picks up are instance-level wrappers of
        d2's own methods (fresh ones per call, registered under this add-operation's number)."""
        target = self.ds[d2]
        k = self.nadd
        self.nadd += 1
        klass = type(target)

        def callback(result):
            return self._fire_wrap(lambda: klass.callback(target, result))

        def errback(fail=None):
            return self._fire_wrap(lambda: klass.errback(target, fail))

        target.callback, target.errback = callback, errback
        self.funcs[id(callback)] = k
        self.funcs[id(errback)] = k
        self.keep += [callback, errback]
        self.ds[d1].chainDeferred(target)

    def _fire_wrap(self, fn):
        """run fn; put the token Fi of the Deferred it fired (if any) where the firing happened: at the position the
        events had when fn started, or right after the Ki of its own canceller.  Firings nested deeper (scripts of
        the callbacks that ran) have been placed by their own wrappers."""
        before = [d.called for d in self.ds]
        pos = len(self.events)
        try:
            return fn()
        finally:
            for i, d in enumerate(self.ds):
                if d.called and not before[i] and i not in self.f_logged:
                    at = pos + 1 if (len(self.events) > pos and self.events[pos] == f"K{i}") else pos
                    self.events.insert(at, f"F{i}")
                    self.f_logged.add(i)

    def _sop(self, o):
        """one kernel operation from inside a callback"""
        kind, di = o[0], o[1]
        if di >= len(self.ds):
            return
        d = self.ds[di]
        if kind == "add":
            self._fire_wrap(lambda: self._add(di, o[2], o[3]))
        elif kind == "cb":
            self._fire_wrap(lambda: d.callback(o[2]))
        elif kind == "eb":
            self._fire_wrap(lambda: do_errback(d, o[2], eb_form(o)))
        elif kind == "pause":
            d.pause()
        elif kind == "unpause":
            self._fire_wrap(d.unpause)
        elif kind == "cancel":
            self._fire_wrap(d.cancel)
        else:
            raise ValueError(kind)

    def _drive(self, kind, d, di, o, before):
        defer = self.defer
        tail = None
        if kind == "add":
            self._add(di, o[2], o[3])
        elif kind in ("cb", "eb"):
            try:
                if kind == "cb":
                    d.callback(o[2])
                else:
                    do_errback(d, o[2], eb_form(o))
            except defer.AlreadyCalledError:
                tail = "A"
            else:
                if before[di]:
                    tail = "S"
        elif kind == "chain":
            self._chain(di, o[2])
        elif kind == "pause":
            d.pause()
        elif kind == "unpause":
            d.unpause()
        elif kind == "cancel":
            self.in_canceller = None
            try:
                d.cancel()
            except RecursionError:
                tail = "RE"
            except Exception as e:
                if self.in_canceller is not None and type(e) is self.in_canceller:
                    tail = "X" + str(exc_number(type(e)))
                else:
                    raise
        else:
            raise ValueError(kind)
        return tail

    def op(self, o) -> str:
        defer = self.defer
        self.events = []
        before = [d.called for d in self.ds]
        kind, di = o[0], o[1]
        if kind == "dbg":
            defer.setDebugging(bool(o[2]))       # restored by run_program at the end of the case
            return "-"
        if di >= len(self.ds) or (kind == "chain" and o[2] >= len(self.ds)):
            return "-"
        d = self.ds[di]
        tail = None
        try:
            tail = self._fire_wrap(lambda: self._drive(kind, d, di, o, before))
        except RecursionError:
            tail = "RE"
        except BaseException as e:  # noqa: B036 - the point is to see what escapes
            n = exc_number(type(e))
            if n is None:
                raise
            tail = f"!{n}"
        evs = list(self.events)
        if tail:
            evs.append(tail)
        return ",".join(evs) if evs else "-"

    def op_light(self, o) -> None:
        """execute one operation without observing it (long chains: no per-operation scan of all Deferreds)"""
        defer = self.defer
        self.events = []
        kind, d = o[0], self.ds[o[1]]
        if kind == "add":
            k = self.nadd
            self.nadd += 1
            cb, eb = o[2], o[3]
            if cb is not None and eb is not None:
                d.addCallbacks(self._fn(o[1], k, cb), self._fn(o[1], k, eb))
            elif cb is not None:
                d.addCallback(self._fn(o[1], k, cb))
            else:
                d.addErrback(self._fn(o[1], k, eb))
        elif kind == "cb":
            d.callback(o[2])
        elif kind == "eb":
            do_errback(d, o[2], eb_form(o))
        elif kind == "pause":
            d.pause()
        elif kind == "unpause":
            d.unpause()
        else:
            raise ValueError(kind)

    def final(self) -> str:
        out = []
        for d in self.ds:
            if hasattr(d, "result"):
                r = show_value(d.result, self.index)
            else:
                r = "-"
            pend = []
            for item in d.callbacks:
                k = None
                for side in item:
                    k = self.funcs.get(id(side[0]), k)
                if k is not None:
                    pend.append(k)
            out.append(f"{'T' if d.called else 'F'}:{r}:{d.paused}:[{','.join(map(str, pend))}]")
        return " ".join(out)


_QUIET = False


def quiet_logging() -> None:
    """Failures left in Deferreds are reported by twisted at garbage collection; send them to a null observer."""
    global _QUIET
    if not _QUIET:
        from twisted.logger import globalLogBeginner

        globalLogBeginner.beginLoggingTo([lambda event: None], redirectStandardIO=False, discardBuffer=True)
        _QUIET = True


def run_program(case) -> str:
    """case["debug"] (optional): run with Deferred debugging switched on (defer.setDebugging(True), what trial --debug
    does); the observation must not depend on it (debugging adds text to messages, not behaviour)"""
    quiet_logging()
    from twisted.internet import defer

    old = defer.getDebugging()
    if case.get("debug"):
        defer.setDebugging(True)
    try:
        with warnings.catch_warnings():
            warnings.simplefilter("ignore")
            r = Runner(case["canc"], case.get("cls"))       # case["cls"]: which Deferreds are subclass instances
            evs = [r.op(o) for o in case["ops"]]
            obs = " ".join(evs) + " | " + r.final()
            # consume failures so that nothing is reported at garbage collection
            for d in r.ds:
                if d.called and not d.paused and not isinstance(getattr(d, "result", None), r.defer.Deferred):
                    try:
                        d.addErrback(lambda f: None)
                    except BaseException:  # noqa: B036 - stranded callbacks of a broken tree may run (and raise) here
                        pass
            return obs
    finally:
        defer.setDebugging(old)


def with_debug_flips(cases, rng, fraction):
    """a sample of the cases once more with defer.setDebugging switched on (and sometimes off again) somewhere in
    the middle: Deferreds created / fired while it was off meet operations made while it is on, and vice versa"""
    out = []
    for c in cases:
        if len(c["ops"]) < 2 or rng.random() >= fraction:
            continue
        ops = list(c["ops"])
        i = rng.randrange(1, len(ops) + 1)
        ops.insert(i, ["dbg", 999, 1])
        if rng.random() < 0.4 and i + 1 < len(ops):
            ops.insert(rng.randrange(i + 1, len(ops) + 1), ["dbg", 999, 0])
        if rng.random() < 0.3:
            ops.insert(0, ["dbg", 999, rng.choice([0, 1])])
        out.append({**c, "ops": ops})
    return out


def with_subclasses(cases, rng, fraction):
    """a sample of the cases once more with (some of) the Deferreds being instances of a trivial subclass"""
    return [{**c, "cls": rand_cls(rng, len(c["canc"]))} for c in cases if rng.random() < fraction]


def with_debug(cases, rng, fraction):
    """a sample of the cases once more under Deferred debugging"""
    return [{**c, "debug": True} for c in cases if rng.random() < fraction]


# ---------------------------------------------------------------------------------------------------
# Coq terms


def coq_value(v) -> str:
    if v[0] == "N":
        return "VNone"
    if v[0] == "I":
        return f"(VInt ({v[1]})%Z)"
    if v[0] == "F":
        return f"(VFail ({v[1]})%Z)"
    return f"(VDef {v[1]}%nat)"


def coq_beh(b) -> str:
    if b is None:
        return "None"
    if b[0] == "ret":
        return f"(Some (BRet {coq_value(b[1])}))"
    if b[0] == "raise":
        return f"(Some (BRaise ({b[1]})%Z))"
    return "(Some BPass)"


def coq_canc(c) -> str:
    return {"none": "CNone", "nothing": "CNothing"}.get(c[0]) or \
        {"cb": "(CCallback (%d)%%Z)", "eb": "(CErrback (%d)%%Z)", "raise": "(CRaise (%d)%%Z)"}[c[0]] % c[1]


def coq_op(o) -> str:
    k = o[0]
    if k == "add":
        return f"OAdd {o[1]}%nat {coq_beh(o[2])} {coq_beh(o[3])}"
    if k == "cb":
        return f"OCallback {o[1]}%nat ({o[2]})%Z"
    if k == "eb":
        return f"OErrback {o[1]}%nat ({o[2]})%Z"
    if k == "dbg":
        return "OPause 999%nat"                  # setDebugging: nothing for the model (no such Deferred: a no-op)
    return {"pause": "OPause", "unpause": "OUnpause", "cancel": "OCancel"}[k] + f" {o[1]}%nat"


def has_scripts(case) -> bool:
    """needs the re-entrant kernel: a callback that runs kernel operations, or chainDeferred"""
    return any(o[0] == "chain" or (o[0] == "add" and any(b is not None and b[0] == "script" for b in o[2:4]))
               for o in case["ops"])


def coq_sop(o) -> str:
    k = o[0]
    if k == "add":
        return f"SAdd {o[1]}%nat {coq_beh(o[2])} {coq_beh(o[3])}"
    if k == "cb":
        return f"SCallback {o[1]}%nat ({o[2]})%Z"
    if k == "eb":
        return f"SErrback {o[1]}%nat ({o[2]})%Z"
    return {"pause": "SPause", "unpause": "SUnpause", "cancel": "SCancel"}[k] + f" {o[1]}%nat"


def coq_rbeh(b) -> str:
    if b is None:
        return "None"
    if b[0] == "script":
        return f"(Some (RB {coq_list(map(coq_sop, b[1]), 'sop')} {coq_beh(b[2])[6:-1]}))"
    return f"(Some (RB (@nil sop) {coq_beh(b)[6:-1]}))"


def coq_rop(o) -> str:
    k = o[0]
    if k == "add":
        return f"ROAdd {o[1]}%nat {coq_rbeh(o[2])} {coq_rbeh(o[3])}"
    if k == "cb":
        return f"ROCallback {o[1]}%nat ({o[2]})%Z"
    if k == "eb":
        return f"ROErrback {o[1]}%nat ({o[2]})%Z"
    if k == "chain":
        return f"ROAdd {o[1]}%nat (Some (RChain {o[2]}%nat)) (Some (RChain {o[2]}%nat))"
    if k == "dbg":
        return "ROPause 999%nat"                 # setDebugging: nothing for the model (no such Deferred: a no-op)
    return {"pause": "ROPause", "unpause": "ROUnpause", "cancel": "ROCancel"}[k] + f" {o[1]}%nat"


def coq_rprogram(case) -> str:
    return f"({coq_list(map(coq_canc, case['canc']), 'canceller')}, {coq_list(map(coq_rop, case['ops']), 'rop')})"


def coq_any_program(case) -> str:
    """script-free programs go to the kernel DeferredK (which carries the theorems), programs with scripts to the
    re-entrant kernel DeferredKR"""
    if has_scripts(case):
        return "inr " + coq_rprogram(case)
    # every 8th script-free case (by content) is also evaluated on the re-entrant kernel: the kernels must agree
    both = sum(map(len, map(str, case["ops"]))) % 8 == 0
    return f"inl ({'true' if both else 'false'}, {coq_program(case)})"


def coq_program(case) -> str:
    return f"({coq_list(map(coq_canc, case['canc']), 'canceller')}, {coq_list(map(coq_op, case['ops']), 'op')})"


# ---------------------------------------------------------------------------------------------------
# random programs


def rand_value(rng, nd, allow_def=True, fwd_from=None):
    r = rng.random()
    if allow_def and r < 0.35:
        if fwd_from is not None and rng.random() < 0.8 and fwd_from + 1 < nd:
            return ["D", rng.randrange(fwd_from + 1, nd)]
        return ["D", rng.randrange(nd)]
    if r < 0.45:
        return ["N"]
    if r < 0.65:
        return ["F", rng.randrange(3)]
    return ["I", rng.randrange(10)]


def rand_beh(rng, nd, d, p_none=0.0):
    r = rng.random()
    if r < p_none:
        return None
    r = rng.random()
    if r < 0.6:
        return ["ret", rand_value(rng, nd, fwd_from=d)]
    if r < 0.78:
        return ["raise", rng.choice([0, 1, 2] + BASE_CLASSES)]
    return ["pass"]


def rand_sop(rng, nd, fwd_only=True):
    d = rng.randrange(nd)
    r = rng.random()
    if r < 0.45:
        b = rand_simple_beh(rng, nd, d if fwd_only else None)
        return ["add", d, b, None] if rng.random() < 0.6 else ["add", d, b, rand_simple_beh(rng, nd, d if fwd_only else None)]
    if r < 0.65:
        return ["cb", d, rng.randrange(10)]
    if r < 0.72:
        return ["eb", d, rng.randrange(3), rng.choice(EB_FORMS)]
    if r < 0.80:
        return ["pause", d]
    if r < 0.90:
        return ["unpause", d]
    return ["cancel", d]


def rand_simple_beh(rng, nd, d):
    """forward-only returned Deferreds (index above d) when d is given: results never form a cycle"""
    r = rng.random()
    if r < 0.3 and d is not None and d + 1 < nd:
        return ["ret", ["D", rng.randrange(d + 1, nd)]]
    if r < 0.6:
        return ["ret", rng.choice([["N"], ["I", rng.randrange(10)], ["F", rng.randrange(3)]])]
    if r < 0.75:
        return ["raise", rng.randrange(3)]
    return ["pass"]


def rand_script_beh(rng, nd, d):
    return ["script", [rand_sop(rng, nd) for _ in range(rng.randrange(1, 4))], rand_simple_beh(rng, nd, d)]


def rand_script_program(rng, nd, nops, cancellers=True, p_script=0.4, pauses=True):
    """programs whose callbacks run kernel operations; returned Deferreds point forward only (no cyclic results)"""
    canc = [rand_canc(rng) if cancellers else ["none"] for _ in range(nd)]
    ops = []
    for _ in range(nops):
        d = rng.randrange(nd)
        r = rng.random()
        if r < 0.5:
            mk = (lambda: rand_script_beh(rng, nd, d) if rng.random() < p_script else rand_simple_beh(rng, nd, d))
            shape = rng.random()
            if shape < 0.55:
                ops.append(["add", d, mk(), None])
            elif shape < 0.7:
                ops.append(["add", d, None, mk()])
            elif shape < 0.85:
                b = mk()
                ops.append(["add", d, b, b])
            else:
                ops.append(["add", d, mk(), mk()])
        elif r < 0.55 and nd > 1:
            ops.append(["chain", d, rng.choice([x for x in range(nd) if x != d])])
        elif r < 0.72:
            ops.append(["cb", d, rng.randrange(10)])
        elif r < 0.8:
            ops.append(["eb", d, rng.randrange(3), rng.choice(EB_FORMS)])
        elif r < 0.86 and pauses:
            ops.append(["pause", d])
        elif r < 0.93 and pauses:
            ops.append(["unpause", d])
        elif cancellers:
            ops.append(["cancel", d])
        else:
            ops.append(["cb", d, rng.randrange(10)])
    return {"canc": canc, "ops": ops}


def rand_canc(rng):
    return rng.choice([["none"], ["none"], ["nothing"], ["cb", 7], ["eb", 2], ["raise", 1]])


def rand_program(rng, nd, nops, weights=None, cancellers=True):
    w = weights or {"add": 6, "cb": 3, "eb": 1.5, "pause": 1.2, "unpause": 1.2, "cancel": 1.5}
    kinds = list(w)
    canc = [rand_canc(rng) if cancellers else ["none"] for _ in range(nd)]
    ops = []
    for _ in range(nops):
        k = rng.choices(kinds, [w[x] for x in kinds])[0]
        d = rng.randrange(nd)
        if k == "add":
            shape = rng.random()
            if shape < 0.5:
                ops.append(["add", d, rand_beh(rng, nd, d), None])
            elif shape < 0.65:
                ops.append(["add", d, None, rand_beh(rng, nd, d)])
            elif shape < 0.8:
                b = rand_beh(rng, nd, d)
                ops.append(["add", d, b, b])
            else:
                ops.append(["add", d, rand_beh(rng, nd, d), rand_beh(rng, nd, d)])
        elif k == "cb":
            ops.append(["cb", d, rng.randrange(10)])
        elif k == "eb":
            ops.append(["eb", d, rng.randrange(3), rng.choice(EB_FORMS)])
        else:
            ops.append([k, d])
    return {"canc": canc, "ops": ops}


# ---------------------------------------------------------------------------------------------------
# reference interpreter: the documented rules, written recursively (not the implementation's loop, not the Coq
# model).  Used as the property oracle of C01 and, for cancel(), of C03.

_NO = object()


class _RD:
    def __init__(self, canc):
        self.callbacks = []     # ("pair", k, cb, eb) | ("cont", index of the waiting Deferred)
        self.result = _NO
        self.called = False
        self.paused = 0
        self.swallow = False    # one late result is ignored after a canceller-less cancel()
        self.canc = canc
        self.running = False    # one of its callbacks is executing right now


class _Raise(Exception):
    """an exception travelling out of a kernel operation into the callback that executed it"""
    def __init__(self, e):
        self.e = e              # class number, or "A" AlreadyCalledError, "R" RecursionError


def ref_show(v):
    if v is None:
        return "N"
    if isinstance(v, tuple):
        if v[0] == "F":
            return {"C": "EC", "A": "EA", "R": "ER"}.get(v[1]) or "E%d" % v[1]
        return "D%d" % v[1]
    return str(v)


class Reference:
    """Rules: callbacks run in the order added, each with the result of the previous one; a Failure goes to the
    errback side; a returned Deferred with a plain result (and not paused) gives its result up, otherwise the
    Deferred waits for it; the Deferred waited on, when it gets to the waiter's place in its own chain, hands its
    result over and lets the waiter run (recursion here, an explicit stack in the implementation).
    Re-entrancy: while a callback of d executes, "run d's callbacks" does nothing (an add to d only appends; the loop
    that is executing the callback picks the new entry up afterwards); any other Deferred that becomes runnable from
    inside a callback (it is fired, unpaused, or gets a callback while fired) runs its whole chain right there."""

    def __init__(self, canc):
        self.ds = [_RD(c) for c in canc]
        self.events = []
        self.nadd = 0

    def run(self, i):
        """d._runCallbacks()"""
        if not self.ds[i].running:
            self._walk(i)

    def _walk(self, i):
        d = self.ds[i]
        if d.paused:
            return
        while d.callbacks:
            # (a pause() of d made by one of d's own callbacks does not stop the callbacks that follow; it is looked
            # at when d is next (re)entered: on unpause, on an add, or after a waiting Deferred has run)
            item = d.callbacks.pop(0)
            if item[0] == "cont":
                c = self.ds[item[1]]
                c.result, d.result = d.result, None      # hand the result over
                c.paused -= 1                            # ... unpause the waiting Deferred and let it run
                self._walk(item[1])
                if d.paused:
                    return
                continue
            _, k, cb, eb = item
            beh = eb if (isinstance(d.result, tuple) and d.result[0] == "F") else cb
            if beh is not None and beh[0] == "chain":
                # chainDeferred: hand the current result to the other Deferred (callback / errback), keep None
                d.running = True
                try:
                    how = self.fire(beh[1], d.result)
                finally:
                    d.running = False
                d.result = ("F", "A") if how == "already" else None
            elif beh is not None:
                arg = d.result
                self.events.append(f"R{i}.{k}({ref_show(arg)})")
                script, plain = (beh[1], beh[2]) if beh[0] == "script" else ([], beh)
                d.running = True
                try:
                    for sop in script:
                        self.sop(sop)
                    if plain[0] == "ret":
                        v = plain[1]
                        new = None if v[0] == "N" else v[1] if v[0] == "I" else (v[0], v[1])
                    elif plain[0] == "raise":
                        new = ("F", plain[1])            # ANY exception class becomes a failure result
                    else:
                        new = arg
                except _Raise as ex:
                    new = ("F", ex.e)                    # an exception out of a script operation, too
                finally:
                    d.running = False
                d.result = new
            r = d.result
            if isinstance(r, tuple) and r[0] == "D" and r[1] < len(self.ds):
                x = self.ds[r[1]]
                plain_res = x.result is not _NO and not (isinstance(x.result, tuple) and x.result[0] == "D")
                if plain_res and not x.paused:
                    d.result, x.result = x.result, None   # already has a result: take it
                else:
                    d.paused += 1                         # wait for it
                    x.callbacks.append(("cont", i))
                    return

    def fire(self, i, v) -> str:
        """-> 'ok' | 'swallowed' | 'already'"""
        d = self.ds[i]
        if d.called:
            if d.swallow:
                d.swallow = False
                return "swallowed"
            return "already"
        d.called = True
        d.result = v
        self.events.append(f"F{i}")
        self.run(i)
        return "ok"

    # -- cancel(): a fired Deferred whose current result is a Deferred forwards the cancellation to it, to any
    #    depth; the innermost unfired Deferred is the one that is cancelled
    def cancel_target(self, i):
        """-> (target index | None when nothing is to be cancelled | 'RE' for a cycle, number of hops)"""
        hops = 0
        while True:
            d = self.ds[i]
            if not d.called:
                return i, hops
            r = d.result
            if not (isinstance(r, tuple) and r[0] == "D" and r[1] < len(self.ds)):
                return None, hops
            i = r[1]
            hops += 1
            if hops > len(self.ds):
                return "RE", hops

    def cancel(self, i):
        """may raise _Raise (the canceller's exception, or RecursionError for cyclic results)"""
        t, _ = self.cancel_target(i)
        if t is None:
            return
        if t == "RE":
            raise _Raise("R")
        d = self.ds[t]
        c = d.canc
        if c[0] == "none":
            d.swallow = True
            self.fire(t, ("F", "C"))
            return
        self.events.append(f"K{t}")
        if c[0] == "cb":
            self.fire(t, c[1])
        elif c[0] == "eb":
            self.fire(t, ("F", c[1]))
        elif c[0] == "raise":
            raise _Raise(c[1])
        else:
            self.fire(t, ("F", "C"))

    def add(self, i, cb, eb):
        d = self.ds[i]
        d.callbacks.append(("pair", self.nadd, cb, eb))
        self.nadd += 1
        if d.called:
            self.run(i)

    def unpause(self, i):
        d = self.ds[i]
        d.paused -= 1
        if not d.paused and d.called:
            self.run(i)

    def sop(self, o):
        """a kernel operation executed inside a callback: exceptions travel into the callback"""
        kind, i = o[0], o[1]
        if i >= len(self.ds):
            return
        if kind == "add":
            self.add(i, o[2], o[3])
        elif kind in ("cb", "eb"):
            if self.fire(i, o[2] if kind == "cb" else ("F", o[2])) == "already":
                raise _Raise("A")
        elif kind == "pause":
            self.ds[i].paused += 1
        elif kind == "unpause":
            self.unpause(i)
        elif kind == "cancel":
            self.cancel(i)
        else:
            raise ValueError(kind)

    def op(self, o) -> str:
        """a top-level operation: exceptions are reported as tokens"""
        self.events = []
        kind, i = o[0], o[1]
        if i >= len(self.ds):
            return "-"
        if kind == "chain":
            if o[2] < len(self.ds):
                self.add(i, ["chain", o[2]], ["chain", o[2]])
        elif kind == "add":
            self.add(i, o[2], o[3])
        elif kind in ("cb", "eb"):
            how = self.fire(i, o[2] if kind == "cb" else ("F", o[2]))
            if how != "ok":
                self.events.append("A" if how == "already" else "S")
        elif kind == "pause":
            self.ds[i].paused += 1
        elif kind == "unpause":
            self.unpause(i)
        elif kind == "cancel":
            try:
                self.cancel(i)
            except _Raise as ex:
                self.events.append("RE" if ex.e == "R" else f"X{ex.e}")
        else:
            raise ValueError(kind)
        return ",".join(self.events) if self.events else "-"

    def final(self) -> str:
        fin = []
        for d in self.ds:
            pend = [str(it[1]) for it in d.callbacks if it[0] == "pair"]
            fin.append(f"{'T' if d.called else 'F'}:{'-' if d.result is _NO else ref_show(d.result)}:{d.paused}:"
                       f"[{','.join(pend)}]")
        return " ".join(fin)


def reference(case) -> str:
    r = Reference(case["canc"])
    return " ".join(r.op(o) for o in case["ops"]) + " | " + r.final()


def make_recorder():
    """a pass-through callback whose frames are counted by the C02 depth meter (co_name 'f' in this file)"""
    def f(arg):
        return arg
    return f


# ---------------------------------------------------------------------------------------------------
# entry helper


def run_spec_sharded(spec, tier, seed, replay, shard=1500):
    """common.run_spec with larger Cases files: every coqc process pays the library loading time once, which
    dominates on a loaded machine (work-around kept in this module; common.coq_eval's default is 400)."""
    from harness import common

    orig = common.coq_eval

    def patched(*a, **k):
        k.setdefault("shard", shard)
        return orig(*a, **k)

    common.coq_eval = patched
    try:
        return common.run_spec(spec, tier, seed, replay)
    finally:
        common.coq_eval = orig
