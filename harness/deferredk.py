"""Shared driver for the Deferred kernel properties (C01, C02, C03): runs a *program* (a list of
operations over a few Deferreds with defunctionalised callbacks) on real twisted Deferreds and prints the
canonical observation that coq/Lib/DeferredKShow.v prints for the model.

program = {"canc": [canceller, ...],            one per Deferred: ["none"] | ["nothing"] | ["cb", z] | ["eb", e] | ["raise", e]
           "ops":  [op, ...]}
op      = ["add", d, cb, eb] | ["cb", d, z] | ["eb", d, e] | ["pause", d] | ["unpause", d] | ["cancel", d]
cb, eb  = None | ["ret", value] | ["raise", e] | ["pass"]
value   = ["N"] | ["I", z] | ["F", e] | ["D", i]

Observation (all API-level: callback arguments, exceptions by class, the public attributes called / result /
paused / callbacks):
    <op events> <op events> ... | <final state of every Deferred>
  op events : comma-joined  Rd.k(arg)  user callback of add-operation k on Deferred d ran with arg
                            Fd         Deferred d accepted a result during this operation
                            A / S      AlreadyCalledError raised / late result silently swallowed
                            Kd         canceller of d invoked;  Xe  it raised E_e out of cancel();  RE RecursionError
              or "-" when nothing happened
  Deferred  : called:result:paused:[ids of pending user callbacks]
"""
from __future__ import annotations

import warnings

from harness.common import coq_list

_EXC: dict = {}


def exc_class(n: int):
    if n not in _EXC:
        _EXC[n] = type(f"E{n}", (Exception,), {})
    return _EXC[n]


def show_value(v, index) -> str:
    from twisted.internet import defer
    from twisted.python.failure import Failure

    if v is None:
        return "N"
    if isinstance(v, Failure):
        if v.type is defer.CancelledError:
            return "EC"
        for n, cls in _EXC.items():
            if v.type is cls:
                return f"E{n}"
        raise RuntimeError(f"unexpected failure {v.type!r}")
    if isinstance(v, defer.Deferred):
        return "D%d" % index[id(v)]
    if isinstance(v, int):
        return str(v)
    raise RuntimeError(f"unexpected value {v!r}")


class Runner:
    """Executes a program on real Deferreds, recording the observation."""

    def __init__(self, canc):
        from twisted.internet import defer

        self.defer = defer
        self.events: list[str] = []      # events of the operation in progress
        self.ds = []
        self.funcs: dict = {}            # id(function) -> add-operation number
        self.nadd = 0
        for i, c in enumerate(canc):
            self.ds.append(defer.Deferred(self._canceller(i, c)))
        self.index = {id(d): i for i, d in enumerate(self.ds)}
        self.keep = []                   # keep Failures alive: no GC-time logging during a case

    def _canceller(self, i, c):
        if c[0] == "none":
            return None

        def canceller(d):
            self.events.append(f"K{i}")
            if c[0] == "cb":
                d.callback(c[1])
            elif c[0] == "eb":
                d.errback(exc_class(c[1])())
            elif c[0] == "raise":
                raise exc_class(c[1])()
        return canceller

    def _make_value(self, v):
        from twisted.python.failure import Failure

        if v[0] == "N":
            return None
        if v[0] == "I":
            return v[1]
        if v[0] == "F":
            return Failure(exc_class(v[1])())
        return self.ds[v[1]]

    def _fn(self, d, k, beh):
        def f(arg):
            self.events.append(f"R{d}.{k}({show_value(arg, self.index)})")
            if beh[0] == "ret":
                return self._make_value(beh[1])
            if beh[0] == "raise":
                raise exc_class(beh[1])()
            return arg
        self.funcs[id(f)] = k
        self.keep.append(f)
        return f

    def op(self, o) -> str:
        defer = self.defer
        self.events = []
        before = [d.called for d in self.ds]
        kind, di = o[0], o[1]
        if di >= len(self.ds):
            return "-"
        d = self.ds[di]
        tail = None
        if kind == "add":
            k = self.nadd
            self.nadd += 1
            cb, eb = o[2], o[3]
            if cb is not None and cb == eb:
                d.addBoth(self._fn(di, k, cb))
            elif cb is not None and eb is not None:
                d.addCallbacks(self._fn(di, k, cb), self._fn(di, k, eb))
            elif cb is not None:
                d.addCallback(self._fn(di, k, cb))
            elif eb is not None:
                d.addErrback(self._fn(di, k, eb))
            else:
                d.addCallbacks(defer.passthru)
        elif kind in ("cb", "eb"):
            try:
                if kind == "cb":
                    d.callback(o[2])
                else:
                    d.errback(exc_class(o[2])())
            except defer.AlreadyCalledError:
                tail = "A"
            else:
                if before[di]:
                    tail = "S"
        elif kind == "pause":
            d.pause()
        elif kind == "unpause":
            d.unpause()
        elif kind == "cancel":
            try:
                d.cancel()
            except RecursionError:
                tail = "RE"
            except Exception as e:
                if type(e) in _EXC.values():
                    tail = "X" + type(e).__name__[1:]
                else:
                    raise
        else:
            raise ValueError(kind)
        evs = list(self.events)
        fired = [f"F{i}" for i, x in enumerate(self.ds) if x.called and not before[i]]
        # the firing precedes every callback run; inside cancel() it follows the canceller invocation
        pos = 0
        for j, e in enumerate(evs):
            if e.startswith("K"):
                pos = j + 1
                break
        evs[pos:pos] = fired
        if tail:
            evs.append(tail)
        return ",".join(evs) if evs else "-"

    def op_light(self, o) -> None:
        """execute one operation without observing it (long chains: no per-operation scan of all Deferreds)"""
        defer = self.defer
        self.events = []
        kind, d = o[0], self.ds[o[1]]
        if kind == "add":
            k = self.nadd
            self.nadd += 1
            cb, eb = o[2], o[3]
            if cb is not None and eb is not None:
                d.addCallbacks(self._fn(o[1], k, cb), self._fn(o[1], k, eb))
            elif cb is not None:
                d.addCallback(self._fn(o[1], k, cb))
            else:
                d.addErrback(self._fn(o[1], k, eb))
        elif kind == "cb":
            d.callback(o[2])
        elif kind == "eb":
            d.errback(exc_class(o[2])())
        elif kind == "pause":
            d.pause()
        elif kind == "unpause":
            d.unpause()
        else:
            raise ValueError(kind)

    def final(self) -> str:
        out = []
        for d in self.ds:
            if hasattr(d, "result"):
                r = show_value(d.result, self.index)
            else:
                r = "-"
            pend = []
            for item in d.callbacks:
                k = None
                for side in item:
                    k = self.funcs.get(id(side[0]), k)
                if k is not None:
                    pend.append(k)
            out.append(f"{'T' if d.called else 'F'}:{r}:{d.paused}:[{','.join(map(str, pend))}]")
        return " ".join(out)


_QUIET = False


def quiet_logging() -> None:
    """Failures left in Deferreds are reported by twisted at garbage collection; send them to a null observer."""
    global _QUIET
    if not _QUIET:
        from twisted.logger import globalLogBeginner

        globalLogBeginner.beginLoggingTo([lambda event: None], redirectStandardIO=False, discardBuffer=True)
        _QUIET = True


def run_program(case) -> str:
    quiet_logging()
    with warnings.catch_warnings():
        warnings.simplefilter("ignore")
        r = Runner(case["canc"])
        evs = [r.op(o) for o in case["ops"]]
        obs = " ".join(evs) + " | " + r.final()
        # consume failures so that nothing is reported at garbage collection
        for d in r.ds:
            if d.called and not d.paused and not isinstance(getattr(d, "result", None), r.defer.Deferred):
                d.addErrback(lambda f: None)
        return obs


# ---------------------------------------------------------------------------------------------------
# Coq terms


def coq_value(v) -> str:
    if v[0] == "N":
        return "VNone"
    if v[0] == "I":
        return f"(VInt ({v[1]})%Z)"
    if v[0] == "F":
        return f"(VFail ({v[1]})%Z)"
    return f"(VDef {v[1]}%nat)"


def coq_beh(b) -> str:
    if b is None:
        return "None"
    if b[0] == "ret":
        return f"(Some (BRet {coq_value(b[1])}))"
    if b[0] == "raise":
        return f"(Some (BRaise ({b[1]})%Z))"
    return "(Some BPass)"


def coq_canc(c) -> str:
    return {"none": "CNone", "nothing": "CNothing"}.get(c[0]) or \
        {"cb": "(CCallback (%d)%%Z)", "eb": "(CErrback (%d)%%Z)", "raise": "(CRaise (%d)%%Z)"}[c[0]] % c[1]


def coq_op(o) -> str:
    k = o[0]
    if k == "add":
        return f"OAdd {o[1]}%nat {coq_beh(o[2])} {coq_beh(o[3])}"
    if k == "cb":
        return f"OCallback {o[1]}%nat ({o[2]})%Z"
    if k == "eb":
        return f"OErrback {o[1]}%nat ({o[2]})%Z"
    return {"pause": "OPause", "unpause": "OUnpause", "cancel": "OCancel"}[k] + f" {o[1]}%nat"


def coq_program(case) -> str:
    return f"({coq_list(map(coq_canc, case['canc']), 'canceller')}, {coq_list(map(coq_op, case['ops']), 'op')})"


# ---------------------------------------------------------------------------------------------------
# random programs


def rand_value(rng, nd, allow_def=True, fwd_from=None):
    r = rng.random()
    if allow_def and r < 0.35:
        if fwd_from is not None and rng.random() < 0.8 and fwd_from + 1 < nd:
            return ["D", rng.randrange(fwd_from + 1, nd)]
        return ["D", rng.randrange(nd)]
    if r < 0.45:
        return ["N"]
    if r < 0.65:
        return ["F", rng.randrange(3)]
    return ["I", rng.randrange(10)]


def rand_beh(rng, nd, d, p_none=0.0):
    r = rng.random()
    if r < p_none:
        return None
    r = rng.random()
    if r < 0.6:
        return ["ret", rand_value(rng, nd, fwd_from=d)]
    if r < 0.75:
        return ["raise", rng.randrange(3)]
    return ["pass"]


def rand_canc(rng):
    return rng.choice([["none"], ["none"], ["nothing"], ["cb", 7], ["eb", 2], ["raise", 1]])


def rand_program(rng, nd, nops, weights=None, cancellers=True):
    w = weights or {"add": 6, "cb": 3, "eb": 1.5, "pause": 1.2, "unpause": 1.2, "cancel": 1.5}
    kinds = list(w)
    canc = [rand_canc(rng) if cancellers else ["none"] for _ in range(nd)]
    ops = []
    for _ in range(nops):
        k = rng.choices(kinds, [w[x] for x in kinds])[0]
        d = rng.randrange(nd)
        if k == "add":
            shape = rng.random()
            if shape < 0.5:
                ops.append(["add", d, rand_beh(rng, nd, d), None])
            elif shape < 0.65:
                ops.append(["add", d, None, rand_beh(rng, nd, d)])
            elif shape < 0.8:
                b = rand_beh(rng, nd, d)
                ops.append(["add", d, b, b])
            else:
                ops.append(["add", d, rand_beh(rng, nd, d), rand_beh(rng, nd, d)])
        elif k == "cb":
            ops.append(["cb", d, rng.randrange(10)])
        elif k == "eb":
            ops.append(["eb", d, rng.randrange(3)])
        else:
            ops.append([k, d])
    return {"canc": canc, "ops": ops}


# ---------------------------------------------------------------------------------------------------
# entry helper


def run_spec_sharded(spec, tier, seed, replay, shard=1500):
    """common.run_spec with larger Cases files: every coqc process pays the library loading time once, which
    dominates on a loaded machine (work-around kept in this module; common.coq_eval's default is 400)."""
    from harness import common

    orig = common.coq_eval

    def patched(*a, **k):
        k.setdefault("shard", shard)
        return orig(*a, **k)

    common.coq_eval = patched
    try:
        return common.run_spec(spec, tier, seed, replay)
    finally:
        common.coq_eval = orig
