"""C09 — task.Clock: H-tie (hand-written model coq/C09 + coq/Lib/TimersCall.v, correspondence on
generated histories whose call functions are themselves scripts of timer operations).

case = {"k": scale exponent (times are n / 2**k seconds, n integer),
        "ops": [["later", d] | ["cancel", i] | ["reset", i, s] | ["delay", i, s] | ["snap"] | ["adv", a]],
        "bodies": [[bop, ...], ...]}     # bodies[i] = what the function of call #i (creation order) does
"""
from __future__ import annotations

import itertools

from harness.common import Failure, Spec, coq_list

BOPS = ("later", "cancel", "reset", "delay", "snap")


# ----------------------------------------------------------------------------------------------
# implementation driver


def digest(s: str) -> str:
    """same function as TwLib.TimersShow.digest"""
    h = 7
    for ch in s.encode("latin-1"):
        h = (h * 1000003 + ch) & 1152921504606846975
    return s[:60] + "#" + str(h)


class Boom(Exception):
    """what a scripted call function raises"""


def exact(x: float, K: int) -> str:
    v = x * K
    if v != int(v):
        return "~" + repr(x)       # inexact float: visible in the observation, never equal to the model
    return str(int(v))


def impl(case) -> str:
    from twisted.internet import error, task

    clock = task.Clock()
    K = 2 ** case["k"]
    bodies = case["bodies"]
    calls = []
    index = {}
    toks = []

    def do(b):
        kind = b[0]
        if kind == "later":
            i = len(calls)
            dc = clock.callLater(b[1] / K, fn, i)
            calls.append(dc)
            index[id(dc)] = i
            toks.append(f"L{i}@{exact(dc.getTime(), K)}")
        elif kind == "snap":
            got = sorted((index[id(dc)], exact(dc.getTime(), K)) for dc in clock.getDelayedCalls())
            toks.append("[" + ",".join(f"{i}:{t}" for i, t in got) + "]")
        else:
            i = b[1]
            if i >= len(calls):
                toks.append(f"N{i}")
                return
            dc = calls[i]
            try:
                if kind == "cancel":
                    dc.cancel()
                    toks.append(f"C{i}")
                elif kind == "reset":
                    dc.reset(b[2] / K)
                    toks.append(f"R{i}@{exact(dc.getTime(), K)}")
                else:
                    dc.delay(b[2] / K)
                    toks.append(f"D{i}@{exact(dc.getTime(), K)}")
            except error.AlreadyCalled:
                toks.append(f"XA{i}")
            except error.AlreadyCancelled:
                toks.append(f"XC{i}")

    def fn(i):
        toks.append(f"(r{i}@{exact(clock.seconds(), K)}:{exact(calls[i].getTime(), K)}")
        try:
            for b in (bodies[i] if i < len(bodies) else []):
                if b[0] == "raise":
                    raise Boom()
                if b[0] == "adv":                 # re-entrant advance from inside a running call
                    toks.append("A")
                    clock.advance(b[1] / K)
                    toks.append("=" + exact(clock.seconds(), K))
                else:
                    do(b)
        except Boom:
            toks.append(")!")                     # own exception, or one propagating out of the nested advance
            raise
        toks.append(")")

    for o in case["ops"]:
        if o[0] == "adv":
            toks.append("A")
            try:
                clock.advance(o[1] / K)
            except Boom:
                pass                      # Clock.advance lets the exception of a call function through
            toks.append("=" + exact(clock.seconds(), K))
        else:
            do(o)
    return " ".join(toks)


# ----------------------------------------------------------------------------------------------
# the property, as a non-deterministic reference timer that consumes the implementation's log


class Ref:
    """Reference bookkeeping shared by the C08 and C09 oracles: what the log of timer-API results must
    look like.  It never chooses an execution order itself; it checks the order the implementation chose."""

    def __init__(self, case, toks):
        self.case, self.toks, self.pos = case, toks, 0
        self.now = 0
        self.sched = {}        # id -> currently scheduled time
        self.status = {}       # id -> 'P' | 'R' | 'X'
        self.resched = set()
        self.created_in = {}   # id -> iteration number in which it was created (C08)
        self.n = 0
        self.lastrun = None
        self.nonneg = all(len(b) < 2 or b[0] == "cancel" or b[-1] >= 0
                          for b in list(case["ops"]) + [x for body in case["bodies"] for x in body])
        self.iteration = 0
        self.raised = False    # the call function consumed last ended by raising

    def fail(self, reason, tag):
        return Failure(self.case, f"token {self.pos}: {reason}", tag)

    def take(self):
        if self.pos >= len(self.toks):
            return None
        t = self.toks[self.pos]
        self.pos += 1
        return t

    def peek(self):
        return self.toks[self.pos] if self.pos < len(self.toks) else None

    def pending(self):
        return [i for i in range(self.n) if self.status[i] == "P"]

    def bop(self, b):
        t = self.take()
        kind = b[0]
        if kind == "later":
            want = f"L{self.n}@{self.now + b[1]}"
            if t != want:
                return self.fail(f"callLater({b[1]}) at {self.now}: got {t}, want {want}", "callLater-time")
            self.sched[self.n] = self.now + b[1]
            self.status[self.n] = "P"
            self.created_in[self.n] = self.iteration
            self.n += 1
            return None
        if kind == "snap":
            want = "[" + ",".join(f"{i}:{self.sched[i]}" for i in self.pending()) + "]"
            if t != want:
                return self.fail(f"getDelayedCalls: got {t}, pending calls are {want}", "getDelayedCalls")
            return None
        i = b[1]
        if i >= self.n:
            return None if t == f"N{i}" else self.fail(f"harness token {t}", "log")
        st = self.status[i]
        if st == "X":
            return None if t == f"XC{i}" else self.fail(f"{kind} on cancelled call {i}: got {t}, want AlreadyCancelled",
                                                         f"{kind}-after-cancel")
        if st == "R":
            return None if t == f"XA{i}" else self.fail(f"{kind} on called call {i}: got {t}, want AlreadyCalled",
                                                         f"{kind}-after-called")
        if kind == "cancel":
            if t != f"C{i}":
                return self.fail(f"cancel of pending call {i}: got {t}", "cancel-pending")
            self.status[i] = "X"
            return None
        if kind == "reset":
            new, want = self.now + b[2], f"R{i}@{self.now + b[2]}"
        else:
            new, want = self.sched[i] + b[2], f"D{i}@{self.sched[i] + b[2]}"
        if t != want:
            return self.fail(f"{kind} of pending call {i}: got {t}, want {want}", f"{kind}-time")
        self.sched[i] = new
        self.resched.add(i)
        return None

    def run_event(self, iteration_now, may_run=lambda i: True, cls="advance"):
        """consume one '(r<i>@<now>:<t>' ... ')' group and check it against the property"""
        t = self.take()
        head, tt = t[2:].split(":")
        i, at = head.split("@")
        i = int(i)
        if i >= self.n:
            return self.fail(f"unknown call {i} ran", "ran-unknown")
        if self.status[i] == "R":
            return self.fail(f"call {i} ran twice", "ran-twice")
        if self.status[i] == "X":
            return self.fail(f"call {i} ran after it was cancelled", "ran-after-cancel")
        if at != str(iteration_now) or tt != str(self.sched[i]):
            return self.fail(f"call {i} ran with clock {at} (expected {iteration_now}) reporting getTime {tt} "
                             f"(scheduled {self.sched[i]})", "run-report")
        if self.sched[i] > iteration_now:
            return self.fail(f"call {i} scheduled for {self.sched[i]} ran at {iteration_now}", "ran-early")
        if not may_run(i):
            return self.fail(f"call {i} was scheduled during this {cls} and ran in it", "ran-in-creating-iteration")
        for j in self.pending():
            if j != i and self.sched[j] < self.sched[i] and may_run(j):
                return self.fail(f"call {i} (time {self.sched[i]}) ran while call {j} (time {self.sched[j]}) was pending",
                                 "ran-out-of-order")
            if (j < i and self.sched[j] == self.sched[i] and i not in self.resched and j not in self.resched
                    and may_run(j) and self.tie_by_creation):
                return self.fail(f"call {i} ran before the older call {j} with the same time {self.sched[i]}, "
                                 "neither ever rescheduled", "same-time-creation-order")
        if self.nonneg and self.lastrun is not None and self.sched[i] < self.lastrun:
            return self.fail(f"call {i} (time {self.sched[i]}) ran after a call with time {self.lastrun}",
                             "nondecreasing-time")
        self.status[i] = "R"
        self.lastrun = self.sched[i]
        bodies = self.case["bodies"]
        self.raised = False
        for b in (bodies[i] if i < len(bodies) else []):
            if b[0] == "raise":
                if self.take() != ")!":
                    return self.fail(f"the function of call {i} did not raise as scripted", "log")
                self.raised = True
                return None
            if b[0] == "adv":
                f = self.advance(b[1], top=False)
                if f:
                    return f
                if self.raised:                    # the exception of an inner call propagates through this function
                    if (self.peek() or "").startswith("(r"):
                        return self.fail("a call ran after a call function raised inside a nested advance",
                                         "ran-after-raise")
                    if self.take() != ")!":
                        return self.fail(f"the exception did not propagate through the function of call {i}", "log")
                    return None
                continue
            f = self.bop(b)
            if f:
                return f
        if self.take() != ")":
            return self.fail(f"the function of call {i} did not finish as scripted", "log")
        return None

    def advance(self, amount, top=True):
        """Clock.advance(amount), possibly re-entrant (called by a running call function)"""
        if self.take() != "A":
            return self.fail("harness token", "log")
        self.now += amount
        self.iteration += 1
        aborted = False
        while (self.peek() or "").startswith("(r"):
            f = self.run_event(self.now)
            if f:
                return f
            if self.raised:
                # Clock.advance propagates the exception: nothing else may run in this advance; what was due
                # stays pending (and must run in a later advance)
                aborted = True
                if top and (self.peek() or "").startswith("(r"):
                    return self.fail("a call ran in the same advance after a call function raised", "ran-after-raise")
                break
        if aborted and not top:
            return None                            # no return from the nested advance: the caller sees self.raised
        if not aborted:
            due = [i for i in self.pending() if self.sched[i] <= self.now]
            if due:
                return self.fail(f"advance to {self.now} returned with due call(s) {due} still pending "
                                 f"(times {[self.sched[i] for i in due]})", "due-call-not-run")
        self.raised = False
        t = self.take()
        if t != f"={self.now}":
            return self.fail(f"after advance the clock reads {t}, expected {self.now}", "clock-value")
        return None

    tie_by_creation = True


def oracle(case, obs):
    r = Ref(case, obs.split(" ") if obs else [])
    for o in case["ops"]:
        if o[0] != "adv":
            f = r.bop(o)
            if f:
                return f
            continue
        f = r.advance(o[1], top=True)
        if f:
            return f
    if r.pos != len(r.toks):
        return r.fail(f"unexpected extra events {r.toks[r.pos:r.pos + 3]}", "extra-events")
    return None


# ----------------------------------------------------------------------------------------------
# generation


def rand_bop(rng, nid, small, neg=False):
    """one timer-API operation naming call ids below ~nid"""
    r = rng.random()
    ident = lambda: rng.randrange(max(1, nid + 1))
    amount = lambda: rng.choice(small) * (-1 if neg and rng.random() < 0.3 else 1)
    if r < 0.40:
        return ["later", amount()]
    if r < 0.55:
        return ["cancel", ident()]
    if r < 0.72:
        return ["reset", ident(), amount()]
    if r < 0.86:
        return ["delay", ident(), amount()]
    return ["snap"]


def pull_case(rng, adv_ops):
    """postpone a call (delay(+a), or reset() to later than its time), then pull it back with delay(-b), b >, ==, < a:
    the outstanding postponement must be folded into the new time; also from inside a running call"""
    k = rng.choice([0, 1, 3])
    t = [rng.choice([4, 5, 8, 16]) for _ in range(rng.randrange(2, 5))]
    ops = [["later", x] for x in t]
    if rng.random() < 0.5:
        ops += adv_ops(rng.choice([0, 1, 2]))
    script = []
    for _ in range(rng.randrange(1, 4)):
        i = rng.randrange(len(t))
        a = rng.choice([1, 2, 3, 6])
        script.append(["delay", i, a] if rng.random() < 0.6 else ["reset", i, t[i] + a])
        b = rng.choice([a + 1, a + 2, a, a - 1, 2 * a + 3])
        if rng.random() < 0.3:
            script.append(["delay", i, 1])
        script.append(["delay", i, -b])
        if rng.random() < 0.3:
            script.append(["delay", i, -1])
    bodies = []
    if rng.random() < 0.4:                      # do it from inside the first call that runs
        cut = rng.randrange(len(script) + 1)
        bodies = [script[cut:]] + [[] for _ in t[1:]]
        bodies[0] = [b for b in bodies[0] if b[1] != 0] or [["snap"]]
        script = script[:cut]
    ops += script + [["snap"]]
    for step in (1, 1, 2, 1, 4, 8, 16):
        ops += adv_ops(step) + [["snap"]]
    return {"k": k, "ops": ops, "bodies": bodies}


def reentrant_case(rng):
    """a running call calls clock.advance(d) itself (nested up to depth 2-3) and then, still inside the call,
    schedules or moves calls into the window between the outer target time and the new current time"""
    k = rng.choice([0, 1])
    n = rng.randrange(3, 8)
    times = [rng.choice([1, 1, 2, 3, 4, 6]) for _ in range(n)]
    ops = [["later", t] for t in times]
    bodies = [[] for _ in range(n)]
    nested = rng.sample(range(n), rng.randrange(1, min(4, n) + 1))
    for i in nested:
        b = []
        if rng.random() < 0.3:
            b.append(rng.choice([["later", 0], ["snap"], ["later", 1]]))
        b.append(["adv", rng.choice([0, 1, 1, 2, 3])])
        for _ in range(rng.randrange(1, 4)):
            j = rng.randrange(n + 3)
            b.append(rng.choice([["later", 0], ["later", 0], ["later", 1], ["reset", j, 0], ["delay", j, -rng.choice([1, 2, 3])],
                                 ["reset", j, 1], ["cancel", j], ["snap"]]))
        if rng.random() < 0.15:
            b.insert(rng.randrange(len(b) + 1), ["raise"])
        bodies[i] = b
    # functions of calls created by the functions above (ids n, n+1, ...): some advance again
    for _ in range(rng.randrange(0, 3)):
        bodies.append(rng.choice([[], [["adv", 1], ["later", 0]], [["later", 0]], [["adv", 2], ["snap"]]]))
    ops.append(["snap"])
    for a in [rng.choice([1, 1, 2]) for _ in range(rng.randrange(1, 4))] + [0, 20]:
        ops += [["adv", a], ["snap"]]
    return {"k": k, "ops": ops, "bodies": bodies}


def rand_case(rng, nops, neg=False, adv_name="adv"):
    k = rng.choice([0, 1, 3, 10, 20])
    raise_p = rng.choice([0.0, 0.0, 0.2, 0.5])
    small = rng.choice([[0, 1, 2, 3], [0, 1, 1, 2, 4, 8], [0, 5, 7, 16, 1000], [1, 2 ** 30, 3]])
    ops, created = [], 0
    nbodies = rng.randrange(0, 12)
    bodies = []
    for i in range(nbodies):
        if rng.random() < 0.5:
            bodies.append([])
        else:
            bodies.append([rand_bop(rng, i + rng.randrange(4), small, neg) for _ in range(rng.randrange(1, 4))])
            if rng.random() < raise_p:
                bodies[-1].insert(rng.randrange(len(bodies[-1]) + 1), ["raise"])
    p_adv = rng.choice([0.15, 0.3, 0.5])
    for _ in range(nops):
        if rng.random() < p_adv:
            ops.append([adv_name, rng.choice(small) * (-1 if neg and rng.random() < 0.1 else 1)])
        else:
            b = rand_bop(rng, created + nbodies // 2, small, neg)
            if b[0] == "later":
                created += 1
            ops.append(b)
        if rng.random() < 0.4:
            ops.append(["snap"])
    ops.append([adv_name, max(small) * 3])
    ops.append(["snap"])
    return {"k": k, "ops": ops, "bodies": bodies}


ALPHABET = [["later", 0], ["later", 1], ["later", 2], ["adv", 1], ["cancel", 0], ["reset", 1, 1], ["reset", 0, 0],
            ["delay", 0, 1], ["delay", 1, -1], ["delay", 0, -2], ["reset", 0, 3]]
# body table used by the exhaustive part: call 0 schedules an immediate call and pulls call 1 to "now";
# call 1 cancels call 2 and pushes call 0; call 2 schedules two calls for the same time and resets the older
EXH_BODIES = [[["later", 0], ["reset", 1, 0]], [["cancel", 2], ["delay", 0, 1]],
              [["later", 1], ["later", 1], ["reset", 3, 1]], [["snap"]]]
# the same with exceptions: call 0 raises after scheduling, call 1 raises at once
# re-entrant advance: call 0 advances the clock itself and then schedules for "now"; call 1 (which may run inside that
# nested advance) advances again and pulls call 2 to "now"
EXH_BODIES_ADV = [[["adv", 1], ["later", 0]], [["adv", 1], ["reset", 2, 0], ["later", 0]], [["snap"]], [["adv", 0], ["later", 0]]]
EXH_BODIES_RAISE = [[["later", 0], ["raise"], ["reset", 1, 0]], [["raise"]],
                    [["later", 1], ["later", 1], ["reset", 3, 1]], [["snap"], ["raise"]]]


def gen(rng, tier):
    cases = []
    depth = 4 if tier == "quick" else 5
    for n in range(1, depth + 1):
        for word in itertools.product(range(len(ALPHABET)), repeat=n):
            if n == depth and rng.random() > (0.03 if tier == "quick" else 0.03):
                continue
            ops = [ALPHABET[a] for a in word] + [["snap"], ["adv", 1], ["snap"], ["adv", 3], ["snap"]]
            cases.append({"k": 1, "ops": ops, "bodies": [EXH_BODIES, [], EXH_BODIES_RAISE, EXH_BODIES_ADV][(word[0] + n) % 4]})
    for _ in range(220 if tier == "quick" else 4000):
        cases.append(rand_case(rng, rng.randrange(5, 60)))
    for _ in range(70 if tier == "quick" else 1000):      # negative delays / advances: the code accepts them
        cases.append(rand_case(rng, rng.randrange(5, 40), neg=True))
    for _ in range(120 if tier == "quick" else 2500):     # postponed, then pulled back by a negative delay()
        cases.append(pull_case(rng, lambda a: [["adv", a]]))
    for _ in range(200 if tier == "quick" else 4000):     # re-entrant clock.advance() from inside running calls
        cases.append(reentrant_case(rng))
    return cases


def corpus():
    return [
        # same-time calls, one rescheduled away and back: creation order only binds the untouched ones
        {"k": 0, "ops": [["later", 5], ["later", 5], ["later", 5], ["reset", 0, 7], ["reset", 0, 5], ["snap"],
                         ["adv", 5], ["snap"]], "bodies": []},
        # a call that schedules an immediate call, cancels a due one and is cancelled itself while running
        {"k": 3, "ops": [["later", 8], ["later", 8], ["later", 16], ["adv", 8], ["snap"], ["adv", 8], ["snap"]],
         "bodies": [[["later", 0], ["cancel", 1], ["cancel", 0], ["reset", 2, 0], ["snap"]], [], [["delay", 2, 1]],
                    [["later", 0]]]},
        # negative delay() pulls a later call in front of an earlier one
        {"k": 1, "ops": [["later", 4], ["later", 6], ["delay", 1, -3], ["snap"], ["adv", 4], ["adv", 2]],
         "bodies": []},
        {"k": 0, "ops": [["adv", 0], ["snap"]], "bodies": []},
        # re-entrant advance: a@1 does clock.advance(1); clock.callLater(0, z): the outer advance(1) must not return with
        # z@2 pending at seconds() == 2; depth 2, and a far call pulled into the window by reset(0) / delay(-k)
        {"k": 0, "ops": [["later", 1], ["adv", 1], ["snap"]], "bodies": [[["adv", 1], ["later", 0]]]},
        {"k": 0, "ops": [["later", 1], ["later", 2], ["later", 9], ["later", 9], ["adv", 1], ["snap"], ["adv", 0], ["snap"]],
         "bodies": [[["adv", 1], ["reset", 2, 0], ["snap"]], [["adv", 2], ["delay", 3, -6], ["later", 0]], [["later", 0]]]},
        # a postponement is outstanding when a negative delay() arrives: 5 + 2 - 3 = 4 (not 5 - 3); reset-later, then pull
        {"k": 0, "ops": [["later", 5], ["later", 3], ["delay", 0, 2], ["delay", 0, -3], ["snap"], ["adv", 2], ["snap"], ["adv", 2],
                         ["snap"], ["later", 4], ["reset", 2, 9], ["delay", 2, -6], ["snap"], ["adv", 3], ["snap"]], "bodies": []},
        # a call function raises: advance() propagates, the other due calls wait for the next advance
        {"k": 0, "ops": [["later", 5], ["later", 5], ["later", 5], ["adv", 5], ["snap"], ["adv", 0], ["snap"]],
         "bodies": [[["later", 0], ["raise"], ["cancel", 1]], [["raise"]]]},
    ]


# ----------------------------------------------------------------------------------------------
# model side


def coq_bop(b):
    if b[0] == "later":
        return f"BCallLater ({b[1]})"
    if b[0] == "cancel":
        return f"BCancel {b[1]}%nat"
    if b[0] == "reset":
        return f"BReset {b[1]}%nat ({b[2]})"
    if b[0] == "delay":
        return f"BDelay {b[1]}%nat ({b[2]})"
    if b[0] == "raise":
        return "BRaise"
    return "BSnap"


def coq_cop(b):
    return f"CAdvance ({b[1]})" if b[0] == "adv" else f"Op ({coq_bop(b)})"


def fuel_of(case):
    n = sum(1 for o in case["ops"] if o[0] == "later") + sum(1 for b in case["bodies"] for x in b if x[0] == "later")
    return n + 2


def to_coq(case):
    ops = [f"Advance ({o[1]})" if o[0] == "adv" else f"Do ({coq_bop(o)})" for o in case["ops"]]
    table = coq_list([coq_list(map(coq_cop, b), "cop") for b in case["bodies"]], "(list cop)")
    return f"({fuel_of(case)}%nat, {table}, {coq_list(ops, 'op')})%Z"


def shrink(case):
    ops, bodies = case["ops"], case["bodies"]
    for i in range(len(ops)):
        if ops[i][0] != "later":      # removing a callLater renumbers the calls: try it last
            yield {**case, "ops": ops[:i] + ops[i + 1:]}
    for i in range(len(bodies)):
        for j in range(len(bodies[i])):
            if bodies[i][j][0] != "later":
                yield {**case, "bodies": bodies[:i] + [bodies[i][:j] + bodies[i][j + 1:]] + bodies[i + 1:]}
    if case["k"] != 0:
        yield {**case, "k": 0}
    for i in range(len(ops)):
        if ops[i][0] == "later":
            yield {**case, "ops": ops[:i] + ops[i + 1:]}


def histogram(case, obs):
    runs = obs.count("(r")
    nested = sum(len(b) for b in case["bodies"]) > 0
    neg = any(len(b) > 1 and b[0] != "cancel" and b[-1] < 0 for b in case["ops"] + [x for y in case["bodies"] for x in y])
    return f"runs={'0' if runs == 0 else '1-3' if runs < 4 else '4-9' if runs < 10 else '10+'} " \
           f"bodies={'y' if nested else 'n'} negative={'y' if neg else 'n'} raised={'y' if ')!' in obs else 'n'}"


SPEC = Spec(
    pid="C09",
    gen=gen, impl=impl, oracle=oracle, corpus=corpus, shrink=shrink,
    coq_header="From TwLib Require Import TimersCall.\nFrom C09 Require Import Model Run.\nLocal Open Scope Z_scope.",
    coq_fn="run_show",
    to_coq=to_coq,
    model_equal=lambda c, impl_obs, model_obs: digest(impl_obs) == model_obs,
    nontrivial=lambda c, o: "(r" in o,
    histogram=histogram,
    rule="every history of length <= 4 (quick; the longest length sampled 3%) / <= 5 (thorough, longest 3%) over a "
         "11-letter alphabet {callLater 0/1/2, advance 1, cancel #0, reset #1 +1, reset #0 +0, reset #0 +3, delay #0 +1, delay #0 -2, delay #1 -1} "
         "with a fixed table of call bodies (nested callLater/reset/cancel/delay), without, and with a table whose functions raise, each followed by "
         "snapshots and two advances; random histories of 5-60 operations with random body tables, scales 2^0..2^-20, "
         "tie-heavy small delays and 2^30-size delays; a separate stream with negative delays/advances; a stream of re-entrant clock.advance(d) from inside running calls (nested, followed by callLater(0)/reset(0)/delay(-k) into the window just passed, sometimes raising); a stream that postpones a call (delay(+a) / reset to later) and then pulls it back with delay(-b), b >, =, < a, also from inside a running call; "
         "non-trivial = at least one call ran; distinct by (case, observation)",
    trusted=["hand-written model coq/C09/Model.v + coq/Lib/TimersCall.v (tied by this correspondence run only)",
             "Python list.sort is stable (the model uses insertion sort; any stable sort gives the same list)",
             "call functions are scripts of timer-API operations and re-entrant clock.advance() calls, and may end by raising"],
    assumptions=["float arithmetic (+, -, <, <=) is exact on the generated times: integers n with |n| < 2^34 scaled by "
                 "2^-k, k <= 20 (the harness prints any inexact time with a '~' so that it could never match the model)"],
)
