"""C51 — DirDBM crash safety and recovery.

H-tie by translation validation + crash replay (same machinery as C52):
 * "hist" cases: a history of d[k] = v / del d[k] is run on a real DirDBM in a scratch directory with the
   audit-hook recorder; the recorded system calls (one step per written byte) must equal the model's step
   list.  Every prefix of the steps is then applied with REAL system calls to a fresh directory: the state
   must equal the model's, and a real DirDBM reopened on a copy of it (recovery) must give the model's
   recovered state.  Oracle (independent of the model): the reopened database holds, for every key other
   than the interrupted one, the value of its last completed operation, for the interrupted key the old or
   the new value, and no other file; and recovery crashed after each prefix of ITS steps, then run again,
   ends in the same place (nested crash).
 * "rec" cases: arbitrary well-formed directories (k / k.new / k.rpl in every combination) → recovery steps
   (as a set: glob order is the directory's) and recovered state vs. the model, plus the nested-crash oracle.
"""
from __future__ import annotations

import base64
import os
import shutil
import tempfile

from harness import c52 as rec
from harness.common import Failure, Spec, coq_bytes, coq_list

H = lambda b: bytes(b).hex()
B = bytes.fromhex


def enc(k: bytes) -> bytes:
    """the file name of key k (DirDBM._encode, with the empty key stored as "_" — see design.d/C51.md)"""
    return (base64.encodebytes(k) or b"\n").replace(b"\n", b"_").replace(b"/", b"-")


def names(case):
    out = []
    if case["k"] == "hist":
        ks = [enc(B(o[1])) for o in case["ops"]]
    else:
        ks = [enc(B(e[0])) for e in case["files"]]
    for k in ks:
        for n in (k, k + b".new", k + b".rpl"):
            if n not in out:
                out.append(n)
    return out


def _snapshot(d, case):
    st = {}
    if not os.path.isdir(d):
        return "NOT-A-DIRECTORY"
    for n in os.listdir(os.fsencode(d)):
        p = os.path.join(os.fsencode(d), n)
        if os.path.isdir(p):
            st[n] = "d"
        else:
            with open(p, "rb") as f:
                st[n] = "f" + H(f.read())
    known = names(case)
    s = ",".join(st.get(n, "-") for n in known)
    extra = sorted(set(st) - set(known))
    if extra:
        s += ",EXTRA:" + "+".join(x.decode("latin1") for x in extra)
    return s


def _record(base, dbdir, fn, notes):
    """run fn under the recorder -> (result, atomic steps on names relative to the database directory)"""
    prefix = dbdir + os.sep
    rel = lambda p: p[len(prefix):] if p.startswith(prefix) else "../" + os.path.basename(p)
    out, err, log = rec.record(base, fn)
    steps = rec.translate(log, rel, notes)
    if err is not None:
        raise err
    return out, steps


def _items(d):
    from twisted.persisted.dirdbm import DirDBM
    db = DirDBM(d)
    return db, dict(db.items())


def _reopen(base, src, tag, notes):
    """copy the directory, reopen it with the real DirDBM (recovery); -> (copy path, items, recovery steps)"""
    dst = os.path.join(base, tag, "db")
    os.makedirs(os.path.dirname(dst))
    shutil.copytree(src, dst)
    (db, items), steps = _record(base, dst, lambda: _items(dst), notes)
    return dst, items, steps


def _nested(base, crashdir, rsteps, want_items, case, tag, notes):
    """recovery interrupted after every proper prefix of its steps, then run again"""
    for j in range(1, len(rsteps)):
        dst = os.path.join(base, f"{tag}n{j}", "db")
        os.makedirs(os.path.dirname(dst))
        shutil.copytree(crashdir, dst)
        for st in rsteps[:j]:
            if not rec._apply_real(dst, st):
                return f"recovery-step-refused:{tag}:{j}"
        try:
            _, items = _items(dst)
        except Exception as e:
            return f"nested-recovery-raises:{tag}:{j}:{type(e).__name__}"
        if items != want_items:
            return f"nested-recovery-differs:{tag}:{j}"
        left = set(os.listdir(os.fsencode(dst)))
        if any(n.endswith((b".new", b".rpl")) for n in left):
            return f"nested-recovery-stray:{tag}:{j}"
    return None


def impl(case) -> str:
    base = tempfile.mkdtemp(prefix="verif_c51_", dir=rec.SCRATCH)
    try:
        return _hist(case, base) if case["k"] == "hist" else _rec(case, base)
    finally:
        rec._HOOK["on"] = False
        shutil.rmtree(base, ignore_errors=True)


def _show_steps(steps):
    return ";".join(rec._show_step(s) for s in steps)


def _hist(case, base) -> str:
    from twisted.persisted.dirdbm import DirDBM
    notes, verdicts = [], []
    live = os.path.join(base, "live", "db")
    os.makedirs(os.path.dirname(live))
    db = DirDBM(live)
    steps, op_of_step = [], []
    abstract = [{}]
    for i, o in enumerate(case["ops"]):
        k = B(o[1])

        def run(o=o, k=k):
            if o[0] == "set":
                db[k] = B(o[2])
            else:
                del db[k]
        before = _snapshot(live, case)
        try:
            _, mine = _record(base, live, run, notes)
            refused = False
        except OSError:
            # the library refused the operation (the temporary's name exceeds NAME_MAX): it counts as not
            # performed — nothing may have changed, and it contributes no steps
            refused, mine = True, []
            if _snapshot(live, case) != before:
                verdicts.append(f"refused-op-left-debris:{i}")
                break
        except KeyError:
            verdicts.append(f"unexpected-KeyError:{i}")
            break
        steps += mine
        op_of_step += [i] * len(mine)
        m = dict(abstract[-1])
        if refused:
            pass
        elif o[0] == "set":
            m[k] = B(o[2])
        else:
            m.pop(k, None)
        abstract.append(m)
        # a completed operation must leave exactly the abstract dictionary (read back through a fresh DirDBM)
        try:
            got = dict(DirDBM(live).items())
        except Exception as e:
            got = "raises " + type(e).__name__
        if got != m:
            verdicts.append(f"completed-op-mismatch{'-emptykey' if k == b'' else ''}:{i}")
            break
    ends = []
    for i in range(len(case["ops"])):
        own = [j + 1 for j in range(len(steps)) if op_of_step[j] == i]
        ends.append(max(own) if own else (ends[-1] if ends else 0))     # an operation without steps ends where it starts

    replay = os.path.join(base, "replay", "db")
    os.makedirs(replay)
    states, recovered = [], []
    for j in range(len(steps) + 1):
        if j:
            if not rec._apply_real(replay, steps[j - 1]):
                notes.append(f"step-refused:{j}")
        states.append(_snapshot(replay, case))
        if verdicts:
            recovered.append("?")
            continue
        try:
            cdir, items, rsteps = _reopen(base, replay, f"c{j}", notes)
        except Exception as e:
            verdicts.append(f"recovery-raises:{j}:{type(e).__name__}")
            recovered.append("?")
            continue
        recovered.append(_snapshot(cdir, case))
        # ---- the property on this crash point
        done = sum(1 for i in range(len(abstract) - 1) if ends[i] <= j)
        cur = done if done < len(abstract) - 1 and j > (ends[done - 1] if done else 0) else None
        base_map = abstract[done]
        ok = items == base_map
        if not ok and cur is not None:
            ok = items == abstract[done + 1]
        if not ok:
            verdicts.append(f"reopened-contents:{j}")
        left = os.listdir(os.fsencode(cdir))
        if any(n.endswith((b".new", b".rpl")) for n in left) or len(left) != len(items):
            verdicts.append(f"stray-after-recovery:{j}")
        bad = _nested(base, replay, rsteps, items, case, f"c{j}", notes)
        if bad:
            verdicts.append(bad)
    if _snapshot(live, case) != states[-1] and not verdicts:
        notes.append("live-differs-from-replay")
    obs = "S:" + _show_steps(steps) + "|C:" + ";".join(states) + "|V:" + ";".join(recovered)
    return obs + " #" + ("ok" if not verdicts and not notes else "bad " + " ".join(verdicts[:3] + notes[:3]))


def _rec(case, base) -> str:
    notes, verdicts = [], []
    d0 = os.path.join(base, "init", "db")
    os.makedirs(d0)
    for e in case["files"]:
        k = enc(B(e[0]))
        for suffix, content in zip((b"", b".new", b".rpl"), e[1:4]):
            if content is not None:
                with open(os.path.join(os.fsencode(d0), k + suffix), "wb") as f:
                    f.write(B(content))
    try:
        cdir, items, rsteps = _reopen(base, d0, "r", notes)
    except Exception as e:
        return "S:|R:? #bad recovery-raises:0:" + type(e).__name__
    want = {}
    for e in case["files"]:
        if e[1] is not None:
            want[B(e[0])] = B(e[1])
        elif e[3] is not None:
            want[B(e[0])] = B(e[3])
    if items != want:
        verdicts.append("recovered-contents")
    if any(n.endswith((b".new", b".rpl")) for n in os.listdir(os.fsencode(cdir))):
        verdicts.append("stray-after-recovery:0")
    bad = _nested(base, d0, rsteps, items, case, "r", notes)
    if bad:
        verdicts.append(bad)
    obs = "S:" + _show_steps(rsteps) + "|R:" + _snapshot(cdir, case)
    return obs + " #" + ("ok" if not verdicts and not notes else "bad " + " ".join(verdicts[:3] + notes[:3]))


def model_equal(case, a, b):
    head = a.split(" #")[0]
    if case["k"] == "hist":
        return head == b
    try:
        sa, ra = head.split("|R:")
        sb, rb = b.split("|R:")
    except ValueError:
        return False
    # both loops of the recovery enumerate the directory in glob's order: compare the steps as a set
    return sorted(filter(None, sa[2:].split(";"))) == sorted(filter(None, sb[2:].split(";"))) and ra == rb


def oracle(case, obs):
    tail = obs.split(" #", 1)[1] if " #" in obs else "bad malformed"
    if tail == "ok":
        return None
    what = tail[4:]
    kind = what.split(" ")[0].split(":")[0]
    return Failure(case, f"DirDBM crash safety violated: {what}", kind)


# --------------------------------------------------------------------------------------------

# keys chosen so that every character class of the encoded alphabet (A-Z a-z 0-9 + - = _) occurs in file names,
# at the start, in the middle and before the terminator: ">>>" -> "Pj4+_", fb ef be -> "++++_", ff ff ff -> "----_",
# fb -> "+w==_", "?>?" -> "Pz4-_", 60 bytes -> an inner "_" (encodebytes breaks lines every 76 characters)
KEYS = [b"a", b"b", b"ab", b"\xff\xfe", b"k" * 10, b"?>?", b"\x00", b">>>", b"\xfb\xef\xbe", b"\xff\xff\xff",
        b"\xfb", b"\xfb\xff", b"a>>", b">>>a", b"\xf8", b"0" * 60, b"\xfb\xef\xbe" * 20, b"~~~\x7f"]
# raw keys around NAME_MAX: 181-183 bytes -> a 248-character name (the 4-byte temporary extension still fits),
# 184-186 -> 252 (the name fits, name + extension does not: the set is refused), 187-188 -> 256 (nothing fits)
LONG = [bytes([65 + n % 26]) * n for n in range(181, 189)] + [b"\xfb\xef\xbe" * 61 + b"ab", b"\xff" * 185]
NAME_MAX = 255


def storable(k: bytes) -> bool:
    return len(enc(k)) + 4 <= NAME_MAX


SPECIAL = [k for k in KEYS if any(c in "+-" for c in base64.encodebytes(k).decode().replace("/", "-").strip())]


def _val(rng):
    n = rng.choice([0, 1, 1, 2, 3, 5])
    return bytes(rng.choice([0, 10, 46, 65, 255, rng.randrange(256)]) for _ in range(n))


def gen(rng, tier):
    quick = tier == "quick"
    cases = []
    for _ in range(170 if quick else 2000):
        keys = rng.sample(KEYS, rng.choice([1, 2, 2, 3]))
        if rng.random() < 0.5:
            keys[0] = rng.choice(SPECIAL)
        if rng.random() < 0.12:
            keys[0] = b""                      # the empty key is a key like any other
        if rng.random() < 0.3:
            keys[-1] = rng.choice(LONG)        # file names at the NAME_MAX boundary
        live = set()
        ops = []
        for _ in range(rng.choice([1, 2, 3, 3, 4, 5])):
            k = rng.choice(keys)
            if k in live and rng.random() < 0.3:
                ops.append(["del", H(k)])
                live.discard(k)
            else:
                ops.append(["set", H(k), H(_val(rng))])
                if storable(k):
                    live.add(k)            # a set whose temporary name does not fit is refused: the key stays absent
        cases.append({"k": "hist", "ops": ops})
    # every boundary length: create, replace, replace again, next to an ordinary key
    for k in LONG:
        cases.append({"k": "hist", "ops": [["set", H(b"a"), H(b"1")], ["set", H(k), H(b"22")], ["set", H(k), H(b"3")],
                                          ["set", H(b"a"), H(b"4")], ["set", H(k), H(b"")]]})
    for _ in range(120 if quick else 1500):
        files = []
        ks = rng.sample(KEYS, rng.choice([1, 2, 3]))
        if rng.random() < 0.5:
            ks[0] = rng.choice(SPECIAL)
        if rng.random() < 0.2:
            ks[-1] = rng.choice([k for k in LONG if storable(k)])
        for k in dict.fromkeys(ks):
            e = [H(k)] + [H(_val(rng)) if rng.random() < 0.5 else None for _ in range(3)]
            if e[1:] == [None, None, None]:
                e[rng.randrange(1, 4)] = H(b"v")
            files.append(e)
        cases.append({"k": "rec", "files": files})
    if not quick:
        import itertools
        # every combination of present/absent for two keys
        for combo in itertools.product([None, "31"], repeat=6):
            files = [[H(b"a")] + list(combo[:3]), [H(b"b")] + list(combo[3:])]
            files = [e for e in files if e[1:] != [None, None, None]]
            if files:
                cases.append({"k": "rec", "files": files})
    return cases


def corpus():
    return [
        {"k": "hist", "ops": [["set", H(b"a"), H(b"one")], ["set", H(b"a"), H(b"two")], ["del", H(b"a")]]},
        {"k": "hist", "ops": [["set", H(b"a"), H(b"1")], ["set", H(b"b"), H(b"2")], ["set", H(b""), H(b"x")]]},
        {"k": "hist", "ops": [["set", H(b""), H(b"x")], ["set", H(b""), H(b"y")], ["del", H(b"")]]},
        {"k": "rec", "files": [[H(b"a"), None, None, H(b"new")], [H(b"b"), H(b"old"), H(b"pa"), H(b"par")],
                               [H(b"ab"), None, H(b"p"), None]]},
        {"k": "rec", "files": [[H(b"a"), H(b"v"), H(b"n"), H(b"r")]]},
        # NAME_MAX: a 252-character name fits, its temporary does not (the set must be refused and leave nothing)
        {"k": "hist", "ops": [["set", H(b"alpha"), H(b"one")], ["set", H(b"k" * 185), H(b"two")], ["set", H(b"alpha"), H(b"three")],
                              ["set", H(b"k" * 185), H(b"four")], ["del", H(b"alpha")], ["set", H(b"k" * 185), H(b"five")]]},
        {"k": "hist", "ops": [["set", H(b"k" * 183), H(b"1")], ["set", H(b"k" * 183), H(b"22")], ["del", H(b"k" * 183)]]},
        # encoded names with '+', '-', '=', inner and trailing '_'
        {"k": "hist", "ops": [["set", H(b">>>"), H(b"1")], ["set", H(b">>>"), H(b"22")], ["set", H(b"\xfb\xef\xbe"), H(b"3")],
                              ["set", H(b"\xff\xff\xff"), H(b"4")], ["set", H(b"\xff\xff\xff"), H(b"5")]]},
        {"k": "rec", "files": [[H(b">>>"), None, None, H(b"new")], [H(b"\xfb\xef\xbe"), None, H(b"p"), None],
                               [H(b"\xff\xff\xff"), H(b"o"), None, H(b"r")], [H(b"0" * 60), None, H(b"p"), H(b"n")]]},
    ]


def to_coq(case):
    cb = coq_bytes
    ns = coq_list([cb(n) for n in names(case)], "path")
    if case["k"] == "hist":
        ops = []
        for o in case["ops"]:
            k = cb(enc(B(o[1])))
            ops.append(f"DSet {k} {cb(B(o[2]))}" if o[0] == "set" else f"DDel {k}")
        return f"CHist {ns} (@nil (path * node)%type) {coq_list(ops, 'dop')}"
    files = []
    for e in case["files"]:
        k = enc(B(e[0]))
        for suffix, content in zip((b"", b".new", b".rpl"), e[1:4]):
            if content is not None:
                files.append(f"({cb(k + suffix)}, File {cb(B(content))})")
    return f"CRec {ns} {coq_list(files, '(path * node)%type')}"


def shrink(case):
    key = "ops" if case["k"] == "hist" else "files"
    xs = case[key]
    for i in range(len(xs)):
        if len(xs) > 1:
            yield {**case, key: xs[:i] + xs[i + 1:]}
    if case["k"] == "hist":
        for i, o in enumerate(xs):
            if o[0] == "set" and o[2]:
                yield {**case, key: xs[:i] + [[o[0], o[1], o[2][:-2]]] + xs[i + 1:]}


SPEC = Spec(
    pid="C51",
    gen=gen, impl=impl, oracle=oracle, corpus=corpus, shrink=shrink,
    coq_header="From TwLib Require Import Fs.\nFrom C51 Require Import Model Run.",
    coq_fn="run_show",
    to_coq=to_coq,
    model_equal=model_equal,
    nontrivial=lambda c, o: o.count(";") > 3,
    histogram=lambda c, o: c["k"] + (":emptykey" if any(x[1 if c["k"] == "hist" else 0] == "" for x in c.get("ops", c.get("files"))) else ""),
    rule="hist: histories of 1-5 set/replace/delete operations over 1-3 keys (incl. the empty key, NUL, non-UTF-8 "
         "keys, and keys whose file names contain '+', '-', '=', inner '_' at every position; values of 0-5 bytes incl. '.', LF, NUL) on a real DirDBM; EVERY crash point (system-call boundary "
         "and partial-write length) is replayed with real system calls, reopened with the real DirDBM, and every "
         "proper prefix of that recovery's own steps is replayed and reopened again; rec: random well-formed "
         "directories with k / k.new / k.rpl present in every combination for 1-3 keys (thorough: all 63 "
         "combinations for two keys); non-trivial = more than 3 steps/states; distinct by (case, observation)",
    trusted=["hand-written model coq/C51/Model.v over coq/Lib/Fs.v (step semantics compared with the real kernel at "
             "every crash prefix by this run)",
             "process crash only: completed system calls persist",
             "glob enumeration order: the model uses its map order, the proofs' phase lemmas hold for any "
             "duplicate-free enumeration; the correspondence compares recovery steps as a set",
             "the audit-hook recorder and the per-byte expansion of writes"],
    assumptions=["no foreign files in the database directory (documented requirement of DirDBM)",
                 "NAME_MAX = 255 (the scratch file system's limit, modelled as Model.NAME_MAX): a set whose temporary "
                 "name (file name + 4) does not fit is refused with OSError and counts as not performed"],
)
