"""C06 — DeferredLock / DeferredSemaphore: H-tie (hand-written model coq/C06, correspondence on histories
with re-entrant scripts), declarative oracle on the implementation's event log."""
from __future__ import annotations

import itertools
import re

from harness.common import Failure, Spec, coq_list

# case = {"kind": "lock"|"sem", "limit": n, "ops": [op]}
#   sop = ["acq"] | ["run", fn] | ["rel", i] | ["relself"] | ["cancel", i] | ["fire", j, ok, v]
#   op  = sop | ["acqthen", [sop]] | ["acqthen", [sop], [sop]] | ["runthen", [sop], fn]
#         acqthen sc esc: acquire().addCallbacks(lambda _: sc, lambda failure: esc) - sc runs (re-entrantly) when the
#         acquisition is granted, esc when it is cancelled while pending
#   a fn may end with "kw:NAME": run(f, NAME=1) - a keyword argument for f whose name collides with a parameter name used
#         inside defer.py (callback, errback, callbackArgs, args, kwargs, self, result ...); f must receive it
#   fn  = ["ret", v] | ["raise"] | ["defer"] | ["chain"] | ["raisebase"] | ["retd", v] | ["faild"] | ["coret", v] | ["coraise"]
#         raisebase: raises synchronously a BaseException that is not an Exception;  retd / faild: returns an already
#         fired / failed Deferred;  coret / coraise: f is a coroutine function returning v / raising.  For the model
#         retd, coret = ret and faild, coraise = raise (maybeDeferred hands run() a fired Deferred in all of them).
#         defer: returns an unfired Deferred, fired later by ["fire", j, ...];  chain: returns a Deferred that has ALREADY
#         fired but whose chain is suspended on a pending inner Deferred (succeed(x).addCallback(lambda _: inner)); the
#         inner one is fired later by ["fire", j, ...].  "Result available" = the chain delivered, not `called`.
DEEP = 60     # cascades deeper than this many nested synchronous run()s are the recursion-limit class


class Boom(Exception):
    pass


class BaseBoom(BaseException):
    """an application exception that is not an Exception (like asyncio.CancelledError, GeneratorExit, KeyboardInterrupt)"""


def impl(case) -> str:
    from twisted.internet import defer

    log = []
    st = {"releasing": None, "recursion": False}

    def guarded(fun):
        # the harness's own callbacks must not turn an interpreter-stack overflow into an unrelated observation
        def g(*a):
            try:
                return fun(*a)
            except RecursionError:
                st["recursion"] = True
                return None
        return g

    def tok():
        return (0 if prim.locked else 1) if case["kind"] == "lock" else prim.tokens

    def ev(s):
        log.append(f"{s}@{tok()}")

    def on_release():
        who = st["releasing"]
        st["releasing"] = None
        ev("L" + ("?" if who is None else str(who)))

    # release() is the public API run() is specified to call; the override only records
    if case["kind"] == "lock":
        class Prim(defer.DeferredLock):
            def release(self):
                on_release()
                return defer.DeferredLock.release(self)
        prim = Prim()
    else:
        class Prim(defer.DeferredSemaphore):
            def release(self):
                on_release()
                return defer.DeferredSemaphore.release(self)
        prim = Prim(case["limit"])

    acqs = []            # Deferred per acquisition id (None while run() has not returned yet)
    plain_holding = set()
    started = set()
    fds = {}
    fired = set()

    def script(me, sc):
        for o in sc:
            sop(["rel", me] if o[0] == "relself" else o)

    def acquire(sc, esc=()):
        i = len(acqs)
        acqs.append(None)
        d = prim.acquire()
        acqs[i] = d
        seen = []

        def ok(_):
            seen.append(1)
            started.add(i)
            plain_holding.add(i)
            ev(f"G{i}")
            script(i, sc)

        def err(f):
            seen.append(1)
            ev(f"C{i}" if f.check(defer.CancelledError) else f"E{i}:{f.type.__name__}")
            if f.check(defer.CancelledError):
                script(i, esc)

        d.addCallbacks(guarded(ok), guarded(err))
        if not seen:
            ev(f"W{i}")

    def run(sc, fn):
        j = len(acqs)
        acqs.append(None)
        seen = []

        kwname = fn[-1][3:] if isinstance(fn[-1], str) and fn[-1].startswith("kw:") else None

        def f(**kw):
            if sorted(kw) != ([kwname] if kwname else []):
                raise AssertionError(f"function received keyword arguments {sorted(kw)}, expected {kwname}")
            seen.append(1)
            started.add(j)
            ev(f"G{j}")
            script(j, sc)
            if fn[0] in ("defer", "chain"):
                inner = defer.Deferred()

                def done(r):
                    ev(f"F{j}")
                    st["releasing"] = j
                    return r
                fds[j] = inner
                if fn[0] == "defer":
                    inner.addBoth(done)
                    return inner
                # already fired, chain suspended on `inner`: the result is available only when inner fires
                outer = defer.succeed("start").addCallback(lambda _: inner)
                outer.addBoth(done)
                return outer
            ev(f"F{j}")
            st["releasing"] = j
            if fn[0] in ("ret", "coret"):
                return fn[1]
            if fn[0] == "retd":
                return defer.succeed(fn[1])
            if fn[0] == "faild":
                return defer.fail(Boom())
            if fn[0] == "raisebase":
                raise BaseBoom()
            raise Boom()

        if fn[0] in ("coret", "coraise"):
            body = f

            async def f(**kw):         # noqa: F811 - the same behaviour as a coroutine function
                return body(**kw)

        d = prim.run(f, **({kwname: 1} if kwname else {}))
        acqs[j] = d

        def ok(v):
            seen.append(1)
            ev(f"R{j}:{v}")

        def err(fl):
            seen.append(1)
            if fl.check(defer.CancelledError):
                ev(f"R{j}:X" if j in started else f"C{j}")
            elif fl.check(Boom):
                ev(f"R{j}:B")
            elif fl.check(BaseBoom):
                ev(f"R{j}:BB")
            elif fl.check(RecursionError):
                st["recursion"] = True
            else:
                ev(f"R{j}:!{fl.type.__name__}")

        d.addCallbacks(guarded(ok), guarded(err))
        if not seen:
            ev(f"W{j}")

    def sop(o):
        k = o[0]
        if k == "acq":
            acquire([])
        elif k == "acqthen":
            acquire(o[1], o[2] if len(o) > 2 else ())
        elif k == "run":
            run([], o[1])
        elif k == "runthen":
            run(o[1], o[2])
        elif k == "rel":
            i = o[1]
            if i in plain_holding:
                plain_holding.discard(i)
                st["releasing"] = i
                prim.release()
            else:
                ev("N")
        elif k == "relself":
            ev("N")
        elif k == "cancel":
            i = o[1]
            n0 = len(log)
            if i < len(acqs) and acqs[i] is not None:
                acqs[i].cancel()
            if len(log) == n0:
                ev("N")
        elif k == "fire":
            j = o[1]
            n0 = len(log)
            if j in fds and j not in fired:
                fired.add(j)
                if o[2]:
                    fds[j].callback(o[3])
                else:
                    fds[j].errback(Boom())
            if len(log) == n0:
                ev("N")
        else:
            raise ValueError(o)

    for o in case["ops"]:
        try:
            sop(o)
        except RecursionError:
            st["recursion"] = True
    if st["recursion"]:
        # which frame overflows is not canonical: report only what is stable
        return f"RECURSION free={tok() > 0} stranded={len(prim.waiting) > 0}"
    w = []
    for d in prim.waiting:
        w.append(str(next(i for i, a in enumerate(acqs) if a is d)))
    return " ".join(log) + f" |t={tok()} w=[" + ",".join(w) + "]"


# ---------------------------------------------------------------------------------------------
# oracle: the property as predicates on the implementation's own event log (no model of the code)

EV = re.compile(r"^([WGLCNFRE])(\d+|\?)?(?::(.+))?@(\d+)$")


def _scripts(o):
    """all script operations of an acqthen / runthen op"""
    return list(o[1]) + (list(o[2]) if o[0] == "acqthen" and len(o) > 2 else [])


def cascade_depth(case) -> int:
    """upper bound on the nesting of synchronous run() completions a history can reach"""
    n = 0
    for o in case["ops"]:
        if o[0] in ("run", "runthen") and (o[-1][0] not in ("defer", "chain")):
            n += 1
        if o[0] in ("acqthen", "runthen"):
            n += sum(1 for x in _scripts(o) if x[0] == "run")
    return n


def oracle(case, obs):
    limit = 1 if case["kind"] == "lock" else case["limit"]
    if obs.startswith("RECURSION"):
        if cascade_depth(case) > DEEP:
            # known class: the cascade of nested release() calls exhausts the interpreter stack
            return Failure(case, "RecursionError inside the release cascade of queued run() calls; " + obs,
                           "run-cascade-recursion-limit")
        return Failure(case, "RecursionError in a shallow history; " + obs, "recursion-shallow")
    head, _, tail = obs.partition(" |")
    toks = head.split(" ") if head else []
    waiting = []                    # pending acquisitions, oldest first
    holders = set()
    cancelled, released, granted, fdone, results = set(), set(), set(), set(), set()
    must_grant = None               # after a release with waiters: the id the very next event must grant
    must_release = None             # after F j: the very next event must be the release of j
    for pos, t in enumerate(toks):
        m = EV.match(t)
        if not m:
            return Failure(case, f"malformed event {t!r}", "log")
        k, ident, arg, tk = m.group(1), m.group(2), m.group(3), int(m.group(4))
        where = f"event {pos} {t}: "
        if k == "L" and ident == "?":
            return Failure(case, where + "release() entered although no holder released and no run()'s function result "
                           "has become available (the function's Deferred has not delivered its result yet)",
                           "release-before-function-result")
        if k == "E" or ident == "?" or (k == "R" and arg and arg.startswith("!")):
            return Failure(case, where + "unexpected failure / unattributed release", "unexpected-event")
        i = int(ident) if ident is not None else None
        if must_release is not None and not (k == "L" and i == must_release):
            return Failure(case, where + f"run {must_release}: release must follow the function's result at once",
                           "run-release-missing")
        if must_grant is not None and not (k == "G" and i == must_grant):
            return Failure(case, where + f"capacity was freed with acquisition {must_grant} pending (oldest) but "
                           "it was not granted at once", "grant-not-immediate-or-not-oldest")
        must_grant = None
        if k == "W":
            if len(holders) < limit:
                return Failure(case, where + "made to wait although capacity is free", "wait-with-free-capacity")
            waiting.append(i)
        elif k == "G":
            if i in cancelled:
                return Failure(case, where + "a cancelled pending acquisition was granted", "cancelled-granted")
            if i in granted:
                return Failure(case, where + "granted twice", "granted-twice")
            if i in waiting:
                if waiting[0] != i:
                    return Failure(case, where + "granted out of request order", "grant-order")
                waiting.pop(0)
            elif waiting:
                return Failure(case, where + "new acquisition granted ahead of pending ones", "grant-order")
            granted.add(i)
            holders.add(i)
            if len(holders) > limit:
                return Failure(case, where + f"{len(holders)} holders exceed the limit {limit}", "holders-exceed-limit")
        elif k == "F":
            if i not in holders or i in fdone:
                return Failure(case, where + "function result for a run that does not hold", "run-bookkeeping")
            fdone.add(i)
            must_release = i
        elif k == "L":
            must_release = None
            if i not in holders:
                return Failure(case, where + "release by a non-holder", "release-by-nonholder")
            if i in released:
                return Failure(case, where + "released twice", "released-twice")
            if tk != limit - len(holders):
                return Failure(case, where + f"tokens={tk} but {len(holders)} holders of {limit}", "capacity-accounting")
            released.add(i)
            holders.discard(i)
            if waiting:
                must_grant = waiting[0]
            continue
        elif k == "C":
            if i not in waiting:
                return Failure(case, where + "CancelledError for an acquisition that was not pending", "cancel")
            waiting.remove(i)
            cancelled.add(i)
        elif k == "R":
            if i not in released or i not in fdone:
                return Failure(case, where + "run result delivered before its release", "run-result-before-release")
            if i in results:
                return Failure(case, where + "run result delivered twice", "run-result-twice")
            results.add(i)
        # capacity accounting through the documented public attributes (tokens / locked)
        if tk != limit - len(holders):
            return Failure(case, where + f"tokens={tk} but {len(holders)} holders of {limit}", "capacity-accounting")
        if waiting and len(holders) < limit:
            return Failure(case, where + "pending acquisitions while capacity is free", "idle-capacity")
    if must_release is not None or must_grant is not None:
        return Failure(case, "log ends where a release / grant was due", "run-release-missing")
    m = re.match(r"t=(\d+) w=\[([\d,]*)\]$", tail)
    if not m:
        return Failure(case, "malformed final state", "log")
    fw = [int(x) for x in m.group(2).split(",")] if m.group(2) else []
    if int(m.group(1)) != limit - len(holders) or fw != waiting:
        return Failure(case, f"final state {tail} but holders={sorted(holders)} pending={waiting}", "final-state")
    # sync / fired runs must have delivered their result
    for j in fdone:
        if j not in results:
            return Failure(case, f"run {j}: function finished but the run Deferred never fired", "run-result-missing")
    return None


# ---------------------------------------------------------------------------------------------
# generation

KWNAMES = ["callback", "errback", "callbackArgs", "callbackKeywords", "args", "kwargs", "self", "result", "x"]


def _fn(rng):
    f = _fn0(rng)
    if rng.random() < 0.25:
        f = f + ["kw:" + rng.choice(KWNAMES)]
    return f


def _fn0(rng):
    r = rng.random()
    if r < 0.45:
        return [rng.choice(["ret", "ret", "retd", "coret"]), rng.randrange(100)]
    if r < 0.6:
        return [rng.choice(["raise", "raisebase", "faild", "coraise"])]
    return ["defer"] if r < 0.8 else ["chain"]


def _sop(rng, nid, in_script=False):
    r = rng.random()
    if r < 0.22:
        return ["acq"]
    if r < 0.45:
        return ["run", _fn(rng)]
    if r < 0.68:
        return ["relself"] if in_script and rng.random() < 0.5 else ["rel", rng.randrange(nid + 1)]
    if r < 0.82:
        return ["cancel", rng.randrange(nid + 2)]
    return ["fire", rng.randrange(nid + 1), rng.random() < 0.7, rng.randrange(100)]


def _count_ids(ops):
    n = 0
    for o in ops:
        if o[0] in ("acq", "run", "acqthen", "runthen"):
            n += 1
        if o[0] in ("acqthen", "runthen"):
            n += sum(1 for x in _scripts(o) if x[0] in ("acq", "run"))
    return n


def _random_history(rng, n):
    ops = []
    for _ in range(n):
        nid = _count_ids(ops)
        r = rng.random()
        if r < 0.15:
            ops.append(["acqthen", [_sop(rng, nid + 1, True) for _ in range(rng.randrange(0, 4))],
                        [_sop(rng, nid + 1, True) for _ in range(rng.randrange(0, 3))]])
        elif r < 0.3:
            ops.append(["runthen", [_sop(rng, nid + 1, True) for _ in range(rng.randrange(1, 4))], _fn(rng)])
        else:
            ops.append(_sop(rng, nid))
    return ops


ALPHA = [["acq"], ["run", ["ret", 7]], ["run", ["raise"]], ["run", ["raisebase"]], ["run", ["defer"]], ["run", ["chain"]], ["rel", 0], ["rel", 1], ["rel", 2],
         ["cancel", 0], ["cancel", 1], ["cancel", 2], ["fire", 0, True, 5], ["fire", 1, False, 0], ["fire", 2, True, 6],
         ["acqthen", [["relself"]]], ["acqthen", [], [["rel", 0]]], ["runthen", [["acq"], ["cancel", 1]], ["ret", 3]]]


def gen(rng, tier):
    cases = []
    kinds = [("lock", 1), ("sem", 1), ("sem", 2), ("sem", 3)]
    depth = 3 if tier == "quick" else 4
    for kind, limit in kinds:
        for n in range(1, depth + 1):
            for word in itertools.product(range(len(ALPHA)), repeat=n):
                if n == depth and rng.random() > (0.03 if tier == "quick" else 0.2):
                    continue
                cases.append({"kind": kind, "limit": limit, "ops": [ALPHA[a] for a in word]})
    for _ in range(200 if tier == "quick" else 6000):
        kind, limit = rng.choice(kinds + [("sem", 5)])
        cases.append({"kind": kind, "limit": limit, "ops": _random_history(rng, rng.randrange(6, 50))})
    # cancelled waiters with re-entrant errbacks: the primitive fully held, a queue of pending acquisitions whose errbacks
    # release for a current holder / acquire / cancel another waiter, then some of them (often the oldest) cancelled
    for _ in range(60 if tier == "quick" else 1500):
        kind, limit = rng.choice(kinds)
        ops = [["acq"] for _ in range(limit)]
        nw = rng.randrange(2, 5)
        for w in range(nw):
            esc = [rng.choice([["rel", rng.randrange(limit)], ["acq"], ["cancel", limit + rng.randrange(nw)],
                               ["run", _fn(rng)]]) for _ in range(rng.randrange(0, 3))]
            ops.append(["acqthen", [["relself"]] if rng.random() < 0.5 else [], esc])
        for _ in range(rng.randrange(1, 4)):
            r = rng.random()
            ops.append(["cancel", limit if r < 0.5 else limit + rng.randrange(nw)] if r < 0.8 else ["rel", rng.randrange(limit)])
        cases.append({"kind": kind, "limit": limit, "ops": ops})
    # bursts: a holder, then many run() calls queue up behind it, then the holder releases (the whole queue is
    # served from inside that one release() call)
    for b in range(8 if tier == "quick" else 60):
        kind, limit = rng.choice(kinds)
        n = rng.choice([3, 10, 30, 50]) if b % 4 else [250, 100, 400][(b // 4) % 3]
        ops = [["acq"] for _ in range(limit)]
        ops += [["run", ["ret", k] if rng.random() < 0.8 else ["raise"]] for k in range(n)]
        ops += [["rel", 0]]
        cases.append({"kind": kind, "limit": limit, "ops": ops})
    return cases


def corpus():
    return [
        # known finding run-cascade-recursion-limit: 200 synchronous run() calls queued behind one holder
        {"kind": "lock", "limit": 1, "ops": [["acq"]] + [["run", ["ret", k]] for k in range(200)] + [["rel", 0]]},
        {"kind": "lock", "limit": 1, "ops": [["acq"], ["run", ["ret", 1]], ["acqthen", [["relself"]]], ["run", ["defer"]],
                                              ["cancel", 1], ["rel", 0], ["fire", 3, True, 9]]},
        {"kind": "sem", "limit": 2, "ops": [["run", ["defer"]], ["run", ["defer"]], ["run", ["ret", 4]], ["acq"],
                                             ["cancel", 0], ["fire", 0, True, 1], ["fire", 1, False, 0], ["rel", 3]]},
        {"kind": "sem", "limit": 1, "ops": [["runthen", [["acq"], ["run", ["ret", 2]], ["cancel", 1]], ["raise"]],
                                             ["rel", 1]]},
        # the function returns an already-fired Deferred whose chain is suspended: release only when it delivers
        {"kind": "sem", "limit": 2, "ops": [["acq"], ["run", ["chain"]], ["acq"], ["run", ["chain"]], ["fire", 1, True, 5],
                                             ["cancel", 3], ["rel", 0], ["fire", 3, False, 0]]},
        {"kind": "lock", "limit": 1, "ops": [["run", ["chain"]], ["acq"], ["fire", 0, False, 0], ["rel", 1]]},
        # the oldest pending acquisition is cancelled and its errback, re-entrantly, releases for the current holder
        {"kind": "lock", "limit": 1, "ops": [["acq"], ["acqthen", [], [["rel", 0]]], ["acq"], ["cancel", 1]]},
        {"kind": "sem", "limit": 2, "ops": [["acq"], ["acq"], ["acqthen", [["relself"]], [["rel", 1], ["acq"], ["cancel", 3]]],
                                             ["acq"], ["run", ["ret", 5]], ["cancel", 2], ["rel", 0]]},
        # keyword arguments for f whose names collide with parameter names used inside defer.py
        {"kind": "lock", "limit": 1, "ops": [["run", ["ret", 1, "kw:callback"]], ["acq"], ["run", ["defer", "kw:errback"]],
                                              ["run", ["raise", "kw:callbackArgs"]], ["rel", 1], ["fire", 2, True, 3]]},
        # every kind of function outcome must give the token back: BaseException-only, fired/failed Deferred, coroutine
        {"kind": "lock", "limit": 1, "ops": [["run", ["raisebase"]], ["run", ["faild"]], ["run", ["coraise"]], ["run", ["retd", 4]],
                                              ["run", ["coret", 5]], ["acq"]]},
        {"kind": "sem", "limit": 2, "ops": [["acq"], ["run", ["defer"]], ["run", ["raisebase"]], ["runthen", [["acq"]], ["raisebase"]],
                                             ["fire", 1, True, 3], ["rel", 0]]},
    ]


def _fn_coq(f):
    k = f[0]
    return (f"(FRet ({f[1]})%Z)" if k in ("ret", "retd", "coret") else "FRaise" if k in ("raise", "faild", "coraise")
            else "FRaiseBase" if k == "raisebase" else "FDefer" if k == "defer" else "FChain")


def _sop_coq(o):
    k = o[0]
    if k == "acq":
        return "SAcq"
    if k == "run":
        return f"(SRun {_fn_coq(o[1])})"
    if k == "rel":
        return f"(SRel {o[1]})"
    if k == "relself":
        return "SRelSelf"
    if k == "cancel":
        return f"(SCancel {o[1]})"
    if k == "fire":
        return f"(SFire {o[1]} {'true' if o[2] else 'false'} ({o[3]})%Z)"
    raise ValueError(o)


def _weight(o):
    if o[0] == "acqthen":
        return 1 + sum(3 for _ in _scripts(o))
    if o[0] == "runthen":
        return 3 + sum(3 for _ in o[1])
    return 3


def to_coq(case):
    if len(case["ops"]) > 450:
        return None
    ops = []
    for o in case["ops"]:
        if o[0] == "acqthen":
            ops.append(f"AcqThen {coq_list(map(_sop_coq, o[1]), 'sop')} "
                       f"{coq_list(map(_sop_coq, o[2] if len(o) > 2 else []), 'sop')}")
        elif o[0] == "runthen":
            ops.append(f"RunThen {coq_list(map(_sop_coq, o[1]), 'sop')} {_fn_coq(o[2])}")
        else:
            ops.append(f"Simple {_sop_coq(o)}")
    limit = 1 if case["kind"] == "lock" else case["limit"]
    fuel = sum(_weight(o) for o in case["ops"]) + 1      # >= Model.measure (theorem exec_completes)
    return f"({limit}%nat, {fuel}%nat, {coq_list(ops, 'op')})"


def model_equal(case, a, b):
    if a == b:
        return True
    # inside the known-finding class either the recorded defective behaviour or the model's is accepted
    return cascade_depth(case) > DEEP and a.startswith("RECURSION")


def shrink(case):
    ops = case["ops"]
    for i in range(len(ops)):
        yield {**case, "ops": ops[:i] + ops[i + 1:]}
    for i, o in enumerate(ops):
        if o[0] in ("acqthen", "runthen"):
            for slot in ((1, 2) if o[0] == "acqthen" and len(o) > 2 else (1,)):
                for j in range(len(o[slot])):
                    o2 = list(o)
                    o2[slot] = o[slot][:j] + o[slot][j + 1:]
                    yield {**case, "ops": ops[:i] + [o2] + ops[i + 1:]}


def histogram(c, o):
    n = len(c["ops"])
    return f"{c['kind']}{c['limit']} len=" + ("1-4" if n <= 4 else "5-20" if n <= 20 else "21-60" if n <= 60 else ">60")


SPEC = Spec(
    pid="C06",
    gen=gen, impl=impl, oracle=oracle, corpus=corpus, shrink=shrink,
    coq_header="From C06 Require Import Model Run.",
    coq_fn="run_show",
    to_coq=to_coq,
    model_equal=model_equal,
    nontrivial=lambda c, o: sum(1 for t in ("W", "C", "R", "L") if t in o) >= 2,
    histogram=histogram,
    rule="every history of length <= 3 (quick; length 3 sampled 3%) / <= 4 (thorough; length 4 sampled 20%) over a "
         "18-letter alphabet (acquire, run with returning/raising/unfired-Deferred-returning/already-fired-but-suspended-"
         "Deferred-returning function, function raising a BaseException that is not an Exception, release by holder "
         "0-2, cancel 0-2, fire 0-2, acquire-then-release-in-callback, acquire whose errback (run when it is cancelled while pending) releases for holder 0, run whose function re-enters the primitive) "
         "for DeferredLock and DeferredSemaphore(1..3); random histories of 6-50 ops (limits up to 5) in which 30% "
         "of the ops carry re-entrant scripts; bursts of 3-400 run() calls queued behind a holder; non-trivial = at "
         "least two of {wait, cancel, run result, release} occur; distinct by (case, observation)",
    trusted=["hand-written model coq/C06/Model.v (tied by this correspondence run only); DeferredLock is tied to the "
             "limit-1 instance of the semaphore model with locked read as tokens = 0",
             "the harness subclasses the primitive to record entry into the public release() method; callbacks are "
             "the scripted ones of the case",
             "scripts are one level deep (an acquisition made inside a script has recording callbacks only)"],
    assumptions=["Deferred firing/cancellation behaves as in C01/C03 (callbacks run synchronously in order; a fired "
                 "Deferred ignores cancel unless it is waiting on another Deferred, to which cancel is forwarded)"],
)
