"""C55 — log formatting never raises.

T-tie: coq/C55/Gen.v (exception skeletons) is regenerated from logger/_format.py, _flatten.py and
python/log.py on every run by translate/c55.py; the theorems are `checker = true` + checker soundness.

Correspondence (validates the extractor and its whitelist against CPython): every case is a hostile
event run through the REAL functions under ``sys.settrace``.  The tracer records, for the listed
functions only, (a) every exception that *originates* at one of their MayRaise / raise sites (exact
source span, from ``co_positions``) with its kind (Exception / KeyboardInterrupt / other BaseException),
and (b) every ``except`` body entered.  The model (``runs`` in Model.v, proved to produce only ``exec``
behaviours) is given the same raising sites and must admit the same outcome and handler sequence.  An
exception that originates at a site the extractor classified ``Total`` is reported as an anomaly.

Oracle (independent of the model): the call returned a ``str`` (``None`` allowed where documented).
"""
from __future__ import annotations

import json
import sys

from harness.common import COQ, REPO, Failure, Spec, coq_list, stable_hash
from translate import c55 as tr

# ------------------------------------------------------------------------------------------------
# hostile value universe (JSON descriptions -> real objects)

EXC_NAMES = ["ValueError", "TypeError", "KeyError", "AttributeError", "MemoryError", "StopIteration",
             "KeyboardInterrupt", "SystemExit", "GeneratorExit", "CustomBase", "EvilExc", "EvilBase",
             "KeyErrorBare", "KeyErrorEvilKey", "IndexErrorBare"]


class CustomBase(BaseException):
    pass


class EvilExc(Exception):
    def __str__(self):
        raise ValueError("str of exception")

    def __repr__(self):
        raise ValueError("repr of exception")


class EvilBase(BaseException):
    def __str__(self):
        raise KeyboardInterrupt("str of base exception")

    def __repr__(self):
        raise CustomBase("repr of base exception")


class _EvilKey:
    def __repr__(self):
        raise CustomBase("repr of key")

    def __str__(self):
        raise ValueError("str of key")


def make_exc(name: str) -> BaseException:
    if name == "KeyErrorBare":
        return KeyError()                    # no args at all
    if name == "IndexErrorBare":
        return IndexError()
    if name == "KeyErrorEvilKey":
        return KeyError(_EvilKey())          # the missing key's own repr / str raise
    cls = {"CustomBase": CustomBase, "EvilExc": EvilExc, "EvilBase": EvilBase}.get(name)
    if cls is None:
        import builtins
        cls = getattr(builtins, name)
    return cls("hostile")


class Hostile:
    """object whose str / repr / format / getattr / getitem / call / bool follow a script"""

    def __init__(self, spec):
        object.__setattr__(self, "_spec", spec)

    def _do(self, hook, default):
        beh = self._spec.get(hook)
        if beh is None:
            return default()
        if isinstance(beh, str) and beh.startswith("raise:"):
            raise make_exc(beh[6:])
        if beh == "nontext":
            return 5
        if beh == "bytes":
            return b"bytes"
        if beh == "ok":
            return default()
        return build(beh)

    def __str__(self):
        return self._do("str", lambda: "hostile")

    def __repr__(self):
        return self._do("repr", lambda: "<hostile>")

    def __format__(self, spec):
        return self._do("format", lambda: format(str(self), spec))

    def __bool__(self):
        return self._do("bool", lambda: True)

    def __call__(self):
        return self._do("call", lambda: "called")

    def __getattr__(self, name):
        if name.startswith("__"):
            raise AttributeError(name)
        attrs = self._spec.get("attrs") or {}
        if name in attrs:
            return build(attrs[name])

        def dflt():
            raise AttributeError(name)
        return self._do("getattr", dflt)

    def __getitem__(self, key):
        items = self._spec.get("items") or {}
        if str(key) in items:
            return build(items[str(key)])

        def dflt():
            raise KeyError(key)
        return self._do("getitem", dflt)


class HostileLen:
    """object without __bool__ whose truth value goes through a scripted __len__"""

    def __init__(self, spec):
        self._spec = spec

    def __len__(self):
        beh = self._spec.get("len", "ok")
        if beh.startswith("raise:"):
            raise make_exc(beh[6:])
        return {"nontext": "x", "neg": -1}.get(beh, 1)

    def getTraceback(self, *a, **k):
        return "Traceback: hostile-len\n"


class FakeFailure:
    def __init__(self, spec):
        self._spec = spec

    def getTraceback(self, *a, **k):
        beh = self._spec["tb"]
        if beh.startswith("raise:"):
            raise make_exc(beh[6:])
        return {"nontext": 5, "bytes": b"tb", "none": None}.get(beh, "Traceback: fake\n")


def build(v):
    t = v["t"]
    if t == "none":
        return None
    if t in ("int", "str", "bool"):
        return v["v"]
    if t == "float":
        return float(v["v"])
    if t == "bytes":
        return bytes.fromhex(v["v"])
    if t == "list":
        return [build(x) for x in v["v"]]
    if t == "dict":
        return {k: build(x) for k, x in v["v"].items()}
    if t == "hostile":
        return Hostile(v)
    if t == "level":
        from twisted.logger import LogLevel
        return LogLevel.lookupByName(v["v"])
    if t == "failure":
        from twisted.python.failure import Failure as TFailure
        try:
            raise make_exc(v["v"])
        except BaseException:
            return TFailure()
    if t == "fakefailure":
        return FakeFailure(v)
    if t == "hostlen":
        return HostileLen(v)
    if t == "flatten":      # marker: replaced by a real flattenEvent result in impl
        return None
    raise ValueError(t)


# ------------------------------------------------------------------------------------------------
# tracing the real functions

_STATE = {}


def _setup():
    """extract the skeleton of the tree under test and map code objects to its sites"""
    if _STATE:
        return _STATE
    ex = tr.extract(REPO)
    import twisted.logger._format as F
    import twisted.logger._flatten as FL
    import twisted.python.log as L
    mods = {"twisted/logger/_format.py": F, "twisted/logger/_flatten.py": FL, "twisted/python/log.py": L}
    codes = {}
    for f in ex.funcs.values():
        fn = getattr(mods[f.module], f.node.name)
        codes[fn.__code__] = f
    spans, hlines = {}, {}
    for s in ex.sites:
        if s.kind == "handler":
            hlines[(s.func, s.span[0])] = s.id
        else:
            spans.setdefault((s.func, s.span), []).append(s)
    _STATE.update(ex=ex, codes=codes, spans=spans, hlines=hlines, F=F, FL=FL, L=L,
                  pos={c: list(c.co_positions()) for c in codes})
    return _STATE


def _kind(tp) -> str:
    return "K" if issubclass(tp, KeyboardInterrupt) else ("E" if issubclass(tp, Exception) else "B")


def _find_site(st, f, span):
    cands = st["spans"].get((f.name, span))
    if cands:
        # several sites may share a span (argument of a call = the call ...): prefer the raising kinds
        for pref in ("may", "raise", "reraise", "call", "total", "badreturn"):
            for s in cands:
                if s.kind == pref:
                    return s
    best = None
    l, c, el, ec = span
    for (fname, sp), ss in st["spans"].items():
        if fname != f.name:
            continue
        if (sp[0], sp[1]) <= (l, c) and (el, ec) <= (sp[2], sp[3]):
            size = (sp[2] - sp[0], sp[3] - sp[1] if sp[2] == sp[0] else 10 ** 6)
            if best is None or size < best[0]:
                best = (size, ss)
    if best:
        for pref in ("may", "raise", "reraise", "call", "total", "badreturn"):
            for s in best[1]:
                if s.kind == pref:
                    return s
    return None


def trace_call(fn, *args, **kwargs):
    """-> (outcome string, script [(site, kind)], handlers [site], anomalies [str])"""
    st = _setup()
    script, handlers, anomalies = [], [], []
    origin = ["?"]     # where the most recent exception entered the listed functions (for failure tags)

    def local(frame, event, arg):
        f = st["codes"][frame.f_code]
        if event == "line":
            hid = st["hlines"].get((f.name, frame.f_lineno))
            if hid is not None:
                handlers.append(hid)
        elif event == "exception":
            tp, val, _ = arg
            p = st["pos"][frame.f_code][frame.f_lasti // 2]
            span = (p[0], p[2], p[1], p[3])
            site = _find_site(st, f, span)
            if site is None or site.kind != "call":
                origin[0] = f"{f.name}:{site.text[:40] if site else span}"
            if site is None:
                anomalies.append(f"unknown-site:{f.name}:{span}")
            elif site.kind in ("may", "raise", "reraise", "badreturn"):
                script.append((site.id, _kind(tp)))
            elif site.kind == "total":
                anomalies.append(f"total-raised:{site.id}:{f.name}:{site.text[:30]}")
            # kind == call: the callee's own events account for it
        return local

    def glob(frame, event, arg):
        if event == "call" and frame.f_code in st["codes"]:
            return local
        return None

    old = sys.gettrace()
    sys.settrace(glob)
    try:
        try:
            r = fn(*args, **kwargs)
            out = "ret:str" if isinstance(r, str) else ("ret:None" if r is None else "ret:other:" + type(r).__name__)
        except BaseException as e:       # the property's subject: any escape is recorded, not propagated
            out = "raise:" + _kind(type(e))
    finally:
        sys.settrace(old)
    _ORIGIN[0] = origin[0]
    return out, script, handlers, anomalies


ENTRIES = ["formatEvent", "eventAsText", "formatEventAsClassicLogText", "_formatEvent",
           "formatUnformattableEvent", "log._safeFormat"]


def _custom_format_time(beh):
    def ft(when):
        if beh.startswith("raise:"):
            raise make_exc(beh[6:])
        return {"nontext": 5, "none": None}.get(beh, "TIME")
    return ft


def impl(case) -> str:
    st = _setup()
    F, FL, L = st["F"], st["FL"], st["L"]
    event = {k: build(v) for k, v in case["event"].items()}
    if case.get("flatten"):
        try:
            FL.flattenEvent(event)       # benign pre-flattening (may itself fail on hostile values: ignored)
        except BaseException:
            pass
    entry = case["entry"]
    if entry == "formatEvent":
        res = trace_call(F.formatEvent, event)
    elif entry == "eventAsText":
        kw = dict(case.get("flags") or {})
        if case.get("ft"):
            kw["formatTime"] = _custom_format_time(case["ft"])
        res = trace_call(F.eventAsText, event, **kw)
    elif entry == "formatEventAsClassicLogText":
        kw = {}
        if case.get("ft"):
            kw["formatTime"] = _custom_format_time(case["ft"])
        res = trace_call(F.formatEventAsClassicLogText, event, **kw)
    elif entry == "_formatEvent":
        res = trace_call(F._formatEvent, event)
    elif entry == "formatUnformattableEvent":
        res = trace_call(F.formatUnformattableEvent, event, make_exc(case.get("error", "ValueError")))
    elif entry == "log._safeFormat":
        res = trace_call(L._safeFormat, event.get("log_format"), event)
    else:
        raise ValueError(entry)
    out, script, handlers, anomalies = res
    _SCRIPTS[stable_hash(case)] = script
    s = out + "|" + ",".join(map(str, handlers)) + "|" + ",".join(f"{i}:{k}" for i, k in script)
    if out.startswith("raise"):
        s += "|from " + _ORIGIN[0].replace("|", "/").replace('"', "'")
    if anomalies:
        s = "ANOMALY[" + ";".join(anomalies).replace("|", "/") + "]@@" + s
    return s


_SCRIPTS: dict = {}
_ORIGIN = ["?"]


def _parse(obs):
    if obs.startswith("ANOMALY["):
        return None
    out, hs, sc = obs.split("|")[:3]
    script = [(int(x.split(":")[0]), x.split(":")[1]) for x in sc.split(",") if x]
    return out, hs, script


def to_coq(case):
    st = _setup()
    ex = st["ex"]
    h = stable_hash(case)
    if h not in _SCRIPTS:
        impl(case)
    script = _SCRIPTS[h]
    name = {"log._safeFormat": "log__safeFormat"}.get(case["entry"], case["entry"])
    fid = ex.funcs[name].fid
    fl = []
    if case["entry"] == "eventAsText":
        for k, v in (case.get("flags") or {}).items():
            fl.append(f"({ex.flag_ids[k]}%N, {'true' if v else 'false'})")
    elif case["entry"] == "formatEvent":
        fl = []
    kinds = {"E": "KExc", "K": "KKbd", "B": "KBase"}
    sc = coq_list([f"({i}%N, {kinds[k]})" for i, k in script], "(N * kind)")
    return f"({fid}%N, {coq_list(fl, '(N * bool)')}, {sc})"


def model_equal(case, impl_obs, model_out):
    p = _parse(impl_obs)
    if p is None:
        return False
    out, hs, _ = p
    o = "ret" if out.startswith("ret") else out
    return (o + "|" + hs) in model_out.split(";")


def oracle(case, obs):
    """The property: the call returned text (None where the API documents it) and did not raise."""
    st = _setup()
    body = obs.split("]@@", 1)[1] if obs.startswith("ANOMALY[") else obs
    parts = body.split("|")
    out = parts[0]
    entry = case["entry"]
    if out == "ret:str":
        return None
    if out == "ret:None" and entry == "formatEventAsClassicLogText":
        return None
    if entry == "log._safeFormat":
        # legacy %-formatting helper: re-raises KeyboardInterrupt on purpose, bytes % dict is bytes
        if out == "raise:K" or out.startswith("ret:other:bytes"):
            return None
    if out.startswith("raise"):
        where = parts[3][5:] if len(parts) > 3 else "?"
        return Failure(case, f"{entry} raised ({out}); the exception left through {where}",
                       f"escape:{where}:{out[6:]}")
    return Failure(case, f"{entry} returned a non-text value ({out})", f"nontext:{entry}:{out}")


# ------------------------------------------------------------------------------------------------
# generator

def V(t, v=None, **kw):
    d = {"t": t}
    if v is not None:
        d["v"] = v
    d.update(kw)
    return d


BENIGN = [V("int", 5), V("str", "text"), V("str", "uni\u00e9\u4e2d"), V("bytes", "ff00"), V("none"), V("float", "1.5"),
          V("list", [V("int", 1), V("str", "a")]), V("dict", {"k": V("int", 1)}), V("bool", True)]


def rand_beh(rng, allow_value=True):
    k = rng.random()
    if k < 0.45:
        return "raise:" + rng.choice(EXC_NAMES)
    if k < 0.6:
        return "nontext"
    if k < 0.65:
        return "bytes"
    if k < 0.8 or not allow_value:
        return "ok"
    return rng.choice(BENIGN)


def rand_hostile(rng, depth=0):
    spec = {"t": "hostile"}
    for hook in ("str", "repr", "format", "call", "getattr", "getitem", "bool"):
        if rng.random() < 0.45:
            spec[hook] = rand_beh(rng, allow_value=hook in ("call", "getattr", "getitem"))
    if rng.random() < 0.4 and depth < 2:
        spec["attrs"] = {"a": rand_value(rng, depth + 1), "b": rand_value(rng, depth + 1)}
    if rng.random() < 0.3 and depth < 2:
        spec["items"] = {"0": rand_value(rng, depth + 1), "k": rand_value(rng, depth + 1)}
    return spec


def rand_value(rng, depth=0):
    k = rng.random()
    if k < 0.35:
        return rng.choice(BENIGN)
    if k < 0.85:
        return rand_hostile(rng, depth)
    if k < 0.92 and depth < 2:
        return V("list", [rand_value(rng, depth + 1) for _ in range(rng.randrange(3))])
    if depth < 2:
        return V("dict", {"k": rand_value(rng, depth + 1)})
    return V("int", 0)


FIELDS = ["x", "y", "obj"]
MALFORMED = ["{", "}", "{x", "x}", "{x!}", "{x!q}", "{0}", "{}", "{x.}", "{x[}", "{!r}", "{x:{", "{x:{y}}",
             "{x!r:>{y}}", "{{x}", "{x}}", "{x..a}", "{x[0]]}", "{x()()}", "{()}", "{x.a()}", "{x[k]()}",
             "{x:%Y}", "{x:\u00e9>10}", "{log_format}", "{log_flattened}", "{x:{x:{x}}}", "%(x)s", "%(x)d %s", "%"]


def rand_field(rng):
    f = rng.choice(FIELDS)
    for _ in range(rng.randrange(3)):
        f += rng.choice([".a", ".b", "[0]", "[k]", ".missing", "[9]"])
    if rng.random() < 0.25:
        f += "()"
    if rng.random() < 0.35:
        f += "!" + rng.choice(["r", "s", "a", "r", "z"])
    if rng.random() < 0.35:
        f += ":" + rng.choice([">10", "<3", "^7", "d", "x", ".2f", "{y}", "10.3", "", "%H", "s", "\u00e9^5"])
    return "{" + f + "}"


def rand_format(rng):
    k = rng.random()
    if k < 0.12:
        return V("str", rng.choice(MALFORMED))
    if k < 0.17:
        return V("bytes", rng.choice(["7b787d", "ff7b787d", "c3", "", "7b"]))
    if k < 0.22:
        return rng.choice([V("int", 5), V("none"), rand_hostile(rng), V("list", [])])
    parts = []
    for _ in range(rng.randrange(1, 5)):
        parts.append(rng.choice(["", "text ", "{{", "}}", "\n", "\u00e9"]))
        parts.append(rand_field(rng))
    if rng.random() < 0.15:
        parts.append(rng.choice(MALFORMED))
    return V("str", "".join(parts))


TIMES = [V("float", "1e9"), V("none"), V("float", "nan"), V("float", "inf"), V("float", "-1e15"), V("float", "1e300"),
         V("str", "yesterday"), V("int", 10 ** 30), V("int", 0), V("bool", True), V("bytes", "00"),
         V("float", "253402300800"), V("float", "-62135596801"), V("list", [])]
LEVELS = [V("level", "info"), V("level", "critical"), V("none"), V("str", "info"), V("int", 3)]
SYSTEMS = [V("str", "sys"), V("none"), V("bytes", "ff"), V("int", 7), V("str", "")]
NAMESPACES = [V("str", "ns"), V("none"), V("int", 7), V("bytes", "6e")]
FAILURES = [V("failure", "ZeroDivisionError"), V("failure", "EvilExc"), V("failure", "EvilBase"),
            V("failure", "KeyboardInterrupt"), V("int", 5), V("none"), V("str", "not a failure")] + \
           [V("fakefailure", tb=b) for b in ["ok", "nontext", "bytes", "none"] + ["raise:" + e for e in EXC_NAMES]] + \
           [V("hostlen", len=b) for b in ["ok", "nontext", "neg", "raise:ValueError", "raise:KeyboardInterrupt",
                                          "raise:CustomBase"]] + \
           [{"t": "hostile", "bool": "raise:" + e} for e in ("ValueError", "SystemExit", "EvilBase")]


HOSTLEN = [V("hostlen", len=b) for b in ["raise:ValueError", "raise:CustomBase", "nontext", "neg"]]


def pick(rng, pool, hostile_p=0.3):
    if rng.random() < 0.04:
        return rng.choice(HOSTLEN)
    if rng.random() < hostile_p:
        return rand_hostile(rng)
    return rng.choice(pool)


def rand_case(rng):
    ev = {}
    if rng.random() < 0.93:
        ev["log_format"] = rand_format(rng)
    for f in FIELDS:
        if rng.random() < 0.8:
            ev[f] = rand_value(rng)
    if rng.random() < 0.5:
        ev["log_time"] = pick(rng, TIMES)
    if rng.random() < 0.5:
        ev["log_system"] = pick(rng, SYSTEMS, 0.45)
    if rng.random() < 0.5:
        ev["log_level"] = pick(rng, LEVELS)
    if rng.random() < 0.5:
        ev["log_namespace"] = pick(rng, NAMESPACES)
    if rng.random() < 0.4:
        ev["log_failure"] = pick(rng, FAILURES, 0.15)
    if rng.random() < 0.1:
        ev["log_flattened"] = rng.choice([V("int", 5), V("dict", {}), V("dict", {"x!s:": rand_hostile(rng)}),
                                          V("dict", {"x!r:": V("str", "v"), "x!s:": rand_hostile(rng)}), V("none")])
    k = rng.random()
    case = {"event": ev}
    if k < 0.25:
        case["entry"] = "formatEvent"
    elif k < 0.65:
        case["entry"] = "eventAsText"
        case["flags"] = {f: rng.random() < 0.7 for f in ("includeTraceback", "includeTimestamp", "includeSystem")
                         if rng.random() < 0.8}
    elif k < 0.8:
        case["entry"] = "formatEventAsClassicLogText"
    elif k < 0.87:
        case["entry"] = "_formatEvent"
    elif k < 0.93:
        case["entry"] = "formatUnformattableEvent"
        case["error"] = rng.choice(EXC_NAMES)
    else:
        case["entry"] = "log._safeFormat"
        if rng.random() < 0.7:
            ev["log_format"] = V("str", rng.choice(["%(x)s", "%(x)r and %(y)s", "%(x)d", "%(missing)s", "%", "%(x)",
                                                    "plain", "%s %s", "%(obj)s"]))
    if case["entry"] in ("eventAsText", "formatEventAsClassicLogText") and rng.random() < 0.15:
        case["ft"] = rng.choice(["ok", "nontext", "none"] + ["raise:" + e for e in EXC_NAMES])
    if rng.random() < 0.12 and case["entry"] != "log._safeFormat":
        case["flatten"] = True
    return case


def gen(rng, tier):
    n = 1400 if tier == "quick" else 60000
    return [rand_case(rng) for _ in range(n)]


def corpus():
    h = lambda **kw: dict({"t": "hostile"}, **kw)
    base = lambda **ev: {"entry": "eventAsText", "flags": {}, "event": dict({"log_format": V("str", "x")}, **ev)}
    out = [
        base(log_time=V("str", "yesterday")),
        base(log_time=V("float", "nan")),
        base(log_time=V("float", "1e300")),
        base(log_time=V("float", "-1e15")),
        base(log_level=V("str", "info")),
        base(log_namespace=h(format="raise:ValueError")),
        base(log_system=h(str="raise:KeyboardInterrupt")),
        base(log_system=h(str="raise:CustomBase")),
        base(log_system=h(str="raise:ValueError")),
        base(log_failure=V("fakefailure", tb="nontext")),
        base(log_failure=V("fakefailure", tb="raise:EvilExc")),
        base(log_failure=V("fakefailure", tb="raise:EvilBase")),
        base(log_failure=V("failure", "EvilBase")),
        base(log_failure=h(bool="raise:ValueError")),
        base(log_failure=h(bool="raise:SystemExit")),
        base(log_failure=V("hostlen", len="raise:ValueError")),
        base(log_failure=V("hostlen", len="raise:CustomBase")),
        {"entry": "formatEvent", "event": {"log_format": V("str", "{x[k]}"), "x": h(getitem="raise:KeyErrorBare")}},
        {"entry": "formatEvent", "event": {"log_format": V("str", "{x[k]} {x.a}"), "x": h(getitem="raise:KeyErrorEvilKey",
                                                                                         getattr="raise:KeyErrorBare")}},
        {"entry": "formatEventAsClassicLogText", "event": {"log_format": V("str", "{x[0]}"), "x": h(getitem="raise:KeyErrorEvilKey")}},
        {"entry": "formatEventAsClassicLogText", "event": {"log_format": V("str", "x"), "log_time": V("str", "y")}},
        {"entry": "formatEvent", "event": {"log_format": V("str", "{x}"),
                                           "x": h(str="raise:KeyboardInterrupt", repr="raise:SystemExit",
                                                  format="raise:GeneratorExit")}},
        {"entry": "formatEvent", "event": {"log_format": V("str", "{x}"),
                                           "x": h(str="raise:EvilBase", repr="raise:EvilBase", format="raise:EvilBase")}},
        {"entry": "formatEvent", "event": {"log_format": h(repr="raise:EvilExc")}},
        {"entry": "formatEvent", "event": {"log_format": V("bytes", "ff7b787d")}},
        {"entry": "log._safeFormat", "event": {"log_format": V("str", "%(x)s"), "x": h(str="raise:KeyboardInterrupt")}},
        {"entry": "log._safeFormat", "event": {"log_format": V("str", "%(x)s"),
                                               "x": h(str="raise:SystemExit", repr="raise:EvilBase")}},
    ]
    return out


def shrink(case):
    ev = case["event"]
    for k in list(ev):
        c = json.loads(json.dumps(case))
        del c["event"][k]
        yield c
    for k, v in ev.items():
        if v.get("t") == "hostile":
            for hook in ("str", "repr", "format", "call", "getattr", "getitem", "bool", "attrs", "items"):
                if hook in v:
                    c = json.loads(json.dumps(case))
                    del c["event"][k][hook]
                    yield c
        elif v.get("t") in ("list", "dict"):
            c = json.loads(json.dumps(case))
            c["event"][k] = V("int", 0)
            yield c
    if case.get("flags"):
        for f in list(case["flags"]):
            c = json.loads(json.dumps(case))
            del c["flags"][f]
            yield c
    for extra in ("ft", "flatten"):
        if case.get(extra):
            c = json.loads(json.dumps(case))
            del c[extra]
            yield c
    fmt = ev.get("log_format")
    if fmt and fmt.get("t") == "str" and len(fmt["v"]) > 1:
        c = json.loads(json.dumps(case))
        c["event"]["log_format"] = V("str", "x")
        yield c


def hist(case, obs):
    p = (obs.split("]@@", 1)[1] if obs.startswith("ANOMALY[") else obs).split("|")
    n = len([x for x in p[2].split(",") if x])
    return f"{case['entry']}:{'raising-sites=' + str(min(n, 3))}:{'handlers=' + str(min(len([x for x in p[1].split(',') if x]), 3))}"


def nontrivial(case, obs):
    return obs.split("|")[2] != ""      # at least one exception originated inside the formatting path


SPEC = Spec(
    pid="C55",
    gen=gen,
    impl=impl,
    oracle=oracle,
    coq_header="From C55 Require Import Model Gen Run.",
    coq_fn="run_show",
    to_coq=to_coq,
    model_equal=model_equal,
    corpus=corpus,
    regen=lambda: tr.regen(REPO, COQ),
    shrink=shrink,
    nontrivial=nontrivial,
    histogram=hist,
    rule="random events: format strings from a grammar (nested attribute/index/call fields, conversions, specs, "
         "nested specs) plus a malformed list, bytes / non-text formats; values from a hostile-object generator "
         "(str/repr/format/call/getattr/getitem/bool each raising one of 12 exception classes incl. "
         "KeyboardInterrupt/SystemExit/GeneratorExit/BaseException subclasses and exceptions whose own str/repr "
         "raise, or returning non-text); odd log_time/log_system/log_level/log_namespace/log_failure values; "
         "pre-flattened and garbage log_flattened; custom formatTime callables; six entry points, all flag "
         "combinations.  non-trivial = at least one exception originated inside the formatting path",
    trusted=[
        "translate/skeleton.py + translate/c55.py (exception-skeleton extractor; unknown operations default to "
        "MayRaise, unknown statement forms are refused)",
        "the Total whitelist W1-W8 of translate/skeleton.py: constants/locals/cast; is-None tests and truth of "
        "str/bool/None/dict; `k in event`, event.get(const), event.items(), guarded event[const] on the dict event; "
        "+/replace/endswith/join on str-typed values; literal.format(k=str|Failure) with plain {k} fields; "
        "reflect.safe_repr / reflect.safe_str; Failure() inside a handler; -> str return typing.  Validated on every "
        "run: an exception originating at a Total site is reported as an anomaly",
        "exception kinds are abstracted to Exception-subclass / KeyboardInterrupt / other BaseException",
        "sys.settrace 'exception'/'line' events and code.co_positions() (CPython 3.12) locate raising sites",
    ],
    assumptions=[
        "the event is a real dict with text keys, not mutated by the hooks of its values while it is formatted",
        "str()/format() results that are text are plain str (a str subclass overriding operators is outside the "
        "hostile universe)",
        "eventAsText's formatTime argument may be any callable (modelled as MayRaise); resource exhaustion "
        "(RecursionError/MemoryError raised by the interpreter itself at arbitrary points) is not modelled",
    ],
    case_timeout=10.0,
)
