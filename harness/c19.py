"""C19 — HTTP/1.1 server request framing per RFC 9112 (no request smuggling).

H-tie: coq/C19/Model.v ([serve_stream]: request line, header lines with obs-fold, the
Content-Length / Transfer-Encoding decision, body by length or by the C22 chunked decoder, pipelining,
persistence) against a real ``http.HTTPChannel`` on a StringTransport with a recording Request that
answers at once.  Streams are delivered whole (segmentation is C18).  The oracle is a reference
parser written from RFC 9110/9112 (``ref_parse``), plus h11 on well-formed pipelines.

The model is the REPAIRED code (fixes/C19-request-target-octal-slip.patch = finding F4,
fixes/C19-content-length-too-many-digits.patch).  ``Transfer-Encoding: identity`` (finding F4b) is
modelled as the code behaves and listed in known_findings.d/C19.json.

case = {"stream": hex, "cls": str}
"""
from __future__ import annotations

import re

from harness.common import COQ, REPO, Failure, Spec
from harness import c22
from translate import c22 as tr

TOKEN = rb"[!#$%&'*+\-.^_`|~0-9A-Za-z]+"
REQLINE = re.compile(rb"(" + TOKEN + rb") ([\x21-\x7e]+) (HTTP/1\.[01])")
FIELD = re.compile(rb"(" + TOKEN + rb"):(.*)", re.S)
BAD400 = b"HTTP/1.1 400 Bad Request\r\n\r\n"


# ------------------------------------------------------------------------------------------
# implementation driver


def _channel():
    from twisted.internet.testing import StringTransport
    from twisted.web import http

    class Req(http.Request):
        def process(self):
            self.channel.verif_log.append((self.method, self.uri, self.clientproto,
                                           [(k.lower(), list(v)) for k, v in self.requestHeaders.getAllRawHeaders()],
                                           self.content.read()))
            self.setResponseCode(200)
            self.setHeader(b"content-length", b"0")
            self.finish()

    ch = http.HTTPChannel()
    ch.requestFactory = Req
    ch.timeOut = None
    ch.verif_log = []
    t = StringTransport()
    ch.makeConnection(t)
    return ch, t


def _show(reqs, end) -> str:
    out = []
    for m, t, v, hs, body in reqs:
        h = ";".join(k.hex() + "=" + ",".join(x.hex() for x in vs) for k, vs in hs)
        out.append(".".join([m.hex(), t.hex(), v.hex(), h, body.hex()]))
    return "/".join(out) + " " + end


def _run_cuts(stream: bytes, cuts, keep=False) -> str:
    """deliver the stream cut at the given offsets ([] = in one piece).  keep=False: a delivery is skipped once
    the transport is disconnecting (a TCP transport stops reading after loseConnection).  keep=True: the
    transport keeps delivering although it is disconnecting (TLSMemoryBIOProtocol, wrappers, in-memory
    transports do): nothing may be processed after a 400 all the same."""
    ch, t = _channel()
    pos, exc = 0, ""
    for c in list(cuts) + [len(stream)]:
        k = max(c - pos, 0)
        if keep or not t.disconnecting:
            if keep:
                try:
                    ch.dataReceived(stream[pos:pos + k])
                except Exception as e:      # the channel tripping over its own closed transport
                    exc = "!" + type(e).__name__
            else:
                ch.dataReceived(stream[pos:pos + k])
        pos = max(pos, c)
    written = t.value()
    if BAD400 in written:
        end = "B" if (written.endswith(BAD400) and written.count(BAD400) == 1 and t.disconnecting) else "B?"
    elif t.disconnecting:
        end = "C"
    else:
        end = "W"
    return _show(ch.verif_log, end + exc)


def impl(case) -> str:
    """whole-stream result, then one entry per further delivery plan, then per keep-feeding plan ("=" when equal
    to the first)"""
    stream = bytes.fromhex(case["stream"])
    whole = _run_cuts(stream, [])
    rest = [_run_cuts(stream, p) for p in case.get("plans", [])]
    rest += [_run_cuts(stream, p, keep=True) for p in case.get("keep", [])]
    return "|".join([whole] + [("=" if r == whole else r) for r in rest])


# ------------------------------------------------------------------------------------------
# reference parser (RFC 9112 sections 2.2, 3, 5, 6.3, 7.1; RFC 9110 5.5, 5.6.2)


def ref_parse(stream: bytes, lenient_identity=False):
    reqs, pos, = [], 0
    while True:
        # 2.2: ignore at least one empty line received prior to the request-line (exactly one here)
        blank = False
        while True:
            i = stream.find(b"\r\n", pos)
            if i < 0:
                return reqs, "W"
            line = stream[pos:i]
            pos = i + 2
            if line == b"" and not blank:
                blank = True
                continue
            break
        m = REQLINE.fullmatch(line)
        if not m:
            return reqs, "B"
        method, target, version = m.groups()
        # 5: field lines; 5.2: obs-fold = replace by SP
        fields, cur = [], None
        while True:
            i = stream.find(b"\r\n", pos)
            if i < 0:
                return reqs, "W"
            line = stream[pos:i]
            pos = i + 2
            if line[:1] in (b" ", b"\t") and line != b"":
                cur = (cur or b"") + b" " + line.lstrip(b" \t")
                continue
            if cur is not None:
                fields.append(cur)
            if line == b"":
                break
            cur = line
        headers = []
        for f in fields:
            fm = FIELD.fullmatch(f)
            if not fm:
                return reqs, "B"
            value = fm.group(2).strip(b" \t")
            if b"\x00" in value:
                return reqs, "B"
            # 2.2: a bare CR (or LF) inside a value is replaced by SP
            headers.append((fm.group(1).lower(), b" ".join(value.splitlines())))
        # 6.3: body length
        if any(k in (b"content-length", b"transfer-encoding") and (b"\r" in f or b"\n" in f)
               for (k, _), f in zip(headers, fields)):
            return reqs, "B"
        cls = [v for k, v in headers if k == b"content-length"]
        tes = [v for k, v in headers if k == b"transfer-encoding"]
        if lenient_identity:
            tes = [v for v in tes if v.lower() != b"identity"]
        if tes and cls or len(tes) > 1 or len(cls) > 1:
            return reqs, "B"
        body = b""
        if tes:
            if tes[0].lower() != b"chunked":
                return reqs, "B"
            if pos == len(stream):
                return reqs, "W"
            body, end = c22.ref_decode(stream[pos:], 65536)
            if end == "E":
                return reqs, "B"
            if end == "N":
                return reqs, "W"
            pos = len(stream) - len(bytes.fromhex(end[2:]))
        elif cls:
            if not re.fullmatch(rb"[0-9]+", cls[0]) or len(cls[0]) > 4300:
                return reqs, "B"
            n = int(cls[0])
            if len(stream) - pos < n:
                return reqs, "W"
            body = stream[pos:pos + n]
            pos += n
        grouped = []
        for k, v in headers:
            for g in grouped:
                if g[0] == k:
                    g[1].append(v)
                    break
            else:
                grouped.append((k, [v]))
        reqs.append((method, target, version, grouped, body))
        # persistence as twisted decides it (HTTP/1.1 and no "close" among the SP-separated tokens of
        # the first Connection field); response-side behaviour, not part of this property
        conn = [v for k, v in headers if k == b"connection"]
        if version != b"HTTP/1.1" or (conn and b"close" in [x.lower() for x in conn[0].split(b" ")]):
            return reqs, "C"


def _h11_requests(stream: bytes):
    import h11

    conn = h11.Connection(h11.SERVER)
    conn.receive_data(stream)
    out, cur = [], None
    while True:
        ev = conn.next_event()
        if ev is h11.NEED_DATA or ev is h11.PAUSED:
            if ev is h11.PAUSED and conn.our_state is h11.MUST_CLOSE:
                break
            if ev is h11.PAUSED:
                try:
                    conn.send(h11.Response(status_code=200, headers=[(b"content-length", b"0")]))
                    conn.send(h11.EndOfMessage())
                    conn.start_next_cycle()
                except Exception:
                    break
                continue
            break
        if isinstance(ev, h11.Request):
            cur = [ev.method, ev.target, b""]
        elif isinstance(ev, h11.Data):
            cur[2] += bytes(ev.data)
        elif isinstance(ev, h11.EndOfMessage):
            out.append(tuple(cur))
            if conn.our_state is h11.SEND_RESPONSE:
                conn.send(h11.Response(status_code=200, headers=[(b"content-length", b"0")]))
                conn.send(h11.EndOfMessage())
            try:
                conn.start_next_cycle()
            except Exception:
                break
        elif isinstance(ev, h11.ConnectionClosed):
            break
    return out


def oracle(case, obs_all):
    stream = bytes.fromhex(case["stream"])
    obs, *others = obs_all.split("|")
    # C18 (every_history_agrees_with_whole_stream_parser): what is delivered is a function of the
    # concatenated bytes; a delivery plan that gives something else moves a request boundary
    nplans = len(case.get("plans", []))
    for plan, r in zip(case.get("keep", []), others[nplans:]):
        if r != "=" and obs[-1] in "BC":
            # the connection was answered with 400 / closed, the transport kept delivering
            what = "request-delivered" if r.count("/") + (r[0] != " ") > obs.count("/") + (obs[0] != " ") else \
                ("exception" if "!" in r else "bytes-written")
            return Failure(case, f"data delivered after the {'400' if obs[-1] == 'B' else 'close'} is processed (transport "
                                 f"with disconnecting=True that is still fed; cuts {plan[:12]}{'...' if len(plan) > 12 else ''}): "
                                 f"{r[:240]} ; expected (nothing after it): {obs[:200]}", "after-close:" + what)
    for plan, r in zip(list(case.get("plans", [])) + list(case.get("keep", [])), others):
        if r != "=":
            na, nb = r.count("/") + (r[0] != " "), obs.count("/") + (obs[0] != " ")
            kind = f"requests:{nb}->{na}" if na != nb else ("ending" if r[-1] != obs[-1] else "request-content")
            return Failure(case, f"framing depends on segmentation: delivered in pieces cut at {plan[:12]}"
                                 f"{'...' if len(plan) > 12 else ''}: {r[:240]} ; in one piece: {obs[:240]}",
                           "seg:" + kind)
    if "B?" in obs:
        return Failure(case, "400 written but not last / connection not closing", "bad-request-not-final")
    want = _show(*ref_parse(stream))
    if obs != want:
        if obs == _show(*ref_parse(stream, lenient_identity=True)):
            return Failure(case, "Transfer-Encoding: identity accepted (request processed as if the field were "
                                 "absent); RFC 9112 6.1/6.3: unknown transfer coding / TE with CL must be refused",
                           "te-identity-accepted")
        got_n, want_n = obs.count("/") + (obs[0] != " "), want.count("/") + (want[0] != " ")
        tag = "framing"
        if case["cls"].startswith("target-byte"):
            tag = "target-byte-accepted" if got_n > want_n else "target-byte-refused"
        elif got_n > want_n:
            tag = "accepted-but-reference-refuses:" + case["cls"].split(":")[0]
        elif got_n < want_n:
            tag = "refused-but-reference-accepts:" + case["cls"].split(":")[0]
        elif obs[-1] != want[-1]:
            tag = f"ending:{want[-1]}->{obs[-1]}"
        return Failure(case, f"reference parser: {want[:300]} ; implementation: {obs[:300]}", tag)
    if case["cls"] == "valid":
        try:
            hr = _h11_requests(stream)
        except Exception as e:  # h11 refuses something both twisted and the reference accept: not decided here
            return None
        mine = [(m, t, b) for m, t, v, hs, b in ref_parse(stream)[0]]
        if hr != mine[:len(hr)] or (len(hr) != len(mine) and obs.endswith("W")):
            return Failure(case, f"h11 delivers {hr!r}, twisted {mine!r}", "h11-disagrees")
    return None


# ------------------------------------------------------------------------------------------
# generation


def _rb(rng, n, alpha=None):
    return bytes(rng.choice(alpha) if alpha else rng.randrange(256) for _ in range(n))


def _case_name(rng, name: bytes) -> bytes:
    r = rng.random()
    if r < 0.5:
        return name
    if r < 0.7:
        return name.lower()
    if r < 0.85:
        return name.upper()
    return bytes(rng.choice([c, ord(chr(c).swapcase())]) for c in name)


def _ows(rng):
    return rng.choice([b" ", b" ", b"", b"  ", b"\t", b" \t "])


def _chunked(rng, body: bytes) -> bytes:
    out, i = b"", 0
    while i < len(body):
        n = rng.randrange(1, len(body) - i + 1)
        out += b"%x" % n + rng.choice([b"", b"", b";a=b"]) + b"\r\n" + body[i:i + n] + b"\r\n"
        i += n
    return out + b"0\r\n" + rng.choice([b"", b"", b"X-T: v\r\n"]) + b"\r\n"


def _valid_request(rng, last: bool, tricky_body=False) -> bytes:
    method = rng.choice([b"GET", b"GET", b"POST", b"PUT", b"DELETE", b"OPTIONS", b"M-SEARCH", b"x!#$%&'*+-.^_`|~9"])
    target = rng.choice([b"/", b"/a/b?c=d&e=%20", b"*", b"http://h.example/p", b"/~user/[x]{y}|z\\", b"/" + _rb(rng, 5, b"abc/?=")])
    version = b"HTTP/1.1"
    lines = [b"Host:" + _ows(rng) + b"h.example" + _ows(rng)]
    for _ in range(rng.randrange(0, 4)):
        name = b"X-" + _rb(rng, rng.randrange(1, 6), b"abcXYZ09-_")
        val = _rb(rng, rng.randrange(0, 10), b"abc, ;=\"\t\x80\xff")
        if rng.random() < 0.2:
            val += b"\r\n" + rng.choice([b" ", b"\t", b"  \t"]) + _rb(rng, 3, b"xyz ")
        lines.append(name + b":" + _ows(rng) + val)
    if rng.random() < 0.2:
        lines.append(rng.choice([b"X-Dup: 1", b"x-dup: 2"]))
        lines.append(b"X-DUP: 3")
    body, raw = b"", b""
    how = rng.choice(["none", "none", "cl", "cl", "cl0", "chunked", "chunked"])
    if how in ("cl", "chunked"):
        body = _rb(rng, rng.randrange(1, 30), b"abc\r\n :") if not tricky_body else \
            rng.choice([b"GET /evil HTTP/1.1\r\nHost: x\r\n\r\n", b"0\r\n\r\nGET /evil HTTP/1.1\r\n\r\n", b"\r\n\r\n"])
    if how == "cl" or how == "cl0":
        lines.append(_case_name(rng, b"Content-Length") + b":" + _ows(rng) + (b"0" * rng.choice([0, 0, 2])) +
                     b"%d" % len(body) + _ows(rng))
        raw = body
    elif how == "chunked":
        lines.append(_case_name(rng, b"Transfer-Encoding") + b":" + _ows(rng) + _case_name(rng, b"chunked") + _ows(rng))
        raw = _chunked(rng, body)
    if rng.random() < 0.1:
        lines.append(b"Expect: 100-continue")
    if last and rng.random() < 0.4:
        lines.append(b"Connection: " + rng.choice([b"close", b"Close", b"keep-alive close", b"keep-alive"]))
    if last and rng.random() < 0.15:
        version = b"HTTP/1.0"
    rng.shuffle(lines)
    return (b"\r\n" if rng.random() < 0.1 else b"") + method + b" " + target + b" " + version + b"\r\n" + \
        b"\r\n".join(lines) + b"\r\n\r\n" + raw


SENTINEL = b"GET /next HTTP/1.1\r\nHost: n\r\n\r\n"


def gen(rng, tier):
    q = tier == "quick"
    cases = []
    add = lambda s, cls: cases.append({"stream": s.hex(), "cls": cls})
    for _ in range(90 if q else 6000):
        n = rng.choice([1, 1, 2, 3])
        s = b"".join(_valid_request(rng, i == n - 1, tricky_body=rng.random() < 0.2) for i in range(n))
        add(s, "valid")
        if rng.random() < 0.3:
            add(s[:rng.randrange(0, len(s))], "truncated")
    # every byte value in the request-target
    for b in range(256):
        for tmpl in ((b"/a%sb",) if q else (b"/a%sb", b"%s", b"/%s")):
            add(b"GET " + tmpl % bytes([b]) + b" HTTP/1.1\r\nHost: h\r\n\r\n" + SENTINEL, f"target-byte:{b:02x}")
    # request-line syntax
    for line in [b"GET  / HTTP/1.1", b"GET / HTTP/1.1 ", b" GET / HTTP/1.1", b"GET /\tHTTP/1.1", b"GET / HTTP/2.0",
                 b"GET / http/1.1", b"GET / HTTP/1.2", b"GET / HTTP/1.1\r", b"GET /", b"GET", b"", b" / HTTP/1.1",
                 b"G(T / HTTP/1.1", b"G\x00T / HTTP/1.1", b"GET / HTTP/1.10", b"GET /a b HTTP/1.1", b"GET / HTTP/1.0",
                 b"get / HTTP/1.1", b"G:T / HTTP/1.1", b"GET  HTTP/1.1", b"\xc3\xa9 / HTTP/1.1", b"GET / HTTP/1.1\n"]:
        add(line + b"\r\nHost: h\r\n\r\n" + SENTINEL, "request-line")
        add(b"\r\n" + line + b"\r\nHost: h\r\n\r\n" + SENTINEL, "request-line")
        add(b"\r\n\r\n" + line + b"\r\nHost: h\r\n\r\n" + SENTINEL, "request-line")
    # field-line syntax
    for f in [b"NoColon", b"Bad Name: x", b"Name : x", b": x", b"N\x00me: x", b"Name: a\x00b", b"Na(me: x", b"Name:x",
              b"Name:", b"Name: \t ", b"N\xe9: x", b"Name: a\rb", b"Name: caf\xe9", b"Name:: x", b" Name: x", b"\tfold-first: x"]:
        for pre, post in ((b"", b"Host: h\r\n"), (b"Host: h\r\n", b""), (b"A: 1\r\n", b"B: 2\r\n")):
            add(b"GET / HTTP/1.1\r\n" + pre + f + b"\r\n" + post + b"\r\n" + SENTINEL, "field-line")
    # framing headers: every combination of up to two framing fields, with a body and a pipelined request
    cl_vals = [b"3", b"03", b"0", b"+3", b"-3", b"3 3", b"3,3", b"0x3", b"", b"a", b"3.0", b"1_0", b" 3 ", b"\t3", b"3\r\n 3",
               b"\xb3", b"4", b"10", b"3;q=1"]
    te_vals = [b"chunked", b"Chunked", b"CHUNKED", b"identity", b"Identity", b"gzip", b"gzip, chunked", b"chunked, gzip",
               b"chunked,chunked", b"", b"chunked ", b"xchunked", b"chunked;q=1", b"chunked\r\n chunked", b"compress"]
    fields = [(b"Content-Length", v) for v in cl_vals] + [(b"Transfer-Encoding", v) for v in te_vals]
    bodies = [b"abc", b"3\r\nabc\r\n0\r\n\r\n", b"", b"0\r\n\r\n"]
    combos = [[f] for f in fields] + [[f, g] for f in fields for g in fields
                                      if q is False or rng.random() < 0.08]
    for combo in combos:
        hs = b"".join(_case_name(rng, n) + b": " + v + b"\r\n" for n, v in combo)
        body = rng.choice(bodies)
        add(b"POST /f HTTP/1.1\r\nHost: h\r\n" + hs + b"\r\n" + body + SENTINEL, "framing:" + "+".join(
            (n[:1] + b"=" + v).decode("latin1").replace("\r\n", "~") for n, v in combo))
    # a zero-valued Content-Length FIRST, then any other framing field (possibly after an unrelated field), then a third
    zeros = [b"0", b"00", b"000", b" 0 "]
    for z in zeros:
        for n2, v2 in fields:
            mid = rng.choice([b"", b"X-Mid: 1\r\n", b"Host: again\r\n"])
            hs = _case_name(rng, b"Content-Length") + b": " + z + b"\r\n" + mid + _case_name(rng, n2) + b": " + v2 + b"\r\n"
            add(b"POST /z HTTP/1.1\r\nHost: h\r\n" + hs + b"\r\n" + rng.choice(bodies) + SENTINEL,
                "framing:C=" + z.decode() + "+" + (n2[:1] + b"=" + v2).decode("latin1").replace("\r\n", "~"))
        for _ in range(6 if q else 60):
            (n2, v2), (n3, v3) = rng.choice(fields), rng.choice(fields)
            hs = b"Content-Length: " + z + b"\r\n" + n2 + b": " + v2 + b"\r\n" + n3 + b": " + v3 + b"\r\n"
            add(b"POST /z3 HTTP/1.1\r\nHost: h\r\n" + hs + b"\r\n" + rng.choice(bodies) + SENTINEL, "framing:zero-first-triple")
    # chunk-size fields with a non-hex byte at each position, incl. the end of the field, inside pipelines
    for size, data in ((b"3", b"abc"), (b"1a", b"x" * 26), (b"0", b"")):
        for bad in (b"\n", b"\r", b" ", b"\t", b"\x00", b"+", b"-", b"x", b"g", b"_", b"\xff", b"\x0b"):
            for j in range(len(size) + 1):
                for ext in (b"", b";e=1"):
                    sz = size[:j] + bad + size[j:]
                    chunk = sz + ext + b"\r\n" + (data + b"\r\n0\r\n\r\n" if data else b"\r\n")
                    pre = b"GET /p HTTP/1.1\r\nHost: h\r\n\r\n" if rng.random() < 0.5 else b""
                    add(pre + b"POST /c HTTP/1.1\r\nHost: h\r\nTransfer-Encoding: chunked\r\n\r\n" + chunk + SENTINEL,
                        "chunk-size-byte")
    # Content-Length digits around int()'s limit
    for nd in (4299, 4300, 4301, 5000):
        add(b"POST /big HTTP/1.1\r\nContent-Length: " + b"1" * nd + b"\r\n\r\nabc", "cl-digits")
    # malformed chunked bodies
    for bad in [b"g\r\nabc\r\n", b"3\r\nabcXX", b"3;\x00\r\nabc\r\n0\r\n\r\n", b"-3\r\nabc\r\n", b"3\nabc\n0\n\n",
                b"3\r\nabc\r\n0\r\nT: v\r\n\r\n", b"0003\r\nabc\r\n00\r\n\r\n", b"3 \r\nabc\r\n0\r\n\r\n", b" 3\r\nabc\r\n0\r\n\r\n"]:
        add(b"POST /c HTTP/1.1\r\nHost: h\r\nTransfer-Encoding: chunked\r\n\r\n" + bad + SENTINEL, "chunked-body")
    # the same streams cut into deliveries (bounded): byte-wise, a few 2-way and multi-way cuts
    for c in cases:
        n = len(c["stream"]) // 2
        if n < 2 or n > 3000:
            continue
        plans = [sorted(rng.randrange(1, n) for _ in range(rng.randrange(2, 6)))]
        plans += [[rng.randrange(1, n)] for _ in range(4 if q else 8)]
        if n <= 400:
            plans.append(list(range(1, n)))
        c["plans"] = plans
        c["keep"] = [plans[0], [rng.randrange(1, n)]] + ([plans[-1]] if n <= 400 else [])
    # chunk extensions with EVERY byte value, on an ordinary chunk and on the terminating chunk ("0" / "00")
    def chunked(body_bytes):
        return b"POST /x HTTP/1.1\r\nHost: h\r\nTransfer-Encoding: chunked\r\n\r\n" + body_bytes + b"GET /n HTTP/1.1\r\n\r\n"
    special = [0, 1, 8, 9, 10, 11, 12, 13, 31, 32, 34, 59, 61, 92, 127, 128, 255]
    for b in range(256):
        e = b"a" + bytes([b]) + b"b"
        add(chunked(b"1\r\nz\r\n0;" + e + b"\r\n\r\n"), "chunk-ext-last")
        if not q or b in special:
            add(chunked(b"1;" + e + b"\r\nz\r\n0\r\n\r\n"), "chunk-ext")
            add(chunked(b"00;" + bytes([b]) + b"\r\nT: v\r\n\r\n"), "chunk-ext-last")
            add(chunked(b"0;" + bytes([b]) + b"\r\n\r\n"), "chunk-ext-last")
    # EVERY byte value inside the method and inside a field name (start / middle / end): 400 exactly for non-tchar
    delims = sorted(set(list(b"\"(),/:;<=>?@[\\]{} \t") + [0, 127, 128, 255, 10, 13]))
    for b in range(256):
        c = bytes([b])
        for pos, (m, n) in enumerate(((c + b"ET", c + b"-A"), (b"G" + c + b"T", b"X" + c + b"A"), (b"GE" + c, b"X-" + c))):
            if q and pos != 1 and b not in delims:
                continue
            add(m + b" /m HTTP/1.1\r\nHost: h\r\n\r\nGET /n HTTP/1.1\r\n\r\n", "token-byte-method")
            add(b"GET /f HTTP/1.1\r\n" + n + b": v\r\n\r\nGET /n HTTP/1.1\r\n\r\n", "token-byte-name")
    for nm in (b'Content-Length"', b'"Content-Length', b'Transfer-Encoding"', b'Content"-Length'):
        add(b"POST /q HTTP/1.1\r\n" + nm + b": 5\r\n\r\nhelloGET /n HTTP/1.1\r\n\r\n", "token-byte-name")
    # every kind of bad request followed by segments that would complete it / start the next one, delivered
    # line by line, byte-wise and at every 2-way cut to a transport that keeps feeding after loseConnection
    tails = [b"\r\n", b"Host: h\r\n\r\n", b"\r\nabc", b"\r\n\r\n" + SENTINEL, b"3\r\nabc\r\n0\r\n\r\n" + SENTINEL]
    bads = [b"GET  /a HTTP/1.1\r\nHost: h\r\n", b"GET /a HTTP/1.1\r\nBad Header: x\r\nHost: h\r\n",
            b"GET /a HTTP/1.1\r\nHost: h\r\nNoColon\r\n", b"POST /a HTTP/1.1\r\nContent-Length: 3\r\nContent-Length: 3\r\nHost: h\r\n",
            b"POST /a HTTP/1.1\r\nContent-Length: 3\r\nTransfer-Encoding: chunked\r\n",
            b"POST /a HTTP/1.1\r\nTransfer-Encoding: gzip\r\nHost: h\r\n", b"POST /a HTTP/1.1\r\nContent-Length: x\r\n",
            b"POST /a HTTP/1.1\r\nTransfer-Encoding: chunked\r\n\r\ng\r\n", b"POST /a HTTP/1.1\r\nTransfer-Encoding: chunked\r\n\r\n3\r\nabcXX",
            b"GET /a HTTP/1.1\r\nA: a\x00b\r\n", b"GET /\x7f HTTP/1.1\r\n"]
    for bad in bads:
        for tail in tails:
            for pre in (b"", b"GET /ok HTTP/1.1\r\nHost: h\r\n\r\n"):
                s = pre + bad + tail
                lines = [i + 2 for i in range(len(s) - 1) if s[i:i + 2] == b"\r\n" and i + 2 < len(s)]
                keep = [lines, list(range(1, len(s)))] + [[i] for i in range(1, len(s))]
                cases.append({"stream": s.hex(), "cls": "after-400", "plans": [lines], "keep": keep})
    # chunked request followed by a pipelined request: EVERY 2-way cut (in particular inside the last-chunk
    # line and the trailer section) and every pair of cuts inside "last chunk .. end of trailers"
    for last in (b"0\r\n", b"0;x=y\r\n", b"000\r\n", b"0;\r\n"):
        for trailers in (b"", b"T: v\r\n", b"T: v\r\nU: w\r\n"):
            head = b"POST /a HTTP/1.1\r\nHost: h\r\nTransfer-Encoding: chunked\r\n\r\n3\r\nabc\r\n"
            s = head + last + trailers + b"\r\n" + b"GET /b HTTP/1.1\r\nHost: h\r\n\r\n"
            lo, hi = len(head), len(head) + len(last) + len(trailers) + 2
            plans = [[i] for i in range(1, len(s))]
            plans += [[i, j] for i in range(lo, hi + 1) for j in range(i + 1, hi + 2)]
            plans.append(list(range(1, len(s))))
            cases.append({"stream": s.hex(), "cls": "chunked-pipeline", "plans": plans})
    return cases


def corpus():
    mk = lambda s, cls: {"stream": s.hex(), "cls": cls}
    return [
        # F4: 0x7f and 0xb0 accepted in the request-target by the pinned code, 0xb1 refused
        mk(b"GET /\x7f HTTP/1.1\r\nHost: a\r\n\r\n", "target-byte:7f"),
        mk(b"GET /\xb0 HTTP/1.1\r\nHost: a\r\n\r\n", "target-byte:b0"),
        mk(b"GET /\xb1 HTTP/1.1\r\nHost: a\r\n\r\n", "target-byte:b1"),
        # F4b: Transfer-Encoding: identity (alone / with Content-Length)
        mk(b"POST / HTTP/1.1\r\nTransfer-Encoding: identity\r\nContent-Length: 3\r\n\r\nabc" + SENTINEL, "framing:T=identity+C=3"),
        mk(b"POST / HTTP/1.1\r\nTransfer-Encoding: identity\r\n\r\n" + SENTINEL, "framing:T=identity"),
        # Content-Length with more digits than int() converts
        mk(b"POST / HTTP/1.1\r\nContent-Length: " + b"1" * 4400 + b"\r\n\r\nabc", "cl-digits"),
        # classic smuggling vectors
        mk(b"POST / HTTP/1.1\r\nContent-Length: 3\r\nTransfer-Encoding: chunked\r\n\r\n0\r\n\r\nGET /s HTTP/1.1\r\n\r\n", "framing:C=3+T=chunked"),
        mk(b"POST / HTTP/1.1\r\nContent-Length: 3\r\nContent-Length: 4\r\n\r\nabcdGET /s HTTP/1.1\r\n\r\n", "framing:C=3+C=4"),
        mk(b"POST / HTTP/1.1\r\nTransfer-Encoding : chunked\r\n\r\n0\r\n\r\n", "field-line"),
        mk(b"POST / HTTP/1.1\r\nContent-Length: 40\r\n\r\nGET /evil HTTP/1.1\r\nHost: x\r\n\r\n12345678" + SENTINEL, "valid"),
    ]


def coq_stream(b: bytes) -> str:
    if not b:
        return "(@nil N)"
    lit = lambda x: "[" + ";".join(f"x{v:02x}" for v in x) + "]"
    segs, i, cur = [], 0, bytearray()
    while i < len(b):
        j = i
        while j < len(b) and b[j] == b[i]:
            j += 1
        if j - i >= 64:
            if cur:
                segs.append(lit(cur))
                cur = bytearray()
            segs.append(f"(List.repeat x{b[i]:02x} (N.to_nat {j - i}%N))")
        else:
            cur += b[i:j]
        i = j
    if cur:
        segs.append(lit(cur))
    return "(" + " ++ ".join(segs) + ")"


def to_coq(case):
    s = bytes.fromhex(case["stream"])
    if any(len(l) > 16000 for l in s.split(b"\r\n")[:50]) and b"\r\n\r\n" not in s[:16000]:
        return None
    return coq_stream(s)


def shrink(case):
    plans = case.get("plans", [])
    keep = case.get("keep", [])
    if keep and (len(keep) > 1 or plans):
        for p in keep:
            yield {**case, "plans": [], "keep": [p]}
        return
    if len(keep) == 1 and not plans:
        p = keep[0]
        for i in range(len(p)):
            yield {**case, "keep": [p[:i] + p[i + 1:]]}
        return
    if len(plans) > 1:
        for p in plans:
            yield {**case, "plans": [p]}
        return
    if plans:
        p = plans[0]
        for i in range(len(p)):
            yield {**case, "plans": [p[:i] + p[i + 1:]]}
    if plans:
        return
    s = bytes.fromhex(case["stream"])
    for k in (len(SENTINEL), 8, 1):
        for j in range(0, len(s) - k + 1, k):
            yield {**case, "stream": (s[:j] + s[j + k:]).hex()}


SPEC = Spec(
    pid="C19",
    gen=gen, impl=impl, oracle=oracle, corpus=corpus, shrink=shrink,
    coq_header="From C19 Require Import Model Run.",
    coq_fn="run_show",
    to_coq=to_coq,
    regen=lambda: tr.regen(REPO, COQ),      # the model uses C22/Gen.v (_istoken, _ishexdigits tables, limits)
    model_equal=lambda c, a, b: a.split("|")[0] == b,
    nontrivial=lambda c, o: len(c["stream"]) > 40,
    histogram=lambda c, o: (lambda w: c["cls"].split(":")[0] + " -> " + str(w.count("/") + (w[0] != " ")) + w[-1])(o.split("|")[0]),
    case_timeout=20.0,
    rule="[every byte 0-255 in a chunk extension (ordinary and terminating chunk) and inside the method / a field name at "
         "start, middle, end (quick: middle for all bytes, all positions for delimiters and controls)] [keep-feeding: the same plans again, and 110 bad-request streams x 5 completing tails at every cut, delivered to a "
         "transport that still feeds the channel after loseConnection: nothing may be processed after a 400 / close] "
         "each stream delivered in one piece (compared with the model and the RFC reference) and again byte-wise, at "
         "4 random 2-way cuts and one random multi-way cut (all must agree with the one-piece result; sound by C18's "
         "every_history_agrees_with_whole_stream_parser); chunked POST + pipelined GET with 4 last-chunk spellings x 0-2 "
         "trailer lines at EVERY 2-way cut and every pair of cuts inside the last-chunk line / trailer section.  Streams: pipelines of 1-3 well-formed requests (token methods, 6 target forms, OWS and "
         "case variants, obs-fold, duplicate fields, Content-Length / chunked bodies incl. bodies that look like "
         "requests, Expect, Connection, HTTP/1.0) and random prefixes of them; each of the 256 byte values in the "
         "request-target; 22 malformed request lines x 0/1/2 leading blank lines; 16 malformed field lines x 3 "
         "positions; all single framing fields from 19 Content-Length and 15 Transfer-Encoding spellings and a "
         "8% sample (thorough: all) of ordered pairs, each followed by a body and a pipelined request; "
         "a zero Content-Length first, then each framing field / sampled pairs; chunk sizes with each of 12 non-hex bytes at "
         "each position incl. the end of the size field, inside pipelines; Content-Length of 4299-5000 digits; malformed chunked bodies.  non-trivial = stream > 20 bytes",
    trusted=["hand-written model coq/C19/Model.v (tied by this correspondence run); the chunked decoder is the C22 model",
             "reference parser harness/c19.py:ref_parse (RFC 9112 2.2, 3, 5, 6.3; chunked via harness/c22.py:ref_decode) "
             "and Lib/HttpGrammar.v, written from the RFC text; h11 0.16 cross-check on well-formed pipelines",
             "persistence (which requests of a pipeline are read at all) is taken as twisted decides it: HTTP/1.1 and no "
             "'close' among the SP-separated tokens of the first Connection field",
             "StringTransport.disconnecting stops LineReceiver after a 400; the resource answers each request synchronously"],
    assumptions=["lines shorter than LineReceiver.MAX_LENGTH (16384); at most 500 fields / 16384 header bytes per request "
                 "are modelled but not probed at the boundary",
                 "the model is the code with the two C19 fix patches applied"],
)
