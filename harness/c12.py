"""C12 — system event triggers (_ThreePhaseEvent in base.py): H-tie.

case = {"bodies": [body...], "ops": [op...]}
  body (what trigger number i does when called) = {"acts": [["add", ph, id] | ["rm", ph, id]], "fin": "n" | ["d", j] | "r"}
        ph in "b" "d" "a"; "n" returns None, ["d", j] returns Deferred j, "r" raises an Exception, "rb" raises an exception
        that is a BaseException but NOT an Exception (SystemExit / GeneratorExit / a BaseException subclass, by trigger number); ["ds", j] returns Deferred j ALREADY CALLED BACK
        but with its chain suspended on an inner Deferred (succeed(None).addCallback(lambda _: inner_j)) — it delivers only
        when ["fd", j, ok] fires the inner one (if the history fired j earlier, a plain fired Deferred is returned)
  op = ["add", ph, id] | ["rm", ph, id] | ["fire"] | ["fd", j, ok]

Observation: per op "/" then events in order, each followed by ";":  b<i> d<i> a<i> trigger i called in the
before/during/after phase, w = DeprecationWarning from removeTrigger, !V = removeTrigger raised ValueError; then
" |" and the three documented lists (before, during, after) at the end.
"""
from __future__ import annotations

import itertools

from harness.common import Failure, Spec, coq_list

PH = {"b": "before", "d": "during", "a": "after"}
_quiet = [False]


def _silence_log():
    if not _quiet[0]:
        _quiet[0] = True
        try:
            from twisted.logger import globalLogBeginner
            globalLogBeginner.beginLoggingTo([lambda e: None], redirectStandardIO=False, discardBuffer=True)
        except Exception:
            pass


def impl(case) -> str:
    import warnings

    from twisted.internet.base import _ThreePhaseEvent
    from twisted.internet.defer import Deferred
    from twisted.python.failure import Failure as TFailure

    _silence_log()

    class Boom(Exception):
        pass

    class Quit(BaseException):
        pass

    event = _ThreePhaseEvent()
    bodies = case["bodies"]
    evs: list[str] = []
    out: list[str] = []
    defs = {}
    funcs = {}

    inner = {}            # j -> inner Deferred of an already-called, chain-suspended Deferred
    resolved = set()
    curj = []             # Deferred numbers returned by before-triggers of the firing in progress

    def getd(j, kind="d"):
        if j not in defs:
            if kind == "ds" and j not in resolved:
                from twisted.internet.defer import succeed
                inner[j] = Deferred()
                d = succeed(None)
                d.addCallback(lambda _, j=j: inner[j])
                defs[j] = d
            else:
                defs[j] = Deferred()
        return defs[j]

    def func(ph, i):
        if (ph, i) not in funcs:
            def f():
                evs.append(f"{ph}{i}")
                b = bodies[i] if i < len(bodies) else {"acts": [], "fin": "n"}
                for a in b["acts"]:
                    if a[0] == "add":
                        event.addTrigger(PH[a[1]], func(a[1], a[2]))
                    else:
                        event.removeTrigger((PH[a[1]], func(a[1], a[2]), (), {}))
                fin = b["fin"]
                if fin == "r":
                    raise Boom()
                if fin == "rb":
                    raise (SystemExit, GeneratorExit, Quit)[i % 3]()
                if fin == "n":
                    return None
                d = getd(fin[1], fin[0])
                if ph == "b":
                    curj.append(fin[1])
                return d
            funcs[(ph, i)] = f
        return funcs[(ph, i)]

    with warnings.catch_warnings():
        warnings.simplefilter("always")
        warnings.showwarning = lambda *a, **k: evs.append("w")
        for op in case["ops"]:
            evs.clear()
            k = op[0]
            if k == "add":
                event.addTrigger(PH[op[1]], func(op[1], op[2]))
            elif k == "rm":
                try:
                    event.removeTrigger((PH[op[1]], func(op[1], op[2]), (), {}))
                except ValueError:
                    evs.append("!V")
            elif k == "fire":
                if all(j in resolved for j in curj):
                    curj.clear()
                    try:
                        event.fireEvent()
                    except (SystemExit, GeneratorExit, Quit) as e:
                        evs.append("!B" + type(e).__name__)      # an exception of a trigger escaped fireEvent
            elif k == "fd":
                j = op[1]
                d = getd(j)
                if j not in resolved:
                    resolved.add(j)
                    target = inner.get(j, d)
                    try:
                        if op[2]:
                            target.callback(None)
                        else:
                            target.errback(TFailure(Boom()))
                            d.addErrback(lambda f: None)
                    except (SystemExit, GeneratorExit, Quit) as e:
                        evs.append("!B" + type(e).__name__)
            else:
                raise ValueError(op)
            out.append("/" + "".join(e + ";" for e in evs))
    inv = {f: i for (ph, i), f in funcs.items()}

    def lst(l):
        return "[" + ",".join(str(inv[t[0]]) for t in l) + "]"
    for d in defs.values():
        d.addErrback(lambda f: None)
    return "".join(out) + " |" + lst(event.before) + lst(event.during) + lst(event.after)


def _passive(case):
    return all(not b["acts"] for b in case["bodies"])


def oracle(case, obs):
    """Reference reading of the property statement.  Passive triggers: exact expected log.  Triggers that add /
    remove triggers while the event fires: accounting (each registration runs at most once, never without being
    registered; no during/after trigger while a returned Deferred is unfired; during before after)."""
    try:
        body, fin = obs.rsplit(" |", 1)
        groups = [[e for e in g.split(";") if e] for g in body.split("/")[1:]]
    except Exception:
        return Failure(case, "malformed observation", "log")
    ops, bodies = case["ops"], case["bodies"]
    if len(groups) != len(ops):
        return Failure(case, "malformed observation (op count)", "log")
    passive = _passive(case)
    reg = {"b": [], "d": [], "a": []}
    fired, waiting, suspended = set(), [], False
    ran_before = []

    def finof(i):
        return bodies[i]["fin"] if i < len(bodies) else "n"

    in_before = [False]
    for n, (op, es) in enumerate(zip(ops, groups)):
        where = f"op {n} {op} -> {es}: "
        k = op[0]
        if any(e.startswith("!B") for e in es):
            return Failure(case, where + "an exception raised by a trigger escaped the firing of the event; the triggers after it "
                           "did not run", "trigger-exception-escaped-firing")
        if passive:
            want = []
            if k == "add":
                reg[op[1]].append(op[2])
            elif k == "rm":
                ph, i = op[1], op[2]
                if ph == "b" and suspended and i in ran_before:
                    want = ["w"]
                elif i in reg[ph]:
                    reg[ph].remove(i)
                else:
                    want = ["!V"]
            elif k == "fire":
                if not suspended:
                    ran_before = list(reg["b"])
                    want = [f"b{i}" for i in reg["b"]]
                    waiting = [finof(i)[1] for i in reg["b"] if finof(i) not in ("n", "r", "rb") and finof(i)[1] not in fired]
                    reg["b"] = []
                    suspended = True
            elif k == "fd":
                fired.add(op[1])
                waiting = [j for j in waiting if j != op[1]]
            if suspended and not waiting and k in ("fire", "fd"):
                want += [f"d{i}" for i in reg["d"]] + [f"a{i}" for i in reg["a"]]
                reg["d"], reg["a"] = [], []
                suspended, ran_before = False, []
            if es != want:
                cls = ("remove" if k == "rm" else "fire-before" if k == "fire" and es[:len([w for w in want if w[0] == 'b'])] != [w for w in want if w[0] == 'b']
                       else "during-after-order-or-wait")
                return Failure(case, where + f"expected {want}", "passive-" + cls)
        else:
            # accounting only
            if k == "add":
                reg[op[1]].append(op[2])
            elif k == "rm":
                if "!V" not in es and "w" not in es:
                    if op[2] not in reg[op[1]]:
                        return Failure(case, where + "removed a trigger that is not registered without an error", "remove-unregistered")
                    reg[op[1]].remove(op[2])
            elif k == "fd":
                fired.add(op[1])
            phase_rank = {"b": 0, "d": 1, "a": 2}
            last = -1
            firing_now = k == "fire" and not suspended
            if firing_now:
                ran_before, in_before[0] = [], True
            for e in es:
                if e[0] in "bda" and e[1:].isdigit():
                    ph, i = e[0], int(e[1:])
                    if i not in reg[ph]:
                        return Failure(case, where + f"trigger {e} ran without being registered (or twice)", "run-unregistered")
                    if reg[ph][0] != i:
                        return Failure(case, where + f"{e} ran while trigger {reg[ph][0]} of the same phase, registered earlier "
                                       f"(pending, in registration order: {reg[ph]}), had not run — triggers of a phase run in "
                                       "registration order, including those registered while that phase is firing",
                                       "phase-registration-order")
                    reg[ph].remove(i)
                    if ph == "b":
                        ran_before.append(i)
                    else:
                        if firing_now and in_before[0] and reg["b"]:
                            return Failure(case, where + f"{e} ran although before-trigger(s) {reg['b']} — registered before the "
                                           "firing or by a before-trigger during the before phase — had not run",
                                           "before-trigger-added-during-before-phase-not-run")
                        in_before[0] = False
                        waiting = [j for j in waiting if j not in fired]
                        if waiting:
                            return Failure(case, where + f"{e} ran while Deferred(s) {waiting} returned by before-triggers were unfired",
                                           "ran-before-deferreds-fired")
                    if phase_rank[ph] < last:
                        return Failure(case, where + "phases out of order", "phase-order")
                    last = phase_rank[ph]
                    b = bodies[i] if i < len(bodies) else {"acts": []}
                    aborted = False
                    for a in b["acts"]:
                        if a[0] == "add":
                            reg[a[1]].append(a[2])
                        elif a[1] == "b" and in_before[0] and a[2] in ran_before:
                            pass                      # already-run before-trigger: warning only
                        elif a[2] in reg[a[1]]:
                            reg[a[1]].remove(a[2])
                        else:
                            aborted = True            # ValueError propagates out of the trigger
                            break
                    if ph == "b" and not aborted:
                        f = finof(i)
                        if f not in ("n", "r", "rb") and f[1] not in fired:
                            waiting.append(f[1])
            if firing_now and in_before[0] and reg["b"]:
                return Failure(case, where + f"the before phase ended with before-trigger(s) {reg['b']} not run (registered before "
                               "the firing or by a before-trigger during the before phase)",
                               "before-trigger-added-during-before-phase-not-run")
            waiting = [j for j in waiting if j not in fired]
            suspended = bool(waiting)
            if not suspended:
                in_before[0] = False
    if passive:
        want = "[" + ",".join(map(str, reg["b"])) + "][" + ",".join(map(str, reg["d"])) + "][" + ",".join(map(str, reg["a"])) + "]"
        if fin != want:
            return Failure(case, f"final lists {fin}, expected {want}", "passive-final-lists")
    return None


def _body(rng, i, n, nextj, reentrant):
    acts = []
    if reentrant and rng.random() < 0.5:
        for _ in range(rng.randrange(1, 4)):
            if rng.random() < 0.6 and i + 1 < n:
                acts.append(["add", rng.choice("bda"), rng.randrange(i + 1, n)])   # only higher numbers: terminates
            else:
                acts.append(["rm", rng.choice("bda"), rng.randrange(n)])
    r = rng.random()
    if r < 0.55:
        fin = "n"
    elif r < 0.8:
        fin = [rng.choice(["d", "d", "ds"]), rng.randrange(nextj)]
    else:
        fin = rng.choice(["r", "r", "rb"])
    return {"acts": acts, "fin": fin}


def _random_case(rng, reentrant):
    n = rng.choice([1, 2, 3, 5, 8, 12, 20])
    nd = rng.choice([1, 2, 3, 4])
    bodies = [_body(rng, i, n, nd, reentrant) for i in range(n)]
    ops = []
    for _ in range(rng.randrange(3, 40)):
        r = rng.random()
        if r < 0.5:
            ops.append(["add", rng.choice("bbdda"), rng.randrange(n)])
        elif r < 0.65:
            ops.append(["rm", rng.choice("bda"), rng.randrange(n)])
        elif r < 0.8:
            ops.append(["fire"])
        else:
            ops.append(["fd", rng.randrange(nd), rng.random() < 0.7])
    return {"bodies": bodies, "ops": ops}


def gen(rng, tier):
    cases = []
    # every firing order of the Deferreds returned by three before-triggers; registrations/removals while waiting
    bodies = [{"acts": [], "fin": ["d", 0]}, {"acts": [], "fin": ["d", 1]}, {"acts": [], "fin": ["d", 2]},
              {"acts": [], "fin": "r"}, {"acts": [], "fin": "n"}, {"acts": [], "fin": "n"}]
    pre = [["add", "b", 0], ["add", "d", 4], ["add", "b", 3], ["add", "b", 1], ["add", "a", 5], ["add", "b", 2],
           ["add", "d", 3], ["fire"]]
    mids = [[], [["add", "d", 5]], [["add", "b", 4]], [["rm", "b", 0]], [["rm", "d", 4]], [["rm", "a", 5], ["rm", "a", 5]]]
    for perm in itertools.permutations(range(3)):
        for mid in mids:
            for pos in range(4):
                ops = list(pre)
                for x, j in enumerate(perm):
                    if x == pos:
                        ops += mid
                    ops.append(["fd", j, j != 1])
                if pos == 3:
                    ops += mid
                cases.append({"bodies": bodies, "ops": ops + [["fire"]]})
    # before-triggers returning already-called Deferreds whose chain is suspended on an inner Deferred
    for kinds in itertools.product(["d", "ds"], repeat=2):
        for order in ((0, 1), (1, 0)):
            for oks in ((True, True), (False, True), (True, False)):
                b2 = [{"acts": [], "fin": [kinds[0], 0]}, {"acts": [], "fin": [kinds[1], 1]}, {"acts": [], "fin": "n"},
                      {"acts": [], "fin": "n"}]
                ops = [["add", "b", 0], ["add", "d", 2], ["add", "b", 1], ["add", "a", 3], ["fire"], ["add", "d", 3],
                       ["fd", order[0], oks[0]], ["rm", "a", 3], ["fd", order[1], oks[1]], ["fire"]]
                cases.append({"bodies": b2, "ops": ops})
    # a before-trigger registers further before-triggers (one of them returning a Deferred) while the event fires
    for kind in ("d", "ds"):
        b3 = [{"acts": [["add", "b", 1], ["add", "b", 2]], "fin": "n"}, {"acts": [], "fin": [kind, 0]}, {"acts": [["add", "b", 3]], "fin": "n"},
              {"acts": [], "fin": "n"}, {"acts": [], "fin": "n"}]
        for tail in ([["fd", 0, True]], [["fd", 0, False], ["fire"]], []):
            cases.append({"bodies": b3, "ops": [["add", "b", 0], ["add", "d", 4], ["add", "a", 4], ["fire"]] + tail})
    # a trigger of each phase raises an exception that is not an Exception subclass; the others must still run
    for ph in "bda":
        for pos in range(3):
            for cls in range(3):
                b6 = [{"acts": [], "fin": "n"} for _ in range(9)]
                ids = [cls, cls + 3, cls + 6]
                b6[ids[pos]] = {"acts": [], "fin": "rb"}
                ops = [["add", p2, i] for p2 in "bda" for i in ([7, 8] if p2 != ph else ids)] + [["fire"], ["add", ph, 1], ["fire"]]
                cases.append({"bodies": b6, "ops": ops})
    # a trigger registers ANOTHER trigger into the phase that is currently firing, with earlier-registered triggers of that
    # phase still pending: registration order is execution order (the new one runs last), at every position
    for ph in "bda":
        for n in (3, 4, 5):
            for pos in range(n):
                for extra in (1, 2):
                    b4 = [{"acts": [], "fin": "n"} for _ in range(n + 2)]
                    b4[pos] = {"acts": [["add", ph, n + x] for x in range(extra)], "fin": "n"}
                    if extra == 2:
                        b4[n] = {"acts": [["add", ph, n + 1]], "fin": "n"} if pos % 2 else b4[n]
                    ops = [["add", ph, i] for i in range(n)] + [["fire"], ["fire"]]
                    cases.append({"bodies": b4, "ops": ops})
        # ... also when the firing was suspended on a before-Deferred in between
        b5 = [{"acts": [], "fin": ["d", 0]}, {"acts": [], "fin": "n"}, {"acts": [["add", ph, 4]], "fin": "n"}, {"acts": [], "fin": "n"},
              {"acts": [], "fin": "n"}]
        cases.append({"bodies": b5, "ops": [["add", "b", 0], ["add", ph, 1], ["add", ph, 2], ["add", ph, 3], ["fire"],
                                            ["add", ph, 1], ["fd", 0, True], ["fire"]]})
    nrand = 400 if tier == "quick" else 8000
    for _ in range(nrand):
        cases.append(_random_case(rng, False))
    for _ in range(nrand):
        cases.append(_random_case(rng, True))
    return cases


def corpus():
    return [
        {"bodies": [{"acts": [], "fin": "r"}, {"acts": [], "fin": "n"}],
         "ops": [["add", "b", 0], ["add", "b", 1], ["add", "d", 0], ["add", "d", 1], ["add", "a", 0], ["add", "a", 1], ["fire"]]},
        {"bodies": [{"acts": [["rm", "b", 1], ["add", "d", 2]], "fin": ["d", 0]}, {"acts": [], "fin": "n"}, {"acts": [], "fin": "n"}],
         "ops": [["add", "b", 0], ["add", "b", 1], ["fire"], ["rm", "b", 0], ["rm", "b", 1], ["fd", 0, True], ["fire"]]},
        {"bodies": [{"acts": [], "fin": "n"}], "ops": [["rm", "b", 0], ["add", "b", 0], ["add", "b", 0], ["rm", "b", 0], ["fire"], ["fire"]]},
    ]


def to_coq(case):
    ph = {"b": "PBefore", "d": "PDuring", "a": "PAfter"}

    def act(a):
        return f"{'AAdd' if a[0] == 'add' else 'ARemove'} {ph[a[1]]} {a[2]}"

    def body(b):
        fin = "RNone" if b["fin"] == "n" else "RRaise" if b["fin"] in ("r", "rb") else f"(RDef {b['fin'][1]})"
        return f"mkB {coq_list(map(act, b['acts']), 'act')} {fin}"

    def op(o):
        if o[0] == "add":
            return f"Add {ph[o[1]]} {o[2]}"
        if o[0] == "rm":
            return f"Remove {ph[o[1]]} {o[2]}"
        if o[0] == "fire":
            return "Fire"
        return f"FireD {o[1]}"

    return f"({coq_list(map(body, case['bodies']), 'body')}, {coq_list(map(op, case['ops']), 'op')})"


def shrink(case):
    ops = case["ops"]
    for i in range(len(ops) - 1, -1, -1):
        yield {**case, "ops": ops[:i] + ops[i + 1:]}
    for i, b in enumerate(case["bodies"]):
        if b["acts"]:
            yield {**case, "bodies": case["bodies"][:i] + [{"acts": b["acts"][:-1], "fin": b["fin"]}] + case["bodies"][i + 1:]}
        if b["fin"] != "n":
            yield {**case, "bodies": case["bodies"][:i] + [{"acts": b["acts"], "fin": "n"}] + case["bodies"][i + 1:]}


SPEC = Spec(
    pid="C12",
    gen=gen, impl=impl, oracle=oracle, corpus=corpus, shrink=shrink,
    coq_header="From C12 Require Import Model Run.",
    coq_fn="run_show",
    to_coq=to_coq,
    nontrivial=lambda c, o: sum(o.count(x) for x in ("b", "d", "a")) >= 3,
    histogram=lambda c, o: ("passive" if _passive(c) else "reentrant") + f" triggers<={len(c['bodies'])}",
    rule="a trigger of each phase, at each position, raising SystemExit / GeneratorExit / a BaseException subclass (not an Exception); "
         "a trigger registering 1-2 triggers into the phase currently firing (before/during/after) from every position among 3-5 "
         "pending triggers; before-triggers returning plain or ALREADY-CALLED, chain-suspended Deferreds (succeed(None).addCallback(lambda _: inner)) "
         "resolved later in either order with success or failure; before-triggers registering further before-triggers during the "
         "firing; three Deferred-returning before-triggers fired in every order (6) x registrations/removals inserted at every "
         "point of the wait (24) plus a second fireEvent; random histories of 3-40 add/remove/fire/fire-Deferred calls over "
         "1-20 triggers that return None / a Deferred (shared ids, some already fired) / raise; the same with triggers that "
         "add and remove triggers of the event while it fires (adds only of higher-numbered triggers, so firing terminates); "
         "non-trivial = at least three trigger calls; distinct by (case, observation)",
    trusted=["hand-written model coq/C12/Model.v (tied by this correspondence run only)",
             "fireEvent() while a previous firing still waits for Deferreds is not exercised (harness and model skip it)",
             "DeferredList fires when every listed Deferred has delivered a result through its callback chain, success or failure "
             "(C04); in the model a returned Deferred counts as fired when its chain delivers, not when `called` turns true"],
    assumptions=["trigger callables are distinct objects per (phase, number); handles are the documented 4-tuples"],
)
