"""C31 — AMP matches answers to questions and fails pending calls on disconnect (H-tie, coq/C31).

Two real ``amp.AMP`` peers (BinaryBoxProtocol + BoxDispatcher + CommandLocator) joined by a
deterministic in-memory network: each direction is a FIFO of serialised boxes; the scheduler (the
op list) decides when the next box of a direction is delivered (its bytes arrive in several
``dataReceived`` chunks cut at case-chosen offsets), when a pending responder answers, and when
the connection is lost — possibly after only a prefix of the next box's bytes has arrived.

case = {"ops": [["call", peer, kind, follow] | ["deliver", dir, k] | ["fire", index, outcome]
                | ["disc", dir, cutpermille] | ["cancel", call id]], "chunks": seed}
  peer / dir: 0 = A (-> B), 1 = B (-> A);  kind: now | later | declared | sub | fatal | undeclared | unknown
  (sub: the responder raises a strict subclass of the declared exception; fatal: a declared fatal error;
   echo: callRemoteString to a low-level amp_ECHO responder that answers with the very box it was handed, so the
   answer still carries _command/_ask; baddesc / weirderr: the responder raises RemoteAmpError with the declared /
   an unknown code and an arbitrary-bytes description DESCS[k] -- ["call", peer, kind, follow, k])
  ["raw", peer, j, combo, k]: a raw box reaches `peer` that names the tag of its j-th unanswered call and carries
   unanswered `later` call and carries several routing keys at once (combo in ac, ec, ae, aec: _answer/_error/_command);
   precedence answer > error > command
  follow: the callback AND errback of the call's Deferred synchronously issue one more call (kind now) on
  the same connection -- at answer time, at error time or at connection-loss time (application retry logic)
  outcome: ok | declared | sub | fatal | undeclared
A call carries its own id as argument n; the responder answers {n: argument}.
"""
from __future__ import annotations

import itertools
import random

from harness.common import Failure, Spec, coq_list

KINDS = ["now", "later", "declared", "sub", "fatal", "undeclared", "unknown", "echo", "baddesc", "weirderr"]
OUTCOMES = ["ok", "declared", "sub", "fatal", "undeclared", "baddesc"]
# error descriptions a responder / raw peer may send: invalid UTF-8, empty, long, valid non-ASCII, plain
DESCS = [b"caf\xe9", b"", b"\xff\xfe\x00bad", b"x" * 3000, "h\u00e9llo".encode("utf-8"), b"plain"]
BIG = 10 ** 6          # baddesc / weirderr calls carry their description index as n // BIG


def _setup():
    from twisted.protocols import amp

    class DeclaredError(Exception):
        pass

    class SubDeclaredError(DeclaredError):
        pass

    class FatalError(Exception):
        pass

    class UndeclaredError(Exception):
        pass

    cmds = {}
    for kind in KINDS:
        cmds[kind] = type("Cmd_" + kind, (amp.Command,), {
            "commandName": kind.encode(), "arguments": [(b"n", amp.Integer())], "response": [(b"n", amp.Integer())],
            "errors": {DeclaredError: b"DECLARED"}, "fatalErrors": {FatalError: b"FATAL"}})
    cmds["switch"] = type("Cmd_switch", (amp.ProtocolSwitchCommand,), {"commandName": b"switch"})
    return amp, cmds, DeclaredError, UndeclaredError, SubDeclaredError, FatalError


_QUIET = []


def _quiet():
    """the undeclared-error path logs a traceback; keep it off stderr"""
    if not _QUIET:
        from twisted.logger import globalLogBeginner
        try:
            globalLogBeginner.beginLoggingTo([lambda e: None], redirectStandardIO=False, discardBuffer=True)
        except Exception:
            pass
        _QUIET.append(1)


def impl_wrap(case) -> str:
    """one call stays unanswered while the same peer makes n-1 further calls (each answered at once), then a second
    slow call; then both slow responders answer and the connection is lost.  Oracle only (tags in the model are unbounded)."""
    from twisted.internet import defer
    from twisted.internet.error import ConnectionDone
    from twisted.internet.testing import StringTransport
    from twisted.python.failure import Failure as TFailure

    amp, cmds, *_ = _setup()
    _quiet()
    results: dict = {}
    slow: list = []
    errors: list = []

    class Peer(amp.AMP):
        @cmds["now"].responder
        def r_now(self, n):
            return {"n": n}

        @cmds["later"].responder
        def r_later(self, n):
            d = defer.Deferred()
            slow.append((n, d))
            return d

    a, b = Peer(), Peer()
    ta, tb = StringTransport(), StringTransport()
    a.makeConnection(ta)
    b.makeConnection(tb)

    def shuttle():
        while ta.value() or tb.value():
            da, db = ta.value(), tb.value()
            ta.clear()
            tb.clear()
            try:
                if da:
                    b.dataReceived(da)
                if db:
                    a.dataReceived(db)
            except KeyError as e:          # an answer whose tag is not (any longer) outstanding
                errors.append("KeyError:" + repr(e.args[0]))

    def call(kind, i):
        d = a.callRemote(cmds[kind], n=i)
        d.addCallbacks(lambda r, i=i: results.setdefault(i, []).append("ok:%d" % r["n"]),
                       lambda f, i=i: results.setdefault(i, []).append("err:" + f.type.__name__))

    n, slow_ids = case["n"], case["slow"]
    for i in range(n):
        call("later" if i in slow_ids else "now", i)
        shuttle()
    for i, d in list(slow):
        d.callback({"n": i})
        shuttle()
    for p in (a, b):
        p.connectionLost(TFailure(ConnectionDone()))
    bad = []
    for i in range(n):
        got = results.get(i, [])
        if got != ["ok:%d" % i]:
            bad.append(f"C{i}={'+'.join(got) or 'never'}")
    bad += ["!" + e for e in errors[:3]]
    return f"calls={n} wrong=[" + ",".join(bad[:8]) + "]"


def impl(case) -> str:
    if case.get("kind") == "wrap":
        return impl_wrap(case)
    from twisted.internet import defer
    from twisted.internet import protocol as tprotocol
    from twisted.internet.error import ConnectionDone
    from twisted.internet.testing import StringTransport
    from twisted.python.failure import Failure as TFailure

    amp, cmds, DeclaredError, UndeclaredError, SubDeclaredError, FatalError = _setup()
    _quiet()
    ev: list[str] = []
    pending: list = []          # [peer, Deferred, n] of responders that answer later
    rng = random.Random(case.get("chunks", 0))

    def make_peer(me):
        class Peer(amp.AMP):
            def unhandledError(self, failure):      # where an error nobody consumed would be logged
                ev.append(f"!unhandled@{me}:{failure.type.__name__}")

            @cmds["now"].responder
            def r_now(self, n):
                ev.append(f"I{me}:{n}")
                return {"n": n}

            @cmds["later"].responder
            def r_later(self, n):
                ev.append(f"I{me}:{n}")
                d = defer.Deferred()
                pending.append([me, d, n])
                return d

            @cmds["declared"].responder
            def r_declared(self, n):
                ev.append(f"I{me}:{n}")
                raise DeclaredError("declared")

            @cmds["sub"].responder
            def r_sub(self, n):
                ev.append(f"I{me}:{n}")
                raise SubDeclaredError("a subclass of the declared error")

            @cmds["fatal"].responder
            def r_fatal(self, n):
                ev.append(f"I{me}:{n}")
                raise FatalError("fatal")

            @cmds["undeclared"].responder
            def r_undeclared(self, n):
                ev.append(f"I{me}:{n}")
                raise UndeclaredError("undeclared")

            @cmds["baddesc"].responder
            def r_baddesc(self, n):
                ev.append(f"I{me}:{n % BIG}")
                raise amp.RemoteAmpError(b"DECLARED", DESCS[n // BIG])

            @cmds["weirderr"].responder
            def r_weirderr(self, n):
                ev.append(f"I{me}:{n % BIG}")
                raise amp.RemoteAmpError(b"WEIRD", DESCS[n // BIG])

            def amp_ECHO(self, box):
                # low-level responder: the answer is the box we were handed (it keeps _command and _ask)
                ev.append(f"I{me}:{int(box[b'n'])}")
                return box

            @cmds["switch"].responder
            def r_switch(self):
                ev.append(f"I{me}:sw")
                return tprotocol.Protocol()      # the connection is handed to this protocol once the answer is sent

        return Peer()

    class Tr(StringTransport):
        closing = False

        def loseConnection(self):
            self.closing = True

    peers = [make_peer(0), make_peer(1)]
    trs = [Tr(), Tr()]
    for p, t in zip(peers, trs):
        p.makeConnection(t)
    up = True
    chan: list[list[bytes]] = [[], []]      # chan[d]: boxes written by peer d, not yet delivered
    ncalls = 0
    tagcount = [0, 0]
    tagged: list[list] = [[], []]      # per peer: (call id, tag) of the calls that were put on the wire
    firedset: set = set()
    dcalls: dict = {}                  # call id -> its Deferred (for cancel)
    want_desc: dict = {}               # call id -> description bytes its error must carry (decoded leniently)
    descbad: list = []

    def pump():
        """move what the peers wrote into the per-direction box queues (one entry per box)"""
        for d in (0, 1):
            data = trs[d].value()
            trs[d].clear()
            while data:
                # a serialised box ends with the empty key 00 00
                i, n = 0, len(data)
                while True:
                    ln = (data[i] << 8) | data[i + 1]
                    i += 2
                    if ln == 0:
                        break
                    i += ln
                    vl = (data[i] << 8) | data[i + 1]
                    i += 2 + vl
                chan[d].append(data[:i])
                data = data[i:]

    def feed(q, data):
        cuts = sorted({rng.randrange(1, len(data)) for _ in range(rng.randrange(0, 3))}) if len(data) > 1 else []
        prev = 0
        for c in cuts + [len(data)]:
            peers[q].dataReceived(data[prev:c])
            prev = c

    def lose(mark):
        nonlocal up
        ev.append(mark)
        up = False
        chan[0].clear()
        chan[1].clear()
        for p in peers:
            p.connectionLost(TFailure(ConnectionDone()))
        for t in trs:
            t.clear()

    def deliver_one(d):
        """deliver the oldest box of direction d; then honour a close requested by a fatal error"""
        data = chan[d].pop(0)
        feed(1 - d, data)
        pump()
        closer = next((x for x in (1 - d, d) if trs[x].closing), None)
        if closer is not None and up:
            # loseConnection flushes what the closing side wrote, then the connection goes down
            while chan[closer]:
                feed(1 - closer, chan[closer].pop(0))
                pump()
            lose("Q")

    out = []
    for op in case["ops"]:
        ev.clear()
        if op[0] == "call":
            def issue(peer, kind, follow, k=0):
                nonlocal ncalls
                i, ncalls = ncalls, ncalls + 1
                if up:
                    tagcount[peer] += 1
                    tagged[peer].append((i, b"%x" % tagcount[peer], kind))
                try:
                    if kind == "switch":
                        d = peers[peer].callRemote(cmds[kind], tprotocol.ClientFactory.forProtocol(tprotocol.Protocol))
                    elif kind == "echo":
                        d = peers[peer].callRemoteString(b"echo", n=b"%d" % i)
                        d.addCallback(lambda box: {"n": int(box[b"n"])})
                    elif kind in ("baddesc", "weirderr"):
                        want_desc[i] = DESCS[k]
                        d = peers[peer].callRemote(cmds[kind], n=i + BIG * k)
                    else:
                        d = peers[peer].callRemote(cmds[kind], n=i)
                except amp.ProtocolSwitched:
                    ev.append(f"C{i}=raise:ProtocolSwitched")       # no Deferred at all: the connection was handed over
                    return

                def again():
                    if follow:
                        ev.append(f"N{ncalls}")
                        issue(peer, "now", False)

                def ok(r, i=i):
                    firedset.add(i)
                    ev.append(f"C{i}=ok:{r['n'] if kind != 'switch' else i}")
                    again()

                def err(f, i=i):
                    firedset.add(i)
                    ev.append(f"C{i}=err:{f.type.__name__}")
                    if i in want_desc and f.type.__name__ not in ("ConnectionDone", "CancelledError"):
                        got = f.value.description if hasattr(f.value, "description") else str(f.value)
                        if got != want_desc[i].decode("utf-8", "replace"):
                            descbad.append(f"C{i}:{got[:20]!r}")
                    again()

                dcalls[i] = d
                d.addCallbacks(ok, err)

            issue(op[1], op[2], bool(op[3]) if len(op) > 3 else False, op[4] if len(op) > 4 else 0)
            pump()
        elif op[0] == "cancel":
            j = op[1]
            if j in dcalls and j not in firedset:
                dcalls[j].cancel()      # no canceller: fails with CancelledError now, swallows the dispatcher's later result
                pump()
            else:
                ev.append("-")
        elif op[0] == "raw":
            p, j, combo, k = op[1], op[2], op[3], op[4]
            # only calls whose responder will never answer by itself (a second, genuine answer would hit a retired tag)
            open_calls = [(i, t) for i, t, kd in tagged[p] if i not in firedset and kd == "later"]
            if not up or j >= len(open_calls):
                ev.append("-")
            else:
                i, tag = open_calls[j]
                box = amp.AmpBox()
                box[b"n"] = b"%d" % i
                if "a" in combo:
                    box[b"_answer"] = tag
                if "e" in combo:
                    box[b"_error"] = tag
                    box[b"_error_code"] = b"DECLARED"
                    box[b"_error_description"] = DESCS[k]
                    if "a" not in combo:
                        want_desc[i] = DESCS[k]
                if "c" in combo:
                    box[b"_command"] = b"now"
                    box[b"_ask"] = b"zz"
                ev.append(f"W{p}:{combo}:{i}")
                feed(p, box.serialize())
                pump()
        elif op[0] == "deliver":
            for _ in range(op[2]):
                if not up or not chan[op[1]]:
                    break
                deliver_one(op[1])
            else:
                pass
            if not ev:
                pass
        elif op[0] == "fire":
            live = [x for x in pending if not x[1].called]
            if op[1] < len(live):
                me, d, n = live[op[1]]
                ev.append(f"F{me}:{n}")
                if op[2] == "ok":
                    d.callback({"n": n})
                elif op[2] == "declared":
                    d.errback(TFailure(DeclaredError("declared")))
                elif op[2] == "sub":
                    d.errback(TFailure(SubDeclaredError("sub")))
                elif op[2] == "fatal":
                    d.errback(TFailure(FatalError("fatal")))
                elif op[2] == "baddesc":
                    want_desc[n] = DESCS[n % len(DESCS)]
                    d.errback(TFailure(amp.RemoteAmpError(b"DECLARED", DESCS[n % len(DESCS)])))
                else:
                    d.errback(TFailure(UndeclaredError("undeclared")))
                pump()
                closer = next((x for x in (me, 1 - me) if trs[x].closing), None)
                if closer is not None and up:
                    while chan[closer]:
                        feed(1 - closer, chan[closer].pop(0))
                        pump()
                    lose("Q")
            else:
                ev.append("-")
        elif op[0] == "disc":
            if up:
                d = op[1]
                if chan[d] and op[2] > 0:
                    data = chan[d][0]
                    cut = min(len(data) - 1, max(1, len(data) * op[2] // 1000))
                    peers[1 - d].dataReceived(data[:cut])      # a strict prefix of the next box, then the loss
                lose("X")
            else:
                ev.append("-")
        else:
            raise ValueError(op)
        out.append(",".join(ev) if ev else ".")
    return (" ".join(out) + f" |up={'T' if up else 'F'} ab={len(chan[0])} ba={len(chan[1])}"
            + (" !desc=" + ";".join(descbad) if descbad else ""))


# --------------------------------------------------------------------------------------
# oracle (independent bookkeeping on the observation)

EXPECT = {"now": None, "switch": None, "echo": None, "baddesc": "DeclaredError", "weirderr": "UnknownRemoteError", "declared": "DeclaredError", "sub": "DeclaredError", "fatal": "FatalError",
          "undeclared": "UnknownRemoteError", "unknown": "UnhandledCommand", "ok": None}


def oracle(case, obs):
    if " !desc=" in obs:
        return Failure(case, "an error reached its caller with a description other than the lenient UTF-8 decoding of the bytes "
                             "that were sent: " + obs.split(" !desc=")[1], "error-description")
    if case.get("kind") == "wrap":
        if not obs.endswith("wrong=[]"):
            return Failure(case, f"one peer makes {case['n']} calls, call(s) {case['slow']} answered only at the end: {obs} -- every "
                                 f"call must fire exactly once with its own answer however many calls were made meanwhile",
                           "long-history-wrong-answer")
        return None
    ops = case["ops"]
    groups = [g.split(",") if g != "." else [] for g in obs.split(" |")[0].split(" ")] if ops else []
    if len(groups) != len(ops):
        return Failure(case, "malformed observation", "log")
    calls = {}          # id -> {"peer", "kind", "follow", "fired", "invoked", "after_loss"}
    later = {}          # call id -> outcome chosen when its responder fired
    n = 0
    up = True
    handed = [False, False]      # the peer has asked for / agreed to a protocol switch: it can send no more boxes

    def new_call(peer, kind, follow):
        nonlocal n
        i, n = n, n + 1
        calls[i] = {"peer": peer, "kind": kind, "follow": follow, "fired": False, "invoked": False, "after_loss": not up}
        return i

    for t, (op, g) in enumerate(zip(ops, groups)):
        where = f"op {t} {op} -> {','.join(g) or '.'}: "
        if op[0] == "call":
            new_call(op[1], op[2], bool(op[3]) if len(op) > 3 else False)
            if op[2] == "switch":
                handed[op[1]] = True
        expect_nested = None      # (parent id) whose callback must issue a call next
        for e in g:
            if expect_nested is not None and e[0] != "N":
                return Failure(case, where + f"the callback of call {expect_nested} did not issue its follow-up call", "log")
            if e.startswith("!"):
                return Failure(case, where + "an error nobody handled: " + e, "unhandled-error")
            if e.endswith("=raise:ProtocolSwitched"):
                i = int(e[1:].split("=")[0])
                c = calls.get(i)
                if c is None or c["fired"]:
                    return Failure(case, where + "unexpected call id", "log")
                c["fired"] = True
                if not up:
                    return Failure(case, where + f"call {i} made after the connection was lost raised ProtocolSwitched instead "
                                           f"of failing with the loss reason", "after-loss-result")
                if not handed[c["peer"]]:
                    return Failure(case, where + f"call {i} raised ProtocolSwitched on a peer that never switched", "spurious-switch")
                continue
            if e[0] == "I" and e.endswith(":sw"):
                handed[int(e[1])] = True
                continue
            if e[0] == "W":
                _p, combo, i = e[1:].split(":")
                if int(i) not in calls:
                    return Failure(case, where + "raw box for an unknown call", "log")
                # precedence: _answer, then _error, then _command
                calls[int(i)]["raw"] = None if "a" in combo else "DeclaredError"
                continue
            if e[0] == "N":
                if expect_nested is None or int(e[1:]) != n:
                    return Failure(case, where + "unexpected nested call", "log")
                new_call(calls[expect_nested]["peer"], "now", False)
                expect_nested = None
            elif e[0] == "I":
                me, i = e[1:].split(":")
                c = calls.get(int(i))
                if c is None or c["invoked"] or int(me) != 1 - c["peer"] or c["kind"] == "unknown":
                    return Failure(case, where + "responder invoked for no / the wrong / an already served question",
                                   "responder-invocation")
                c["invoked"] = True
            elif e[0] == "F":
                me, i = e[1:].split(":")
                later[int(i)] = op[2]
            elif e[0] == "C":
                i, res = e[1:].split("=")
                i = int(i)
                c = calls.get(i)
                if c is None:
                    return Failure(case, where + f"unknown call {i} fired", "log")
                if c["fired"]:
                    return Failure(case, where + f"call {i} fired twice", "fired-twice")
                c["fired"] = True
                if c["follow"]:
                    expect_nested = i
                if res == "err:CancelledError":
                    if op[0] != "cancel" or op[1] != i:
                        return Failure(case, where + f"call {i} failed with CancelledError although nobody cancelled it", "spurious-cancel")
                    continue
                if res == "err:ConnectionDone":
                    if up:
                        return Failure(case, where + f"call {i} failed with the loss reason while connected", "spurious-loss")
                    continue
                if c["after_loss"]:
                    return Failure(case, where + f"call {i} made after the loss got {res}", "after-loss-result")
                if "raw" in c:
                    want = f"ok:{i}" if c["raw"] is None else "err:" + c["raw"]
                    if res != want:
                        return Failure(case, where + f"call {i} was resolved by a box carrying several routing keys: got {res}, "
                                               f"precedence (_answer, _error, _command) gives {want}", "routing-precedence")
                    continue
                kind = c["kind"] if c["kind"] != "later" else later.get(i)
                if kind not in EXPECT:
                    return Failure(case, where + f"call {i} got {res} although its responder has not answered", "answer-without-question")
                want = f"ok:{i}" if EXPECT[kind] is None else "err:" + EXPECT[kind]
                if res != want:
                    tag = "wrong-answer" if res.startswith("ok:") and EXPECT[kind] is None else "wrong-result"
                    return Failure(case, where + f"call {i} ({c['kind']}) got {res}, its own command's result is {want}", tag)
                if not c["invoked"] and c["kind"] not in ("unknown", "switch"):
                    return Failure(case, where + f"call {i} answered without its responder having run", "answer-without-question")
            elif e in ("X", "Q"):
                up = False
        if expect_nested is not None:
            return Failure(case, where + f"the callback of call {expect_nested} did not issue its follow-up call", "log")
        if not up:
            late = [i for i, c in calls.items() if not c["fired"]]
            if late:
                made_after = [i for i in late if calls[i]["after_loss"]]
                if made_after:
                    return Failure(case, where + f"call(s) {made_after} made after the connection was lost did not fail "
                                           f"immediately (never fired)", "after-loss-pending")
                return Failure(case, where + f"call(s) {late} still pending after the connection was lost", "pending-after-loss")
    if " |up=F" in obs and not obs.endswith("up=F ab=0 ba=0"):
        return Failure(case, "boxes left in a channel after the loss", "log")
    return None


# --------------------------------------------------------------------------------------
# cases


def gen(rng, tier):
    cases = []
    alpha = [["call", 0, "now", False], ["call", 1, "now", True], ["call", 0, "later", True], ["call", 0, "declared", False],
             ["call", 1, "sub", True], ["call", 0, "fatal", False], ["call", 1, "undeclared", False],
             ["call", 0, "unknown", True], ["call", 1, "echo", True], ["call", 0, "baddesc", False, 0],
             ["deliver", 0, 1], ["deliver", 1, 1], ["cancel", 0],
             ["fire", 0, "ok"], ["fire", 0, "sub"], ["fire", 0, "undeclared"], ["disc", 0, 500]]
    depth = 3 if tier == "quick" else 5
    for n in range(1, depth + 1):
        for word in itertools.product(range(len(alpha)), repeat=n):
            if tier == "quick" and n == depth and rng.random() > 0.2:
                continue
            if tier != "quick" and n == 4 and rng.random() > 0.4:
                continue
            if tier != "quick" and n == depth and rng.random() > 0.01:
                continue
            cases.append({"ops": [alpha[i] for i in word], "chunks": rng.randrange(1 << 30)})
    for _ in range(500 if tier == "quick" else 4000):
        ops = []
        fatal = rng.random() < 0.35
        for _ in range(rng.randrange(5, 50)):
            r = rng.random()
            if r < 0.35:
                kinds = ["now", "now", "later", "later", "declared", "sub", "unknown", "echo", "echo", "baddesc"] + (["undeclared", "fatal"] if fatal else [])
                ops.append(["call", rng.randrange(2), rng.choice(kinds), rng.random() < 0.35, rng.randrange(len(DESCS))])
            elif r < 0.75:
                ops.append(["deliver", rng.randrange(2), rng.choice([1, 1, 1, 2, 3, 7])])
            elif r < 0.93:
                ops.append(["fire", rng.choice([0, 0, 1, 2, 5]), rng.choice(["ok", "ok", "declared", "sub", "baddesc"] + (["undeclared", "fatal"] if fatal else []))])
            elif r < 0.96:
                ops.append(["disc", rng.randrange(2), rng.choice([0, 1, 500, 999])])
            elif r < 0.985:
                ops.append(["cancel", rng.randrange(0, 9)])
            else:
                ops.append(["call", rng.randrange(2), "now", True])
        cases.append({"ops": ops, "chunks": rng.randrange(1 << 30)})
    # raw boxes carrying several routing keys, errors with unknown codes and arbitrary descriptions (oracle only)
    for _ in range(120 if tier == "quick" else 2500):
        ops = [["call", 0, "later", rng.random() < 0.3], ["call", 1, "later", False]]
        for _ in range(rng.randrange(1, 5)):
            ops.append(["call", rng.randrange(2), rng.choice(["later", "later", "weirderr", "baddesc", "echo"]), rng.random() < 0.3,
                        rng.randrange(len(DESCS))])
        for _ in range(rng.randrange(2, 8)):
            r = rng.random()
            if r < 0.4:
                ops.append(["raw", rng.randrange(2), rng.choice([0, 0, 1]), rng.choice(["ac", "ec", "ae", "aec"]), rng.randrange(len(DESCS))])
            elif r < 0.8:
                ops.append(["deliver", rng.randrange(2), rng.choice([1, 2])])
            else:
                ops.append(["call", rng.randrange(2), rng.choice(["weirderr", "baddesc", "echo", "now"]), False, rng.randrange(len(DESCS))])
        ops.append(["disc", rng.randrange(2), 0])
        cases.append({"ops": ops, "chunks": rng.randrange(1 << 30)})
    # protocol switching (oracle only): calls outstanding when a ProtocolSwitchCommand succeeds, then the loss
    for _ in range(150 if tier == "quick" else 3000):
        ops = []
        for _ in range(rng.randrange(1, 5)):
            ops.append(["call", rng.randrange(2), rng.choice(["later", "later", "now", "declared"]), rng.random() < 0.3])
        for _ in range(rng.randrange(0, 3)):
            ops.append(["deliver", rng.randrange(2), rng.choice([1, 2])])
        sw = rng.randrange(2)
        ops.append(["call", sw, "switch", False])
        tail = [["deliver", sw, rng.choice([1, 3, 9])], ["deliver", 1 - sw, rng.choice([1, 3, 9])],
                ["call", rng.randrange(2), rng.choice(["now", "later"]), rng.random() < 0.3], ["fire", 0, "ok"],
                ["deliver", rng.randrange(2), 2], ["call", 1 - sw, "switch", False]]
        rng.shuffle(tail)
        ops += tail[:rng.randrange(2, len(tail) + 1)]
        ops.append(["disc", rng.randrange(2), rng.choice([0, 500])])
        ops.append(["call", rng.randrange(2), "now", rng.random() < 0.5])
        ops.append(["call", rng.randrange(2), "now", False])
        cases.append({"ops": ops, "chunks": rng.randrange(1 << 30)})
    # one peer allocates more than 2**16 tags while an early call is still unanswered (oracle only, ONE long case in quick)
    cases.append({"kind": "wrap", "n": 65538, "slow": [0, 65537], "ops": []})
    if tier != "quick":
        cases.append({"kind": "wrap", "n": 65800, "slow": [3, 200, 65539, 65700], "ops": []})
        cases.append({"kind": "wrap", "n": 131100, "slow": [1, 65537, 131073], "ops": []})
    return cases


def corpus():
    return [
        {"ops": [["call", 0, "later", False], ["call", 0, "now", False], ["deliver", 0, 2], ["call", 1, "later", False], ["deliver", 1, 2],
                 ["fire", 1, "ok"], ["fire", 0, "declared"], ["deliver", 1, 5], ["deliver", 0, 5], ["disc", 0, 500],
                 ["call", 0, "now", False], ["fire", 0, "ok"]], "chunks": 1},
        {"ops": [["call", 0, "now", False], ["call", 0, "later", False], ["call", 1, "undeclared", False], ["deliver", 0, 1], ["deliver", 1, 1],
                 ["call", 1, "now", False]], "chunks": 2},
        {"ops": [["call", 0, "now", False], ["disc", 0, 999], ["call", 0, "now", False], ["call", 1, "unknown", False]], "chunks": 3},
        # the application cancels calls that are still outstanding; the peer answers them later (seeded C31-G)
        {"ops": [["call", 0, "later", True], ["call", 0, "now", False], ["call", 1, "now", False], ["cancel", 0], ["cancel", 0],
                 ["deliver", 0, 2], ["fire", 0, "ok"], ["deliver", 1, 3], ["deliver", 0, 3], ["cancel", 1], ["call", 0, "later", False],
                 ["cancel", 4], ["disc", 0, 0], ["cancel", 2]], "chunks": 9},
        # echo-style low-level responder (answer box keeps _command), errors with invalid-UTF-8 / empty / long descriptions,
        # raw boxes with several routing keys (seeded C31-E / C31-F)
        {"ops": [["call", 0, "echo", True], ["call", 1, "echo", False], ["deliver", 0, 1], ["deliver", 1, 2], ["deliver", 0, 2],
                 ["call", 0, "baddesc", False, 0], ["call", 0, "baddesc", True, 2], ["call", 1, "baddesc", False, 1], ["deliver", 0, 3],
                 ["deliver", 1, 3], ["deliver", 0, 3], ["call", 1, "later", False], ["deliver", 1, 1], ["fire", 0, "baddesc"],
                 ["deliver", 0, 1], ["disc", 0, 0]], "chunks": 7},
        {"ops": [["call", 0, "later", False], ["call", 0, "later", False], ["call", 1, "later", False], ["call", 0, "weirderr", False, 0],
                 ["raw", 0, 0, "ac", 0], ["raw", 0, 0, "ec", 0], ["raw", 1, 0, "aec", 2], ["deliver", 0, 9], ["deliver", 1, 9],
                 ["disc", 0, 0]], "chunks": 8},
        # a call outstanding when the connection is handed to another protocol, then the loss (seeded C31-D)
        {"ops": [["call", 0, "later", False], ["deliver", 0, 1], ["call", 0, "switch", False], ["deliver", 0, 1], ["deliver", 1, 1],
                 ["call", 0, "now", False], ["disc", 0, 0], ["call", 0, "now", False], ["call", 1, "now", True]], "chunks": 6},
        # re-entrant calls: from a callback at answer time, from an errback at error time and at connection-loss time
        {"ops": [["call", 0, "now", True], ["call", 0, "declared", True], ["deliver", 0, 2], ["deliver", 1, 2], ["call", 0, "later", True],
                 ["call", 0, "now", False], ["disc", 0, 0], ["call", 0, "now", True]], "chunks": 4},
        # a responder raising a subclass of a declared error; a declared fatal error
        {"ops": [["call", 0, "sub", False], ["deliver", 0, 1], ["deliver", 1, 1], ["call", 1, "later", False], ["deliver", 1, 1],
                 ["fire", 0, "sub"], ["deliver", 0, 1], ["call", 0, "fatal", False], ["call", 1, "now", True], ["deliver", 0, 1]], "chunks": 5},
    ]


def to_coq(case):
    if case.get("kind") == "wrap" or any(o[0] == "raw" or (o[0] == "call" and o[2] in ("switch", "weirderr")) for o in case["ops"]):
        return None         # not modelled: tags are unbounded naturals in the model; protocol switching is out of its scope

    def op(o):
        if o[0] == "call":
            # echo answers at once with the caller's own argument (= Know); baddesc is a declared, non-fatal error (= Kdeclared)
            k = {"echo": "now", "baddesc": "declared"}.get(o[2], o[2])
            return f"OCall {'true' if o[1] else 'false'} K{k} {'true' if (len(o) > 3 and o[3]) else 'false'}"
        if o[0] == "deliver":
            return f"ODeliver {'true' if o[1] else 'false'} {int(o[2])}%nat"
        if o[0] == "cancel":
            return f"OCancel {int(o[1])}%nat"
        if o[0] == "fire":
            return f"OFire {int(o[1])}%nat Out{'declared' if o[2] == 'baddesc' else o[2]}"
        return "ODisc"
    return coq_list(map(op, case["ops"]), "op")


def shrink(case):
    if case.get("kind") == "wrap":
        return
    ops = case["ops"]
    for i in range(len(ops)):
        yield {**case, "ops": ops[:i] + ops[i + 1:]}


SPEC = Spec(
    pid="C31",
    gen=gen, impl=impl, oracle=oracle, corpus=corpus, shrink=shrink,
    coq_header="From C31 Require Import Model Run.",
    coq_fn="run_show",
    to_coq=to_coq,
    nontrivial=lambda c, o: c.get("kind") == "wrap" or ("C" in o and ("I" in o or "X" in o)),
    histogram=lambda c, o: "long-history" if c.get("kind") == "wrap" else
    ("switch:" if "I0:sw" in o or "I1:sw" in o else "") + ("lost" if " |up=F" in o else "up") + (":fatal" if "UnknownRemoteError" in o else ""),
    case_timeout=120.0,
    rule="every history of length <= 2, 20% of length 3 (quick) / <= 3, 40% of length 4, 1% of length 5 (thorough) over a "
         "17-letter alphabet (incl. cancelling call 0) (calls of each responder kind incl. subclass-of-declared and fatal declared errors, with and "
         "without a re-entrant follow-up call from their callback/errback, from either peer; deliver one box in either direction; "
         "fire the oldest pending responder with success / subclass error / undeclared error; loss in the middle of the next box), plus "
         "random histories of 5-50 ops (deliveries of 1-7 boxes, responders fired out of order, loss at 0/0.1/50/99.9% of "
         "the next box); each box's bytes arrive in 1-3 chunks cut at seeded offsets; 120 histories with raw boxes that carry several routing keys at once "
         "(_answer/_error/_command: precedence), errors with unknown codes and arbitrary-bytes descriptions (oracle only); the modelled "
         "alphabet also has an echo-style low-level responder (callRemoteString; the answer box keeps _command/_ask) and declared errors "
         "with invalid-UTF-8 / empty / 3000-byte descriptions; 150 histories with a ProtocolSwitchCommand "
         "(calls outstanding at switch time, calls after the switch, then the loss; oracle only) and ONE history in which a peer makes "
         "65 538 calls while its first call is still unanswered (tag space of 2**16 exhausted; oracle only; thorough: three, up to "
         "131 100 calls); non-trivial = some call fired and a "
         "responder ran or the connection was lost; distinct by (case, observation)",
    trusted=["hand-written model coq/C31/Model.v (tied by this correspondence run only)",
             "box framing (C30) is not modelled: a channel is a FIFO of whole boxes; a connection lost inside a box = the box is never delivered",
             "close after a fatal (undeclared) error: the closing side's written boxes are flushed to the peer, then both sides "
             "lose the connection (one admissible schedule; others are not explored)"],
    assumptions=["both peers are honest AMP implementations (no forged answer tags)",
                 "callbacks attached to callRemote Deferreds only record"],
)
