"""C43 — IRC message splitting and low-level / CTCP quoting.

T-tie: coq/C43/Gen.v (lowQuote, ctcpQuote, both quote tables, the dequote tables built by the
module-level loops, the escape characters of the two regular expressions, lowDequote/ctcpDequote as
the re.sub skeleton) is regenerated from src/twisted/words/protocols/irc.py on every run.
H-tie: coq/C43/Model.v models IRCClient._sendMessage -> split -> sendLine with textwrap.wrap as an
oracle whose results are passed to the model and whose three assumed facts are checked here."""
from __future__ import annotations

import re
import textwrap

from harness.common import COQ, REPO, Failure, Spec
from translate import c43 as tr


def show_str(s: str) -> str:
    return "[" + ",".join(str(ord(c)) for c in s) + "]"


# --------------------------------------------------------------------------------------
# implementation drivers


class _Transport:
    """records each write separately (LineReceiver.sendLine writes line + delimiter at once)"""
    disconnecting = False

    def __init__(self):
        self.writes = []

    def write(self, data):
        self.writes.append(bytes(data))

    def writeSequence(self, seq):
        self.writes.append(b"".join(seq))

    def loseConnection(self):
        pass

    def getPeer(self):
        return None

    def getHost(self):
        return None


def _client(nicklen):
    from twisted.words.protocols import irc

    class C(irc.IRCClient):
        performLogin = False
        nickname = "verif"

    c = C()
    t = _Transport()
    c.makeConnection(t)
    if nicklen is not None:
        c.supported.parse(["NICKLEN=%d" % nicklen])
    t.writes.clear()
    return c, t


def impl(case) -> str:
    from twisted.words.protocols import irc
    if case["kind"] == "quote":
        s = case["s"]
        lq, xq = irc.lowQuote(s), irc.ctcpQuote(s)
        return " ".join(show_str(x) for x in (lq, irc.lowDequote(lq), irc.lowDequote(s),
                                              xq, irc.ctcpDequote(xq), irc.ctcpDequote(s)))
    if case["kind"] == "rate":
        return _impl_rate(case)
    if case["kind"] == "ctcp":
        return _impl_ctcp(case)
    c, t = _client(case.get("nicklen"))
    calls = case["calls"] if case["kind"] == "hist" else [case]
    out = []
    for call in calls:
        t.writes.clear()
        fn = c.msg if call["type"] == "PRIVMSG" else c.notice
        try:
            fn(call["user"], call["message"], call["length"])
            out.append("|".join(w.hex() for w in t.writes))
        except ValueError:
            out.append("ValueError")
    return ";".join(out)


def _impl_rate(case, rate="case") -> str:
    """calls on ONE client whose lineRate is set, on a task.Clock (irc.reactor patched): after each call the
    clock advances ticks x lineRate; optionally, after the a-th call, connectionLost, gap more ticks, and
    makeConnection of the SAME client on a new transport; at the end the clock advances until no call is pending.
    Observation: the calls' outcomes, the number of lines on the current transport after each call's ticks, and
    per transport all lines in the order written."""
    from twisted.internet import task
    from twisted.internet.error import ConnectionDone
    from twisted.python.failure import Failure as TwFailure
    from twisted.words.protocols import irc
    rate = case["rate"] if rate == "case" else rate
    clock = task.Clock()
    saved = irc.reactor
    irc.reactor = clock
    try:
        c, t = _client(case.get("nicklen"))
        c.lineRate = rate
        transports = [t]
        tags, counts = [], []
        rc = case.get("reconnect")
        for i, (call, ticks) in enumerate(zip(case["calls"], case["ticks"])):
            fn = c.msg if call["type"] == "PRIVMSG" else c.notice
            try:
                fn(call["user"], call["message"], call["length"])
                tags.append("ok")
            except ValueError:
                tags.append("ValueError")
            if rate is not None:
                for _ in range(ticks):
                    clock.advance(rate)
            counts.append(len(transports[-1].writes))
            if rc and rc["after"] == i + 1:
                c.connectionLost(TwFailure(ConnectionDone()))
                if rate is not None:
                    for _ in range(rc["gap"]):
                        clock.advance(rate)
                t2 = _Transport()
                c.makeConnection(t2)
                if case.get("nicklen") is not None:
                    c.supported.parse(["NICKLEN=%d" % case["nicklen"]])
                t2.writes.clear()
                transports.append(t2)
        guard = 0
        while rate is not None and clock.getDelayedCalls() and guard < 100000:
            guard += 1
            clock.advance(rate)
        return (";".join(tags) + " @ " + ",".join(map(str, counts)) + " @ "
                + "/".join("|".join(w.hex() for w in tr.writes) for tr in transports))
    finally:
        irc.reactor = saved


SHOW_NONE = "None"


def _show_xmsgs(msgs) -> str:
    return "[" + ",".join("(" + show_str(tag) + "," + (SHOW_NONE if data is None else "Some(" + show_str(data) + ")") + ")"
                          for tag, data in msgs) + "]"


def _impl_ctcp(case) -> str:
    """direct path: ctcpExtract(ctcpStringify(msgs)); wire path: ctcpMakeQuery / ctcpMakeReply on a sending
    client, the written lines fed to a receiving client, what its ctcpQuery / ctcpReply receive"""
    from twisted.words.protocols import irc
    msgs = [(tag, data) for tag, data in case["msgs"]]
    ex = irc.ctcpExtract(irc.ctcpStringify(msgs))
    direct = "E" + _show_xmsgs(ex["extended"]) + "N[" + ",".join(show_str(x) for x in ex["normal"]) + "]"
    got = {"Q": [], "R": []}

    class R(irc.IRCClient):
        performLogin = False
        nickname = "peer"

        def ctcpQuery(self, user, channel, messages):
            got["Q"].extend(messages)

        def ctcpReply(self, user, channel, messages):
            got["R"].extend(messages)

    wire = []
    for key, meth in (("Q", "ctcpMakeQuery"), ("R", "ctcpMakeReply")):
        c, t = _client(None)
        getattr(c, meth)("peer", msgs)
        r = R()
        r.makeConnection(_Transport())
        for w in t.writes:
            r.dataReceived(w)
        wire.append(key + _show_xmsgs(got[key]))
    return direct + " | " + " ".join(wire)


# --------------------------------------------------------------------------------------
# oracle


def _limit(case) -> int:
    fmt = "%s %s :" % (case["type"], case["user"])
    if case["length"] is not None:
        return case["length"]
    nl = case.get("nicklen")
    return 512 - (1 + (9 if nl is None else nl) + 1 + 10 + 1 + 63 + 1 + len(fmt)) - 10


def _ref_low_dequote(s: str) -> str:
    table = {"0": "\x00", "n": "\n", "r": "\r", "\x10": "\x10"}
    out, i = [], 0
    while i < len(s):
        if s[i] == "\x10" and i + 1 < len(s):
            out.append(table.get(s[i + 1], s[i + 1]))
            i += 2
        else:
            out.append(s[i])
            i += 1
    return "".join(out)


def _received(writes):
    """what a receiving IRCClient delivers for the written lines: [(command, target, message), ...]
    (None when the receiver takes another path, e.g. CTCP)"""
    from twisted.words.protocols import irc
    got = []

    class R(irc.IRCClient):
        performLogin = False
        nickname = "peer"

        def privmsg(self, user, channel, message):
            got.append(("PRIVMSG", channel, message))

        def noticed(self, user, channel, message):
            got.append(("NOTICE", channel, message))

    r = R()
    r.makeConnection(_Transport())
    for w in writes:
        r.dataReceived(w)
    return got


def _nonspace(s: str) -> str:
    return "".join(c for c in s if not c.isspace())


def _in_finding_class(case) -> bool:
    text = case["message"] + case["user"]
    return any(ord(c) > 127 or c in "\x00\x10" for c in text)


def _wrap_table(case):
    fmt = "%s %s :" % (case["type"], case["user"])
    width = _limit(case) - (len(fmt) + 2)
    if width < 1:
        return None, width
    return [textwrap.wrap(line, width) for line in case["message"].split("\n")], width


def oracle(case, obs):
    if case["kind"] == "quote":
        parts = obs.split(" ")
        s = case["s"]
        want = show_str(s)
        if parts[1] != want:
            return Failure(case, f"lowDequote(lowQuote(s)) = {parts[1]}, s = {want}", "low-roundtrip")
        if parts[4] != want:
            return Failure(case, f"ctcpDequote(ctcpQuote(s)) = {parts[4]}, s = {want}", "ctcp-roundtrip")
        lq = [int(x) for x in parts[0].strip("[]").split(",") if x]
        if any(x in (0, 10, 13) for x in lq):
            return Failure(case, f"lowQuote output {parts[0]} contains NUL/CR/LF", "low-delimiter")
        xq = [int(x) for x in parts[3].strip("[]").split(",") if x]
        if 1 in xq:
            return Failure(case, f"ctcpQuote output {parts[3]} contains X-DELIM", "ctcp-delimiter")
        return None
    if case["kind"] == "ctcp":
        msgs = [(tag, data) for tag, data in case["msgs"]]
        wf = all(" " not in tag and (tag or data) for tag, data in msgs)
        if not wf:
            return None
        want = [(tag, data if data else None) for tag, data in msgs]
        direct, wire = obs.split(" | ")
        exp = "E" + _show_xmsgs(want) + "N[]"
        if direct != exp:
            cls = "leading-space" if any(d and d.startswith(" ") for _, d in msgs) else "other"
            return Failure(case, f"ctcpExtract(ctcpStringify({msgs!r})) gives {direct}, expected {exp}",
                           "ctcp-message-roundtrip-" + cls)
        # through two clients, for messages the line splitter leaves alone (one line, no TAB/LF/CR/VT/FF)
        text = "".join((t or "") + (d or "") for t, d in msgs)
        if not any(c in text for c in "\t\n\r\x0b\x0c") and len(text) + 4 * len(msgs) < 200 and msgs:
            for key, part in zip("QR", wire.split(" ")):
                if part != key + _show_xmsgs(want):
                    cls = "leading-space" if any(d and d.startswith(" ") for _, d in msgs) else "other"
                    return Failure(case, f"{'ctcpMakeQuery' if key == 'Q' else 'ctcpMakeReply'}({msgs!r}) arrives at the "
                                   f"peer's {'ctcpQuery' if key == 'Q' else 'ctcpReply'} as {part}", "ctcp-wire-roundtrip-" + cls)
        return None
    if case["kind"] == "rate":
        tags, counts, writes = obs.split(" @ ")
        # the full ordered sequence of lines must be the one the same calls write with lineRate = None
        ref = _impl_rate(case, rate=None)
        rtags, _, rwrites = ref.split(" @ ")
        if tags != rtags:
            return Failure(case, f"with lineRate={case['rate']} the calls end as {tags}, without as {rtags}", "rate-outcome")
        gts = [x.split("|") if x else [] for x in writes.split("/")]
        wts = [x.split("|") if x else [] for x in rwrites.split("/")]
        if len(gts) != len(wts):
            return Failure(case, "different number of transports", "rate-transports")
        # lines queued when the connection is lost may be dropped: earlier transports carry a prefix
        for k, (g, w) in enumerate(zip(gts[:-1], wts[:-1])):
            if g != w[:len(g)]:
                return Failure(case, f"lineRate={case['rate']}: transport {k} got {len(g)} lines that are not a prefix of "
                               f"the {len(w)} lines written without rate limiting", "rate-queue-order")
        got, want = gts[-1], wts[-1]
        if got != want:
            after = " after the reconnect" if len(gts) > 1 else ""
            if sorted(got) == sorted(want):
                i = next(j for j, (a, b) in enumerate(zip(got, want)) if a != b)
                return Failure(case, f"lineRate={case['rate']}: the same {len(got)} lines are written in another order{after}; "
                               f"line {i + 1} is {bytes.fromhex(got[i])[:50]!r}, without rate limiting it is "
                               f"{bytes.fromhex(want[i])[:50]!r}", "rate-queue-order")
            return Failure(case, f"lineRate={case['rate']}: {len(got)} lines written{after} once the clock has run, "
                           f"{len(want)} without rate limiting", "rate-queue-lost-or-extra" + ("-after-reconnect" if after else ""))
        # rate limiting itself: after a call and its ticks at most (lines before + 1 + ticks) lines are out
        before = 0
        rc = case.get("reconnect")
        for i, (n, t) in enumerate(zip([int(x) for x in counts.split(",")], case["ticks"])):
            if n > before + 1 + t:
                return Failure(case, f"{n - before} lines written within {t} rate interval(s)", "rate-not-limited")
            before = 0 if rc and rc["after"] == i + 1 else n
        # and each call on its own satisfies the property (checked on the unqueued sequence, call by call)
        sub = {"kind": "hist", "calls": case["calls"]}
        if "nicklen" in case:
            sub["nicklen"] = case["nicklen"]
        return oracle(sub, impl(sub))
    if case["kind"] == "hist":
        obss = obs.split(";")
        if len(obss) != len(case["calls"]):
            return Failure(case, "malformed history observation", "history")
        for i, (call, o) in enumerate(zip(case["calls"], obss)):
            sub = dict(call, kind="send")
            if "nicklen" in case:
                sub["nicklen"] = case["nicklen"]
            f = oracle(sub, o)
            if f is not None:
                # a call that fails on its own fails the same way alone; what is specific to a history is a call
                # that is fine alone: tag it as depending on the earlier calls
                alone = oracle(sub, impl(sub))
                tag = f.tag if alone is not None and alone.tag == f.tag else "history-dependent:" + f.tag
                return Failure(case, f"call {i + 1} of {len(obss)} on the same client ({call['type']} {call['user']!r}, "
                               f"length={call['length']}): {f.reason}", tag)
        return None
    fmt = "%s %s :" % (case["type"], case["user"])
    limit = _limit(case)
    if limit <= len(fmt) + 2:
        if obs != "ValueError":
            return Failure(case, f"limit {limit} <= len(fmt)+2 but no ValueError: {obs[:80]}", "no-valueerror")
        return None
    if obs == "ValueError":
        return Failure(case, f"ValueError although limit {limit} > len(fmt)+2 = {len(fmt) + 2}", "spurious-valueerror")
    # the oracle function's assumed facts (textwrap.wrap vs. its three-line spec)
    table, width = _wrap_table(case)
    for line, pieces in zip(case["message"].split("\n"), table):
        if any(len(p) > width for p in pieces):
            return Failure(case, f"textwrap.wrap returned a piece longer than {width}", "textwrap-spec-width")
        if _nonspace("".join(pieces)) != _nonspace(line):
            return Failure(case, "textwrap.wrap changed the non-whitespace content", "textwrap-spec-content")
        if any(c not in line and c != " " for p in pieces for c in p):
            return Failure(case, "textwrap.wrap produced a character that is not in the line", "textwrap-spec-chars")
    # textwrap normalises every ASCII whitespace character to a space
    for line, pieces in zip(case["message"].split("\n"), table):
        if any(c in "\t\n\x0b\x0c\r" for p in pieces for c in p):
            return Failure(case, "textwrap.wrap left a TAB/LF/VT/FF/CR in a piece", "textwrap-spec-whitespace")
    writes = [bytes.fromhex(x) for x in obs.split("|")] if obs else []
    parts = []
    over = None
    for wr in writes:
        if not wr.endswith(b"\r\n"):
            return Failure(case, f"line {wr!r} does not end in CR LF", "terminator")
        body = wr[:-2]
        if any(b in body for b in (b"\r", b"\n", b"\x00")):
            return Failure(case, f"line {wr!r} contains CR, LF or NUL before its terminator", "crlf-in-line")
        try:
            text = _ref_low_dequote(body.decode("utf-8"))
        except UnicodeDecodeError:
            return Failure(case, f"line {wr!r} is not UTF-8", "not-utf8")
        if not text.startswith(fmt):
            return Failure(case, f"line {text!r} does not start with {fmt!r}", "prefix")
        part = text[len(fmt):]
        # what the receiver reconstructs (after low-level dequoting) must be a piece of the message with its
        # whitespace normalised: a CR or LF of the text must not travel as M_QUOTE 'r' / M_QUOTE 'n' and come
        # back as a CR / LF inside the delivered message
        if "\r" in part or "\n" in part:
            return Failure(case, f"line {wr!r}: the receiver reconstructs {part!r}, which contains a CR/LF of the "
                           f"text (sent low-quoted) instead of the whitespace-normalised piece", "quoted-cr-lf-in-part")
        if any(c in "\t\x0b\x0c" for c in part):
            return Failure(case, f"line {wr!r}: reconstructed part {part!r} contains un-normalised whitespace",
                           "unnormalised-whitespace-in-part")
        parts.append(part)
        if len(text) + 2 > limit:
            return Failure(case, f"line of {len(text) + 2} characters for limit {limit}", "char-limit")
        if len(wr) > limit and over is None:
            over = (wr, text)
    # the same through a real receiving IRCClient (when the message does not take the CTCP path)
    if "\x01" not in case["message"] and " " not in case["user"] and writes:
        got = _received(writes)
        want = [(case["type"], case["user"], p) for p in parts]
        if got != want:
            return Failure(case, f"a receiving IRCClient delivers {got[:3]!r}, the lines carry {want[:3]!r}", "receiver-delivery")
    if _nonspace("".join(parts)) != _nonspace(case["message"]):
        return Failure(case, f"message parts {parts!r} do not carry the non-whitespace content of {case['message']!r}",
                       "content-lost")
    if over is not None:
        wr, text = over
        if any(ord(c) > 127 for c in text):
            tag = "octet-limit-multibyte"
        elif any(c in "\x00\x10" for c in text):
            tag = "octet-limit-lowquote-expansion"      # DLE / NUL of the text itself, doubled by lowQuote
        else:
            tag = "octet-limit"
        return Failure(case, f"line of {len(wr)} octets for limit {limit}: {wr[:60]!r}...", tag)
    return None


def model_equal(case, a, b):
    if a == b:
        return True
    # inside the known-finding input class a repaired implementation (splitting on octets) is accepted
    # when it satisfies the whole property on this case
    if case["kind"] == "send" and _in_finding_class(case) and a != "ValueError" and oracle(case, a) is None:
        return True
    if case["kind"] == "ctcp":
        return a.split(" | ")[0] == b
    if case["kind"] == "rate":
        sub = {"kind": "hist", "calls": case["calls"]}
        return any(_in_finding_class(dict(c, kind="send")) for c in case["calls"]) and oracle(case, a) is None
    if case["kind"] == "hist" and a.count(";") == b.count(";") == len(case["calls"]) - 1:
        return all(model_equal(dict(call, kind="send", **({"nicklen": case["nicklen"]} if "nicklen" in case else {})), x, y)
                   for call, x, y in zip(case["calls"], a.split(";"), b.split(";")))
    return False


# --------------------------------------------------------------------------------------
# generation

WORDS = ["hello", "world", "a", "I", "supercalifragilisticexpialidocious", "x-y-z", "foo,bar", "été",
         "€€€", "\U0001F600", "naïve", "日本語テキスト", "end.", "\x10", "\x00",
         "a\x10b", "\x02bold\x02", "\x01ACTION\x01"]
SEPS = [" ", " ", " ", "  ", "\n", "\n\n", "\t", "\r", "\r\n", " ", "\xa0", "\x1c", "-", ""]
QCH = ["\x10", "\x00", "\n", "\r", "\\", "\x01", "a", "0", "n", "r", "é", " "]


def _message(rng, n=None):
    n = rng.randrange(0, 14) if n is None else n
    out = []
    for _ in range(n):
        out.append(rng.choice(WORDS))
        out.append(rng.choice(SEPS))
    if rng.random() < 0.2:
        out.append("w" * rng.randrange(30, 200))
    return "".join(out)


def corpus():
    return [
        {"kind": "send", "type": "PRIVMSG", "user": "u", "message": "é" * 20, "length": 30},          # F17 (model witness)
        {"kind": "send", "type": "PRIVMSG", "user": "#chan", "message": "日本語 " * 30, "length": 60},  # F17 (DESIGN: 103 octets)
        {"kind": "send", "type": "PRIVMSG", "user": "u", "message": "\x10" * 17, "length": 30},
        {"kind": "send", "type": "NOTICE", "user": "nick", "message": "hello world\nsecond line\r\n\nlast", "length": None},
        {"kind": "send", "type": "PRIVMSG", "user": "u", "message": "x", "length": 13},
        {"kind": "send", "type": "PRIVMSG", "user": "u", "message": "x y", "length": 14},
        {"kind": "send", "type": "PRIVMSG", "user": "foo", "message": "ab\rcd", "length": 20},
        {"kind": "send", "type": "PRIVMSG", "user": "u", "message": "w" * 900, "length": 700},
        {"kind": "ctcp", "msgs": [["ACTION", " waves"], ["X", "  "], ["PING", None], ["V", ""]]},
        {"kind": "rate", "rate": 1, "ticks": [0, 0], "reconnect": {"after": 1, "gap": 0},
         "calls": [{"type": "PRIVMSG", "user": "u", "message": "one two three four five six", "length": 18},
                   {"type": "PRIVMSG", "user": "u", "message": "seven eight nine ten", "length": 18}]},
        {"kind": "rate", "rate": 1, "ticks": [0, 1],
         "calls": [{"type": "PRIVMSG", "user": "u", "message": "one two three four five six", "length": 18},
                   {"type": "NOTICE", "user": "u", "message": "seven eight", "length": 18}]},
        {"kind": "hist", "calls": [{"type": "PRIVMSG", "user": "u", "message": "hello", "length": None},
                                   {"type": "PRIVMSG", "user": "u", "message": "hello world " * 12, "length": 40},
                                   {"type": "PRIVMSG", "user": "u", "message": "x", "length": 12}]},
        {"kind": "quote", "s": "\x10\x00\n\r\x100n\x10"},
        {"kind": "quote", "s": "\\\x01\\a\x01b\\"},
    ]


def gen(rng, tier):
    import itertools
    cases = []
    k = 3 if tier == "quick" else 4
    small = ["\x10", "\x00", "\n", "\\", "\x01", "a", "0"]
    for n in range(k + 1):
        for tup in itertools.product(small, repeat=n):
            cases.append({"kind": "quote", "s": "".join(tup)})
    for _ in range(300 if tier == "quick" else 2000):
        cases.append({"kind": "quote", "s": "".join(rng.choice(QCH) for _ in range(rng.randrange(0, 12)))})
    for _ in range(500 if tier == "quick" else 2500):
        typ = rng.choice(["PRIVMSG", "NOTICE"])
        user = rng.choice(["u", "#chan", "nick", "#é", "&x"])
        minimum = len("%s %s :" % (typ, user)) + 2
        r = rng.random()
        if r < 0.15:
            length = minimum + rng.choice([-1, 0, 1, 2, 3])
        elif r < 0.3:
            length = None
        else:
            length = rng.randrange(minimum + 1, 140)
        case = {"kind": "send", "type": typ, "user": user, "message": _message(rng), "length": length}
        if length is None and rng.random() < 0.5:
            case["nicklen"] = rng.choice([1, 9, 30, 200, 330])
        cases.append(case)
    # explicit limits above MAX_COMMAND_LENGTH with long words / long spans between newlines: nothing may be
    # cut at the transport
    for _ in range(30 if tier == "quick" else 300):
        typ, user = rng.choice(["PRIVMSG", "NOTICE"]), rng.choice(["u", "#chan"])
        length = rng.choice([513, 600, 700, 1500, 512, 511])
        n = rng.randrange(480, 1700)
        if rng.random() < 0.5:
            msg = "".join(rng.choice("abcdefghij") for _ in range(n))
        else:
            msg = " ".join("".join(rng.choice("klmnop") for _ in range(rng.randrange(1, 12))) for _ in range(n // 6))
        if rng.random() < 0.3:
            msg = msg[: n // 2] + "\n" + msg[n // 2:]
        cases.append({"kind": "send", "type": typ, "user": user, "message": msg, "length": length})
    # histories: several calls on ONE client with varying length (None then explicit, explicit then None,
    # different explicit values), same and different targets; each call must behave as it does alone
    for _ in range(100 if tier == "quick" else 800):
        users = rng.sample(["u", "#chan", "nick", "foo"], 2)
        calls = []
        for _ in range(rng.randrange(2, 5)):
            typ = rng.choice(["PRIVMSG", "PRIVMSG", "NOTICE"])
            user = users[0] if rng.random() < 0.7 else users[1]
            minimum = len("%s %s :" % (typ, user)) + 2
            r = rng.random()
            if r < 0.35:
                length = None
            elif r < 0.5:
                length = minimum + rng.choice([-1, 0, 1, 5])
            else:
                length = rng.randrange(minimum + 5, 120)
            words = rng.randrange(1, 90 if rng.random() < 0.4 else 12)
            msg = " ".join(rng.choice(["hello", "world", "ab", "x", "longerword"]) for _ in range(words))
            calls.append({"type": typ, "user": user, "message": msg, "length": length})
        case = {"kind": "hist", "calls": calls}
        if rng.random() < 0.3:
            case["nicklen"] = rng.choice([1, 9, 30])
        cases.append(case)
    # lineRate set (rate-limited output queue) on a task.Clock: messages that split into several distinct lines,
    # several messages inside one rate interval, partial draining between calls
    for _ in range(150 if tier == "quick" else 800):
        calls, ticks = [], []
        for _ in range(rng.randrange(1, 4)):
            typ = rng.choice(["PRIVMSG", "PRIVMSG", "NOTICE"])
            user = rng.choice(["u", "#chan"])
            minimum = len("%s %s :" % (typ, user)) + 2
            length = rng.choice([None, minimum + rng.randrange(4, 30), minimum + rng.randrange(4, 30), minimum])
            nwords = rng.randrange(1, 25)
            msg = " ".join("%s%d" % (rng.choice(["w", "ab", "xyz"]), i) for i in range(nwords))
            if rng.random() < 0.3:
                msg = msg.replace(" ", "\n", 2)
            calls.append({"type": typ, "user": user, "message": msg, "length": length})
            ticks.append(rng.choice([0, 0, 1, 2, 50]))
        case = {"kind": "rate", "rate": rng.choice([0.5, 1, 2, 0.25]), "calls": calls, "ticks": ticks}
        # reconnect of the SAME client: connectionLost with the timer pending (few ticks) or idle (50 ticks),
        # 0..2 more ticks while disconnected, makeConnection on a new transport, then the remaining calls
        if len(calls) >= 2 and rng.random() < 0.5:
            case["reconnect"] = {"after": rng.randrange(1, len(calls)), "gap": rng.choice([0, 0, 1, 2])}
        cases.append(case)
    # CTCP at message level: ctcpStringify -> ctcpExtract, and ctcpMakeQuery / ctcpMakeReply through
    # client -> wire -> client; data from a hostile alphabet incl. leading / trailing / only spaces, empty vs
    # absent data, several extended messages in one line
    tags_ = ["ACTION", "PING", "VERSION", "X", "a\x01b", "\\", "T\\a", "", "é"]
    datas = [None, "", " ", "  ", " x", "x ", " x ", "a b", "a  b", "\x01", "\\", "\\a", "\x01\\ ", "é", ":", "\x10",
             "  lead", "trail  ", "\t", "a\nb", "1234567890"]
    for d in datas:
        cases.append({"kind": "ctcp", "msgs": [["ACTION", d]]})
        cases.append({"kind": "ctcp", "msgs": [["X", d], ["PING", "1"]]})
    for _ in range(200 if tier == "quick" else 3000):
        cases.append({"kind": "ctcp", "msgs": [[rng.choice(tags_), rng.choice(datas)] for _ in range(rng.randrange(0, 4))]})
    # texts with bare CRs and no LF that fit one line, at and just below the limit
    for _ in range(120 if tier == "quick" else 1200):
        typ, user = rng.choice(["PRIVMSG", "NOTICE"]), rng.choice(["u", "#c", "foo"])
        minimum = len("%s %s :" % (typ, user)) + 2
        words = [rng.choice(["ab", "cd", "x", "hello", "e-f"]) for _ in range(rng.randrange(2, 6))]
        msg = words[0] + "".join(rng.choice(["\r", "\r", " ", "\r\r", "\t"]) + w for w in words[1:])
        if rng.random() < 0.2:
            msg = rng.choice(["\r", ""]) + msg + rng.choice(["\r", ""])
        cases.append({"kind": "send", "type": typ, "user": user, "message": msg,
                      "length": minimum + len(msg) + rng.choice([0, 0, 1, 2, 3, 10, -1])})
    # plain ASCII messages (the class of the _partial theorem) with widths around word boundaries
    for _ in range(150 if tier == "quick" else 600):
        typ, user = "PRIVMSG", rng.choice(["u", "#c"])
        minimum = len("%s %s :" % (typ, user)) + 2
        words = [rng.choice(["ab", "cde", "f", "ghij-kl", "m" * rng.randrange(1, 25)]) for _ in range(rng.randrange(1, 10))]
        msg = rng.choice([" ", "\n", "  "]).join(words)
        cases.append({"kind": "send", "type": typ, "user": user, "message": msg,
                      "length": minimum + rng.randrange(1, 30)})
    return cases


def coq_cps(s: str) -> str:
    if not s:
        return "(@nil N)"
    return "[" + ";".join(str(ord(c)) for c in s) + "]%N"


def to_coq(case):
    if case["kind"] == "quote":
        return "CQuote " + coq_cps(case["s"])
    if case["kind"] == "ctcp":
        if any(0xD800 <= ord(ch) <= 0xDFFF for t, d in case["msgs"] for ch in (t + (d or ""))):
            return None
        ms = ["(" + coq_cps(t) + ", " + ("None" if d is None else "Some " + coq_cps(d)) + ")" for t, d in case["msgs"]]
        return "CCtcp " + ("[" + "; ".join(ms) + "]" if ms else "(@nil xmsg)")
    if case["kind"] == "rate":
        terms = []
        for call, ticks in zip(case["calls"], case["ticks"]):
            sub = dict(call, kind="send")
            if "nicklen" in case:
                sub["nicklen"] = case["nicklen"]
            t = to_coq(sub)
            if t is None:
                return None
            terms.append(f"({t}, {ticks}%nat)")
        rc = case.get("reconnect")
        return "CRate [" + "; ".join(terms) + "] " + (f"(Some ({rc['after']}%nat, {rc['gap']}%nat))" if rc else "None")
    if case["kind"] == "hist":
        terms = []
        for call in case["calls"]:
            sub = dict(call, kind="send")
            if "nicklen" in case:
                sub["nicklen"] = case["nicklen"]
            t = to_coq(sub)
            if t is None:
                return None
            terms.append("(" + t + ")")
        return "CHist [" + "; ".join(terms) + "]"
    if any(0xD800 <= ord(c) <= 0xDFFF for c in case["message"] + case["user"]):
        return None
    table, width = _wrap_table(case)
    if table is None:
        wr = "(@nil (list (list N)))"
    else:
        wr = "[" + "; ".join(("[" + "; ".join(coq_cps(p) for p in ps) + "]") if ps else "(@nil (list N))" for ps in table) + "]"
    nl = case.get("nicklen")
    ln = "None" if case["length"] is None else f"(Some ({case['length']})%Z)"
    return (f"CSend {9 if nl is None else nl}%nat {coq_cps(case['type'])} {coq_cps(case['user'])} "
            f"{coq_cps(case['message'])} {ln} {wr}")


def shrink(case):
    if case["kind"] == "ctcp":
        msgs = case["msgs"]
        for i in range(len(msgs)):
            if len(msgs) > 1:
                yield dict(case, msgs=msgs[:i] + msgs[i + 1:])
            tag, data = msgs[i]
            if data:
                for k in range(len(data)):
                    yield dict(case, msgs=msgs[:i] + [[tag, data[:k] + data[k + 1:]]] + msgs[i + 1:])
            if len(tag) > 1:
                yield dict(case, msgs=msgs[:i] + [[tag[:1], data]] + msgs[i + 1:])
        return
    if case["kind"] == "rate":
        calls, ticks = case["calls"], case["ticks"]
        for i in range(len(calls)):
            if len(calls) > 1:
                if case.get("reconnect"):
                    continue        # keep the call structure around a reconnect
                yield dict(case, calls=calls[:i] + calls[i + 1:], ticks=ticks[:i] + ticks[i + 1:])
        for i, call in enumerate(calls):
            m = call["message"]
            for cut in (len(m) // 2, len(m) // 4, 8, 1):
                if cut and len(m) > cut:
                    yield dict(case, calls=calls[:i] + [dict(call, message=m[:-cut])] + calls[i + 1:])
            if ticks[i]:
                yield dict(case, ticks=ticks[:i] + [0] + ticks[i + 1:])
        return
    if case["kind"] == "hist":
        calls = case["calls"]
        for i in range(len(calls)):
            if len(calls) > 1:
                yield dict(case, calls=calls[:i] + calls[i + 1:])
        for i, call in enumerate(calls):
            m = call["message"]
            for cut in (len(m) // 2, len(m) // 4, 8, 1):
                if cut and len(m) > cut:
                    yield dict(case, calls=calls[:i] + [dict(call, message=m[:-cut])] + calls[i + 1:])
        return
    if case["kind"] == "quote":
        s = case["s"]
        for i in range(len(s)):
            yield {"kind": "quote", "s": s[:i] + s[i + 1:]}
        return
    m = case["message"]
    for cut in (len(m) // 2, len(m) // 4, 1):
        if cut and len(m) > cut:
            yield dict(case, message=m[cut:])
            yield dict(case, message=m[:-cut])
    for i in range(min(len(m), 40)):
        yield dict(case, message=m[:i] + m[i + 1:])
    if case["user"] != "u":
        yield dict(case, user="u")


def hist(case, obs):
    if case["kind"] == "quote":
        return "quote"
    if case["kind"] == "hist":
        return "history-%d-calls" % len(case["calls"])
    if case["kind"] == "ctcp":
        return "ctcp-%d-messages" % min(len(case["msgs"]), 3)
    if case["kind"] == "rate" and case.get("reconnect"):
        return "rate-limited:reconnect"
    if case["kind"] == "rate":
        n = obs.split(" @ ")[-1].count("|") + 1 if obs.split(" @ ")[-1] else 0
        return "rate-limited:%s-lines" % ("0-2" if n <= 2 else "3-9" if n <= 9 else "10+")
    if obs == "ValueError":
        return "send:ValueError"
    n = obs.count("|") + 1 if obs else 0
    return "send:%s-lines" % ("0" if n == 0 else "1" if n == 1 else "2-5" if n <= 5 else "6+")


SPEC = Spec(
    pid="C43",
    gen=gen,
    impl=impl,
    oracle=oracle,
    coq_header="From C43 Require Import Gen Model Run.",
    coq_fn="run_show",
    to_coq=to_coq,
    regen=lambda: tr.regen(REPO, COQ),
    corpus=corpus,
    shrink=shrink,
    histogram=hist,
    model_equal=model_equal,
    nontrivial=lambda c, o: (c["kind"] == "quote" and any(ch in c["s"] for ch in "\x10\x00\n\r\\\x01")) or
                            (c["kind"] in ("send", "hist", "rate") and "|" in o) or
                            (c["kind"] == "ctcp" and any(d for _, d in c["msgs"])),
    rule="quote: every string of length <= 3 (thorough 4) over {DLE NUL LF backslash X-DELIM a 0} and random strings "
         "over the quoting alphabets (quote, dequote of the quoted, dequote of the raw string, for both levels); send: "
         "msg/notice to 5 targets with messages of 0..13 words from an 18-word list (long words, multi-byte, astral, "
         "DLE, NUL, CTCP) joined by 14 separators (spaces, LF, CR, CRLF, TAB, Unicode spaces, hyphen), limits at "
         "len(fmt)+2 -1..+3, None (NICKLEN 1..330) and random 14..140; plain-ASCII messages with widths around word "
         "boundaries; bare-CR / TAB texts without LF at the limit; explicit limits 511..1500 with spans of 480..1700 "
         "characters; histories of 2..4 msg/notice calls on ONE client with length None / explicit / too small, same "
         "and different targets (each call must behave as it does alone); the same with lineRate set (0.25..2 s) on a "
         "task.Clock: 1..3 calls whose messages split into distinct numbered lines, 0/1/2/50 clock ticks after each "
         "call, final drain -- the ordered sequence of lines must equal the lineRate=None sequence; half of the multi-call "
         "cases lose the connection after a call (timer pending or idle), tick 0..2 times and reconnect the same client "
         "to a new transport; ctcp: lists of 0..3 (tag, data) from 9 tags and 21 data values (None, empty, leading / "
         "trailing / only spaces, X-DELIM, backslashes, TAB, LF) through ctcpStringify/ctcpExtract and through "
         "ctcpMakeQuery / ctcpMakeReply between two clients. non-trivial = quoting of a special character / a message split into >= 2 lines",
    trusted=[
        "translator translate/replace_chain.py + translate/c43.py (fail-closed; validated by this correspondence run)",
        "coq/Lib/PyStr.v py_replace and coq/Lib/CodecsText.v re_sub_escape (re.sub of <Q>. with DOTALL and the "
        "table-lookup callback), utf8: assumed semantics of CPython, validated by this correspondence run",
        "textwrap.wrap is an oracle: its results are passed to the model; the three facts the theorems assume about "
        "it (width, non-whitespace content, characters) are checked on every case",
        "hand-written model of _sendMessage/split/_reallySendLine/_safeMaximumLineLength (coq/C43/Model.v)",
    ],
    assumptions=["text has no lone surrogates; lineRate None, or set with irc.reactor replaced by a task.Clock",
                 "msgType and user are given by the caller (not split)"],
)
