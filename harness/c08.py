"""C08 — reactor timed calls (ReactorBase.callLater / runUntilCurrent / timeout, heapq, _moveCallLaterSooner,
lazy delayed_time, cancellation compaction): H-tie (hand-written model coq/C08 + coq/Lib/TimersHeap.v).

case = {"k": scale exponent (times are n / 2**k seconds),
        "ops": [["later", d>=0] | ["cancel", i] | ["reset", i, s] | ["delay", i, s] | ["snap"]
                | ["adv", a] | ["run"] | ["timeout"]],
        "bodies": [[bop, ...], ...]}     # bodies[i] = what the function of call #i (creation order) does
The implementation is a ReactorBase subclass with seconds() overridden and no waker / no I/O; one
reactor iteration = runUntilCurrent() (+ timeout(), which also drains the staging list).
"""
from __future__ import annotations

import itertools

from harness.c09 import Boom, Ref, coq_bop, digest, exact, pull_case, rand_bop
from harness.common import Failure, Spec, coq_list

LONGEST = 2147483


_QUIET = [False]


def _quiet_logging():
    """the reactor logs the failure of a call function that raises; keep that off stderr"""
    if not _QUIET[0]:
        from twisted.logger import globalLogBeginner
        globalLogBeginner.beginLoggingTo([lambda event: None], redirectStandardIO=False, discardBuffer=True)
        _QUIET[0] = True


def impl(case) -> str:
    from twisted.internet import error
    from twisted.internet.base import ReactorBase

    _quiet_logging()

    class Reactor(ReactorBase):
        _t = 0.0

        def installWaker(self):
            pass

        def seconds(self):
            return self._t

    reactor = Reactor()
    K = 2 ** case["k"]
    bodies = case["bodies"]
    calls, index, toks = [], {}, []

    def do(b):
        kind = b[0]
        if kind == "later":
            i = len(calls)
            dc = reactor.callLater(b[1] / K, fn, i)
            calls.append(dc)
            index[id(dc)] = i
            toks.append(f"L{i}@{exact(dc.getTime(), K)}")
        elif kind == "snap":
            got = sorted((index[id(dc)], exact(dc.getTime(), K)) for dc in reactor.getDelayedCalls())
            toks.append("[" + ",".join(f"{i}:{t}" for i, t in got) + "]")
        else:
            i = b[1]
            if i >= len(calls):
                toks.append(f"N{i}")
                return
            dc = calls[i]
            try:
                if kind == "cancel":
                    dc.cancel()
                    toks.append(f"C{i}")
                elif kind == "reset":
                    dc.reset(b[2] / K)
                    toks.append(f"R{i}@{exact(dc.getTime(), K)}")
                else:
                    dc.delay(b[2] / K)
                    toks.append(f"D{i}@{exact(dc.getTime(), K)}")
            except error.AlreadyCalled:
                toks.append(f"XA{i}")
            except error.AlreadyCancelled:
                toks.append(f"XC{i}")

    def fn(i):
        toks.append(f"(r{i}@{exact(reactor.seconds(), K)}:{exact(calls[i].getTime(), K)}")
        for b in (bodies[i] if i < len(bodies) else []):
            if b[0] == "raise":
                toks.append(")!")
                raise Boom()              # caught and logged by runUntilCurrent
            do(b)
        toks.append(")")

    for o in case["ops"]:
        if o[0] == "adv":
            reactor._t += o[1] / K
        elif o[0] == "run":
            toks.append("A")
            reactor.runUntilCurrent()
            toks.append("=" + exact(reactor.seconds(), K))
        elif o[0] == "timeout":
            t = reactor.timeout()
            toks.append("Tnone" if t is None else "T" + exact(t, K))
        else:
            do(o)
    return " ".join(toks)


# ----------------------------------------------------------------------------------------------
# the property on the implementation's log (reference timer; no heap, no model of the code)


class RRef(Ref):
    tie_by_creation = False      # the reactor promises no order among calls due at the same time


def oracle(case, obs):
    r = RRef(case, obs.split(" ") if obs else [])
    K = 2 ** case["k"]
    r.iteration = -1
    niter = 0
    for o in case["ops"]:
        if o[0] == "adv":
            r.now += o[1]
            continue
        if o[0] == "timeout":
            t = r.take()
            pend = r.pending()
            if t == "Tnone":
                if pend:
                    return r.fail(f"timeout() is None with calls {pend} pending", "timeout-none-with-pending")
                continue
            if t is None or not t.startswith("T") or t[1:].startswith("~"):
                return r.fail(f"timeout() token {t}", "log")
            v = int(t[1:])
            if v < 0 or v > LONGEST * K:
                return r.fail(f"timeout() = {v} outside [0, {LONGEST * K}]", "timeout-range")
            if pend:
                earliest = min(r.sched[i] for i in pend)
                if v > max(0, earliest - r.now):
                    return r.fail(f"timeout() = {v} at {r.now} but a call is due at {earliest}", "timeout-too-long")
            continue
        if o[0] != "run":
            f = r.bop(o)
            if f:
                return f
            continue
        if r.take() != "A":
            return r.fail("harness token", "log")
        niter += 1
        r.iteration = niter
        before = set(r.pending())                     # calls that exist when the iteration starts
        while (r.peek() or "").startswith("(r"):
            f = r.run_event(r.now, may_run=lambda i: r.created_in[i] != niter, cls="iteration")
            if f:
                return f
        r.iteration = -1
        due = [i for i in r.pending() if i in before and r.sched[i] <= r.now]
        if due:
            return r.fail(f"iteration at {r.now} ended with due call(s) {due} still pending "
                          f"(times {[r.sched[i] for i in due]})", "due-call-not-run")
        t = r.take()
        if t != f"={r.now}":
            return r.fail(f"after the iteration the clock reads {t}, expected {r.now}", "clock-value")
    if r.pos != len(r.toks):
        return r.fail(f"unexpected extra events {r.toks[r.pos:r.pos + 3]}", "extra-events")
    return None


# ----------------------------------------------------------------------------------------------
# generation


def rand_case(rng, nops, neg=False):
    k = rng.choice([0, 1, 3, 10, 20])
    raise_p = rng.choice([0.0, 0.0, 0.2, 0.5])
    small = rng.choice([[0, 1, 2, 3], [0, 1, 1, 2, 4, 8], [0, 5, 7, 16, 1000], [1, 2 ** 30, 3], [0, 0, 1]])
    nbodies = rng.randrange(0, 12)
    bodies = []
    for i in range(nbodies):
        if rng.random() < 0.5:
            bodies.append([])
        else:
            bodies.append([fix(rand_bop(rng, i + rng.randrange(4), small, neg)) for _ in range(rng.randrange(1, 4))])
            if rng.random() < raise_p:
                bodies[-1].insert(rng.randrange(len(bodies[-1]) + 1), ["raise"])
    ops, created = [], 0
    p_iter = rng.choice([0.15, 0.3, 0.5])
    for _ in range(nops):
        r = rng.random()
        if r < p_iter:
            if rng.random() < 0.85:
                ops.append(["adv", rng.choice(small)])
            ops.append(["run"])
            if rng.random() < 0.5:
                ops.append(["timeout"])
        elif r < p_iter + 0.05:
            ops.append(["timeout"])
        else:
            b = fix(rand_bop(rng, created + nbodies // 2, small, neg))
            if b[0] == "later":
                created += 1
            ops.append(b)
        if rng.random() < 0.35:
            ops.append(["snap"])
    ops += [["adv", max(small) * 3], ["run"], ["snap"], ["timeout"], ["run"], ["snap"]]
    return {"k": k, "ops": ops, "bodies": bodies}


def fix(b):
    """callLater asserts delay >= 0"""
    if b[0] == "later" and b[1] < 0:
        return ["later", -b[1]]
    return b


def compaction_case(rng):
    """> 50 cancellations outstanding and more than half the heap: the filter + heapify path, with few
    distinct times so that the heap layout decides the order of execution"""
    n = rng.randrange(52, 75)
    times = rng.choice([[4], [4, 5], [2, 4, 6, 8], list(range(1, 30))])
    ops = [["later", rng.choice(times)] for _ in range(n)]
    if rng.random() < 0.7:
        ops.append(["run"])                           # move them into the heap
    victims = rng.sample(range(n), rng.randrange(49, n + 1))
    for v in victims:
        ops.append(["cancel", v])
        if rng.random() < 0.05:
            ops.append(["later", rng.choice(times)])
    ops += [["snap"], ["run"], ["timeout"]]
    for _ in range(rng.randrange(0, 6)):
        ops.append(rng.choice([["later", rng.choice(times)], ["reset", rng.randrange(n), rng.choice(times)],
                               ["delay", rng.randrange(n), 1], ["cancel", rng.randrange(n)]]))
    ops += [["run"], ["snap"]]
    for t in sorted(set(times))[:4]:
        ops += [["adv", t if t == min(times) else 1], ["run"], ["timeout"]]
    ops += [["adv", 40], ["run"], ["snap"], ["timeout"]]
    bodies = [[] for _ in range(n)]
    for _ in range(rng.randrange(0, 4)):
        bodies[rng.randrange(n)] = [rng.choice([["later", 0], ["cancel", rng.randrange(n)],
                                                ["reset", rng.randrange(n), 0], ["delay", rng.randrange(n), 2]])]
    return {"k": rng.choice([0, 2]), "ops": ops, "bodies": bodies}


def compaction_reentrant_case(rng):
    """compaction (> 50 outstanding cancellations, more than half the queue) at the end of an iteration in which a
    RUNNING call schedules a call and cancels it at once: the cancelled call sits in the staging list when
    _cancellations is reset to 0, the next insertion drives the counter to -1, one more cancel() brings it back to 0
    with a cancelled call queued.  getDelayedCalls() is observed after every step."""
    n = rng.randrange(53, 70)
    far = rng.choice([[40], [40, 41], [40, 44, 48]])
    ops = [["later", rng.choice(far)] for _ in range(n)]
    runner = n                                   # id of the call whose function re-enters the timer API
    ops.append(["later", 3])
    extra = rng.randrange(0, 3)                  # other due calls around it
    for _ in range(extra):
        ops.append(["later", rng.choice([3, 2])])
    created = n + 1 + extra
    if rng.random() < 0.8:
        ops.append(["run"])                      # move everything into the heap
    victims = rng.sample(range(n), rng.randrange(50, n))
    for v in victims:
        ops.append(["cancel", v])
    k = rng.randrange(1, 4)                      # calls scheduled and cancelled at once by the running call
    body = []
    for j in range(k):
        body += [["later", rng.choice([0, 1, 50])], ["cancel", created + j]]
    if rng.random() < 0.5:
        body.append(["snap"])
    bodies = [[] for _ in range(runner)] + [body]
    ops += [["snap"], ["adv", 3], ["run"], ["snap"], ["timeout"], ["snap"]]
    survivors = [i for i in range(n) if i not in victims]
    for _ in range(rng.randrange(1, 4)):
        ops += [["run"], ["snap"]]
        if survivors:
            ops += [["cancel", survivors.pop(rng.randrange(len(survivors)))], ["snap"]]
        if rng.random() < 0.5:
            ops += [["later", 5], ["snap"]]
    ops += [["adv", 60], ["run"], ["snap"], ["timeout"]]
    return {"k": rng.choice([0, 1]), "ops": ops, "bodies": bodies}


ALPHABET = [[["later", 0]], [["later", 1]], [["later", 2]], [["adv", 1], ["run"]], [["run"]], [["cancel", 0]],
            [["reset", 1, 1]], [["reset", 0, 0]], [["delay", 0, 1]], [["delay", 1, -1]], [["timeout"]], [["delay", 0, -2]],
            [["reset", 0, 3]]]
EXH_BODIES = [[["later", 0], ["reset", 1, 0]], [["cancel", 2], ["delay", 0, 1]],
              [["later", 1], ["later", 1], ["reset", 3, 1]], [["snap"]]]
EXH_BODIES_RAISE = [[["later", 0], ["raise"], ["reset", 1, 0]], [["raise"]],
                    [["later", 1], ["later", 1], ["reset", 3, 1]], [["snap"], ["raise"]]]


def gen(rng, tier):
    cases = []
    depth = 4 if tier == "quick" else 5
    for n in range(1, depth + 1):
        for word in itertools.product(range(len(ALPHABET)), repeat=n):
            if n == depth and rng.random() > (0.012 if tier == "quick" else 0.006):
                continue
            if n == depth - 1 and rng.random() > (0.2 if tier == "quick" else 0.3):
                continue
            ops = [o for a in word for o in ALPHABET[a]]
            ops += [["snap"], ["adv", 1], ["run"], ["snap"], ["timeout"], ["adv", 3], ["run"], ["snap"]]
            cases.append({"k": 1, "ops": ops, "bodies": [EXH_BODIES, [], EXH_BODIES_RAISE][word[0] % 3]})
    for _ in range(200 if tier == "quick" else 3000):
        cases.append(rand_case(rng, rng.randrange(5, 70)))
    for _ in range(50 if tier == "quick" else 600):       # negative reset()/delay() arguments
        cases.append(rand_case(rng, rng.randrange(5, 40), neg=True))
    for _ in range(12 if tier == "quick" else 120):
        cases.append(compaction_case(rng))
    for _ in range(15 if tier == "quick" else 200):
        cases.append(compaction_reentrant_case(rng))
    for _ in range(120 if tier == "quick" else 2500):     # postponed, then pulled back by a negative delay()
        cases.append(pull_case(rng, lambda a: [["adv", a], ["run"], ["timeout"]]))
    return cases


def corpus():
    return [
        # lazy delayed_time: reset to later leaves the heap untouched; the call is re-pushed when it surfaces
        {"k": 0, "ops": [["later", 5], ["later", 8], ["run"], ["reset", 0, 15], ["snap"], ["timeout"], ["adv", 10],
                         ["run"], ["snap"], ["timeout"], ["adv", 5], ["run"], ["snap"]], "bodies": []},
        # reset to earlier / negative delay: in-place sift-up; a call scheduled during an iteration waits
        {"k": 3, "ops": [["later", 8], ["later", 16], ["later", 24], ["run"], ["reset", 2, 4], ["delay", 1, -12],
                         ["snap"], ["adv", 8], ["run"], ["snap"], ["run"], ["snap"]],
         "bodies": [[["later", 0], ["cancel", 1]], [], [["reset", 0, 0]], [["snap"]]]},
        # cancelled-in-staging-list bookkeeping
        {"k": 0, "ops": [["later", 1], ["cancel", 0], ["timeout"], ["later", 1], ["run"], ["adv", 1], ["run"]],
         "bodies": []},
        compaction_fixed(),
        compaction_reentrant_fixed(),
        # a postponement is outstanding when a negative delay() arrives: 5 + 2 - 3 = 4 (not 5 - 3); in the heap and staged
        {"k": 0, "ops": [["later", 5], ["later", 3], ["run"], ["delay", 0, 2], ["delay", 0, -3], ["snap"], ["adv", 2], ["run"], ["snap"],
                         ["adv", 2], ["run"], ["snap"], ["later", 4], ["reset", 2, 9], ["delay", 2, -6], ["snap"], ["adv", 3], ["run"],
                         ["snap"], ["timeout"]], "bodies": []},
        # a call function raises: logged, the iteration goes on with the other due calls
        {"k": 0, "ops": [["later", 5], ["later", 5], ["later", 5], ["adv", 5], ["run"], ["snap"], ["run"], ["snap"]],
         "bodies": [[["later", 0], ["raise"], ["cancel", 1]], [["raise"]]]},
    ]


def compaction_reentrant_fixed():
    """60 far calls + one due call #60 whose function does callLater(50) and cancels the new call (#61); 52 far calls
    are cancelled: the iteration that runs #60 ends with compaction while cancelled #61 is still staged"""
    ops = [["later", 40] for _ in range(60)] + [["later", 3], ["run"]] + [["cancel", i] for i in range(52)]
    ops += [["snap"], ["adv", 3], ["run"], ["snap"], ["run"], ["snap"], ["cancel", 55], ["snap"], ["timeout"], ["adv", 60], ["run"],
            ["snap"]]
    return {"k": 0, "ops": ops, "bodies": [[] for _ in range(60)] + [[["later", 50], ["cancel", 61], ["snap"]]]}


def compaction_fixed():
    ops = [["later", 4 + (i % 2)] for i in range(60)] + [["run"]] + [["cancel", i] for i in range(0, 57)]
    ops += [["run"], ["snap"], ["later", 4], ["adv", 4], ["run"], ["adv", 1], ["run"], ["snap"], ["timeout"]]
    return {"k": 0, "ops": ops, "bodies": []}


# ----------------------------------------------------------------------------------------------
# model side


def fuel_of(case):
    return 3 * (len(case["ops"]) + sum(len(b) for b in case["bodies"])) + 10


def to_coq(case):
    K = 2 ** case["k"]
    ops = []
    for o in case["ops"]:
        if o[0] == "adv":
            ops.append(f"Adv ({o[1]})")
        elif o[0] == "run":
            ops.append("RunUntilCurrent")
        elif o[0] == "timeout":
            ops.append(f"Timeout ({LONGEST * K})")
        else:
            ops.append(f"Do ({coq_bop(o)})")
    table = coq_list([coq_list(map(coq_bop, b), "bop") for b in case["bodies"]], "(list bop)")
    return f"({fuel_of(case)}%nat, {table}, {coq_list(ops, 'op')})%Z"


def shrink(case):
    ops, bodies = case["ops"], case["bodies"]
    for i in range(len(ops)):
        if ops[i][0] != "later":
            yield {**case, "ops": ops[:i] + ops[i + 1:]}
    for i in range(len(bodies)):
        for j in range(len(bodies[i])):
            if bodies[i][j][0] != "later":
                yield {**case, "bodies": bodies[:i] + [bodies[i][:j] + bodies[i][j + 1:]] + bodies[i + 1:]}
    if case["k"] != 0:
        yield {**case, "k": 0}
    for i in range(len(ops)):
        if ops[i][0] == "later":
            yield {**case, "ops": ops[:i] + ops[i + 1:]}


def histogram(case, obs):
    runs = obs.count("(r")
    ncancel = obs.count(" C")
    return f"runs={'0' if runs == 0 else '1-3' if runs < 4 else '4-9' if runs < 10 else '10+'} " \
           f"bodies={'y' if any(case['bodies']) else 'n'} cancels={'>50' if ncancel > 50 else '<=50'} " \
           f"raised={'y' if ')!' in obs else 'n'}"


SPEC = Spec(
    pid="C08",
    gen=gen, impl=impl, oracle=oracle, corpus=corpus, shrink=shrink,
    coq_header="From TwLib Require Import TimersCall.\nFrom C08 Require Import Model Run.\nLocal Open Scope Z_scope.",
    coq_fn="run_show",
    to_coq=to_coq,
    model_equal=lambda c, impl_obs, model_obs: digest(impl_obs) == model_obs,
    nontrivial=lambda c, o: "(r" in o,
    histogram=histogram,
    rule="every word of length <= 4 (quick: length 3 sampled 20%, length 4 sampled 1.2%) / <= 5 (thorough, length 4 30%, length 5 0.6%) "
         "over a 13-letter alphabet {callLater 0/1/2, advance 1 + iteration, iteration, cancel #0, reset #1 +1, "
         "reset #0 +0, reset #0 +3, delay #0 +1, delay #0 -2, delay #1 -1, timeout()} with a fixed table of call bodies, without, and with a table whose functions raise, each followed "
         "by snapshots, two iterations and a timeout(); random histories of 5-70 operations with random body tables "
         "(scales 2^0..2^-20, tie-heavy delays, 2^30-size delays); a stream with negative reset()/delay() arguments; a stream that postpones a call and then pulls it back with delay(-b), b >, =, < the outstanding postponement; "
         "compaction histories: 52-74 calls on 1-29 distinct times, 49..n of them cancelled (> 50 and more than half "
         "the heap triggers filter + heapify), followed by resets/delays and iterations that expose the heap order; compaction at the end of an iteration in which a running call schedules and at once cancels calls (cancelled calls staged while the counter is reset), with getDelayedCalls() after every step; "
         "non-trivial = at least one call ran; distinct by (case, observation)",
    trusted=["hand-written model coq/C08/Model.v + coq/Lib/TimersHeap.v, TimersCall.v (tied by this correspondence run "
             "only); the heap algorithms are written with swaps where heapq moves a hole",
             "CPython's C heapq performs the same comparisons as the pure-Python heapq the model follows",
             "call functions are scripts of timer-API operations that may end by raising; threadCallQueue and a clock "
             "that moves while an iteration runs are not modelled"],
    assumptions=["float arithmetic (+, -, <, <=) is exact on the generated times: integers n with |n| < 2^34 scaled by "
                 "2^-k, k <= 20 (the harness prints any inexact time with a '~' so that it could never match the model)",
                 "callLater is only called with non-negative delays (it asserts that)"],
)
