"""C35 — SSH transport: packets intact under any segmentation, tampering detected (P, H-tie).

A real SSHTransportBase sender frames/encrypts/MACs the payloads with the real `cryptography` back-end;
the resulting byte stream (optionally preceded by banner lines and the version line, optionally with one
corrupted byte) is cut into deliveries and fed to a real SSHTransportBase receiver.  SSHCiphers and the
zlib objects are wrapped only to RECORD the oracle answers (plaintext packets, decrypt outputs, accepted
MACs, decompress outputs); the Coq model (coq/C35) is run with those recorded answers as its oracles.
"""
from __future__ import annotations

import random
import zlib

from harness.common import Failure, Spec, coq_bytes, coq_list, stable_hash

_TR: dict[str, dict] = {}      # case hash -> oracle transcript recorded by impl()

MACS = {"hmac-sha2-512": 64, "hmac-sha2-384": 48, "hmac-sha2-256": 32, "hmac-sha1": 20, "hmac-md5": 16, "none": 0}
CIPHERS = {"aes256-ctr": 16, "aes256-cbc": 16, "aes192-ctr": 16, "aes192-cbc": 16, "aes128-ctr": 16,
           "aes128-cbc": 16, "3des-ctr": 8, "3des-cbc": 8, "none": 8}


def _build(case):
    """run sender and receiver; returns (observation events, transcript)"""
    import warnings
    warnings.simplefilter("ignore")
    from twisted.conch.ssh import transport
    from twisted.internet.testing import StringTransport

    rng = random.Random(case["seed"])
    iv, key, integ = rng.randbytes(32), rng.randbytes(32), rng.randbytes(64)
    cip, mac = case["cip"].encode(), case["mac"].encode()
    for name in (cip,):
        if name != b"none" and name not in transport.SSHTransportBase.supportedCiphers:
            raise RuntimeError("cipher not offered by the transport: %r" % name)

    tr = {"plain": [], "pads": [], "z": [], "dec": [], "mac": [], "dz": []}

    class RecCiphers(transport.SSHCiphers):
        def encrypt(self, blocks):
            tr["plain"].append(bytes(blocks))
            return transport.SSHCiphers.encrypt(self, blocks)

        def decrypt(self, blocks):
            out = transport.SSHCiphers.decrypt(self, blocks)
            tr["dec"].append(bytes(out))
            return out

        def makeMAC(self, seqid, data):
            m = transport.SSHCiphers.makeMAC(self, seqid, data)
            tr["mac"].append((seqid, bytes(data), bytes(m)))      # the genuine (seq, packet, MAC) triples
            return m

    def ciphers(out_cip, in_cip, out_mac, in_mac):
        # SSHCiphers(outgoing cipher, incoming cipher, outgoing MAC, incoming MAC): the two directions are negotiated
        # independently (RFC 4253 section 7.1); only the direction sender -> receiver (cip, mac) is under test
        c = RecCiphers(out_cip, in_cip, out_mac, in_mac)
        c.setKeys(iv, key, iv, key, integ, integ)
        return c

    class Comp:
        def __init__(self):
            self.c = zlib.compressobj(6)
            self.cur = b""

        def compress(self, d):
            self.cur = self.c.compress(d)
            return self.cur

        def flush(self, mode):
            out = self.c.flush(mode)
            tr["z"].append(self.cur + out)
            return out

    class Decomp:
        def __init__(self):
            self.d = zlib.decompressobj()

        def decompress(self, d):
            try:
                out = self.d.decompress(d)
            except Exception:
                tr["dz"].append(None)
                raise
            tr["dz"].append(bytes(out))
            return out

    events: list[str] = []

    class Rcv(transport.SSHTransportBase):
        vseen = False
        dead = False

        def _v(self):
            if self.gotVersion and not self.vseen:
                self.vseen = True
                events.append("V" + bytes(self.otherVersionString).hex())

        def dispatchMessage(self, messageNum, payload):
            self._v()
            events.append("P" + (bytes((messageNum,)) + payload).hex())

        def sendDisconnect(self, reason, desc):
            self._v()
            events.append(f"X{reason}")
            self.dead = True

    # ---- sender: real sendPacket, deterministic "random" padding ------------------------------
    snd = transport.SSHTransportBase()
    snd.transport = StringTransport()
    snd.currentEncryptions = ciphers(cip, (case.get("scip") or case["cip"]).encode(), mac, mac)
    if case["comp"]:
        snd.outgoingCompression = Comp()
    old_random = transport.randbytes.secureRandom

    def fake_random(n):
        b = rng.randbytes(n)
        tr["pads"].append(b)
        return b

    transport.randbytes.secureRandom = fake_random
    sizes = []
    try:
        for p in case["payloads"]:
            p = bytes.fromhex(p)
            before = len(snd.transport.value())
            snd.sendPacket(p[0], p[1:])
            sizes.append(len(snd.transport.value()) - before)
            if not case["comp"]:
                tr["z"].append(p)
    finally:
        transport.randbytes.secureRandom = old_random
    wire = bytearray(snd.transport.value())
    if case.get("corrupt"):
        off, x = case["corrupt"]
        if wire:
            wire[off % len(wire)] ^= x
    pre = b"".join(bytes.fromhex(l) for l in case["banner"]) + bytes.fromhex(case["version"])
    stream = pre + bytes(wire)
    cuts = sorted({c % (len(stream) + 1) for c in case["cuts"]} | {0, len(stream)})
    chunks = [stream[a:b] for a, b in zip(cuts, cuts[1:])]
    chunks = [c for c in chunks if c] or [b""]

    # ---- receiver ------------------------------------------------------------------------------
    rcv = Rcv()
    rcv.transport = StringTransport()
    rcv.currentEncryptions = ciphers((case.get("rcip") or case["cip"]).encode(), cip,
                                     (case.get("rmac") or case["mac"]).encode(), mac)
    if case["comp"]:
        rcv.incomingCompression = Decomp()
    fed = []
    for c in chunks:
        if rcv.dead:
            break
        fed.append(c)
        rcv.dataReceived(c)
        rcv._v()
    bs = snd.currentEncryptions.encBlockSize
    sends = [f"S{pl.hex()}:{len(pad)}:{m[0]}" for pl, pad, m in zip(tr["plain"], tr["pads"], tr["mac"])]
    tr.update(bs=bs, sdec=snd.currentEncryptions.decBlockSize, ms=MACS[case["mac"]], chunks=fed, sizes=sizes,
              prelen=len(pre))
    return sends + events, tr


def impl(case) -> str:
    if case.get("kind") == "rekey":
        obs, tr = _rekey(case)
        _TR[stable_hash(case)] = tr
        return obs
    obs, tr = _build(case)
    _TR[stable_hash(case)] = tr
    return " ".join(obs)


# --------------------------------------------------------------------------------------
# re-key cases: a real client/server pair over in-memory transports; key exchanges run for real (opaque to the model)

_HOSTKEY = []


def _rekey(case):
    """script ops: ["send", side, type>=50, hex] | ["debug", side, hex] | ["rekey", side] | ["pump", side, k]"""
    import warnings
    warnings.simplefilter("ignore")
    from cryptography.hazmat.primitives.asymmetric import ec
    from twisted.conch.ssh import factory, keys, service, transport
    from twisted.internet import defer
    from twisted.internet.testing import StringTransport

    rng = random.Random(case["seed"])
    if not _HOSTKEY:
        _HOSTKEY.append(keys.Key(ec.generate_private_key(ec.SECP256R1())))
    hk = _HOSTKEY[0]

    class Wire(StringTransport):
        def __init__(self):
            StringTransport.__init__(self)
            self.writes = []

        def write(self, data):
            self.writes.append(bytes(data))

    class Recorder(service.SSHService):
        name = b"recorder"

        def __init__(self, got):
            self.got = got

        def packetReceived(self, messageNum, packet):
            self.got.append((messageNum, bytes(packet)))

    class Hooks:
        """records, in real order, when this side's key-exchange state leaves NONE and when NEWKEYS is processed"""
        def sendKexInit(self):
            self.hist.append(["K"])
            return super().sendKexInit()

        def _newKeys(self):
            self.hist.append(["N"])
            return super()._newKeys()

        def sendPacket(self, messageType, payload):
            if messageType == transport.MSG_NEWKEYS:
                self.hist.append(["NK"])        # our NEWKEYS goes out (still under the old keys)
            return super().sendPacket(messageType, payload)

        def receiveDebug(self, alwaysDisplay, message, lang):
            self.got.append((4, bytes(message)))

        def receiveError(self, reasonCode, description):
            self.errors.append((reasonCode, bytes(description)))

    class Server(Hooks, transport.SSHServerTransport):
        pass

    class Client(Hooks, transport.SSHClientTransport):
        verified = 0

        def verifyHostKey(self, hostKey, fingerprint):
            # "late_verify": the FIRST verification completes only after the server's NEWKEYS has arrived (a user
            # answering a prompt); later ones (re-keys: the key is known by then) complete synchronously
            self.verified += 1
            if case.get("late_verify") and self.verified == 1:
                d = defer.Deferred()
                pending.append(d)
                return d
            return defer.succeed(True)

        def connectionSecure(self):
            pass

    class Factory(factory.SSHFactory):
        protocol = Server

        def getPublicKeys(self):
            return {hk.sshType(): hk.public()}

        def getPrivateKeys(self):
            return {hk.sshType(): hk}

        def getPrimes(self):
            return None

    f = Factory()
    f.startFactory()
    server = f.buildProtocol(None)
    client = Client()
    sides = {"c": client, "s": server}
    comp = b"zlib" if case["comp"] else b"none"
    for p in sides.values():
        p.supportedCompressions = [comp]
        p.hist, p.got, p.errors = [], [], []
    server.makeConnection(Wire())
    client.makeConnection(Wire())

    def deliver(src, dst, k=None):
        w = src.transport.writes
        n = len(w) if k is None else min(k, len(w))
        data = b"".join(w[:n])
        del w[:n]
        if not data:
            return False
        if dst.transport.disconnecting:
            return True         # the receiving end called loseConnection (after DISCONNECT): it reads nothing more
        cuts = sorted({rng.randrange(len(data) + 1) for _ in range(rng.choice([0, 0, 1, 3]))} | {0, len(data)})
        for a, b in zip(cuts, cuts[1:]):
            dst.dataReceived(data[a:b])
        return True

    class Stuck(Exception):
        pass

    def settle():
        for _ in range(200):
            if not (deliver(client, server) | deliver(server, client)):
                return
        raise Stuck()

    other = {"c": server, "s": client}
    pending = []
    limbo = []
    trouble = []

    def drive():
        settle()
        while pending:
            pending.pop(0).callback(True)
            settle()
        for p in sides.values():
            p.setService(Recorder(p.got))
            del p.hist[:], p.got[:]
        for op in case["script"]:
            step(op)
        settle()

    def step(op):
        k, side = op[0], op[1] if len(op) > 1 else None
        if k == "settle":
            settle()
            return
        p = sides[side]
        if k == "send":
            p.hist.append(["S", op[2], op[3]])
            p.sendPacket(op[2], bytes.fromhex(op[3]))
        elif k == "debug":
            last = [h[0] for h in p.hist if h[0] in ("NK", "N")][-1:]
            if last == ["NK"]:
                limbo.append(side)      # we have sent NEWKEYS and not yet received the peer's
            p.hist.append(["S", 4, op[2]])
            p.sendDebug(bytes.fromhex(op[2]))
        elif k == "rekey":
            try:
                p.sendKexInit()          # the hook records K before the call: drop it again if it raised
            except RuntimeError:
                p.hist.pop()
                p.hist.append(["K"])     # the model's KStart is a no-op while an exchange is in progress
        elif k == "pump":
            deliver(p, other[side], op[2])
    # anything the driven transports raise, or a pair that never comes to rest, is an OBSERVATION (never a crash of
    # the check): the oracle turns it into a failure with this case as the replay
    try:
        drive()
    except Stuck:
        trouble.append("STUCK")
    except Exception as e:      # noqa: BLE001 - the implementation under test may raise anything
        trouble.append("EXC:" + type(e).__name__)
    fmt = lambda got: ",".join(f"{t}:{d.hex()}" for t, d in got)
    # what the peer dispatched is what this side put on the wire, in order
    obs = f"c>{fmt(server.got)}|q= s>{fmt(client.got)}|q="
    if client.errors or server.errors:
        codes = sorted({str(c) for c, _ in client.errors + server.errors})
        obs += f" ERR{len(client.errors)}/{len(server.errors)}:" + "+".join(codes)
    if trouble:
        obs += " " + trouble[0]
    return obs, {"c": [h for h in client.hist if h[0] != "NK"], "s": [h for h in server.hist if h[0] != "NK"],
                 "limbo": limbo, "trouble": trouble}


# --------------------------------------------------------------------------------------
# oracle: the property on the implementation's observation, without the model


def _expected_version(case):
    """(version string, supported?) or None when no complete version line fits in the first 4 KB"""
    pre = b"".join(bytes.fromhex(l) for l in case["banner"]) + bytes.fromhex(case["version"])
    pos = 0
    while True:
        nl = pre.find(b"\n", pos)
        if nl == -1 or nl >= 4096:
            return None
        line = pre[pos:nl]
        if line.startswith(b"SSH-"):
            return line.rstrip(b"\r"), line.split(b"-")[1] in (b"1.99", b"2.0")
        pos = nl + 1


def _oracle_rekey(case, obs):
    f = _oracle_rekey0(case, obs)
    if f is not None and case.get("late_verify") and f.tag != "message-between-newkeys-uses-old-keys" \
            and any(o[0] == "rekey" for o in case["script"]):
        f.reason = "[first host-key verification completed after the server's NEWKEYS] " + f.reason
        f.tag = "rekey-after-late-hostkey-verification"
    return f


def _oracle_rekey0(case, obs):
    tr = _TR.get(stable_hash(case)) or {}
    if tr.get("limbo"):
        # a message allowed during key exchange sent after our own NEWKEYS and before the peer's: RFC 4253 7.3 wants
        # it under the NEW keys; the transport switches both directions only when the peer's NEWKEYS arrives
        if "ERR" in obs:
            return Failure(case, f"sendDebug on side {tr['limbo'][0]} after it sent NEWKEYS and before it received the "
                           "peer's: sent under the old keys, the peer (already switched) disconnects",
                           "message-between-newkeys-uses-old-keys")
    if "STUCK" in obs or "EXC:" in obs:
        what = obs.split(" ")[-1]
        return Failure(case, f"the client/server pair did not come to rest or raised ({what}) while re-keying", "rekey-" + what.lower())
    if "ERR" in obs:
        codes = obs.split("ERR")[1].split(":")[1].split(" ")[0]
        why = {"6": "compression error", "5": "MAC error", "2": "protocol error"}.get(codes, "code " + codes)
        return Failure(case, f"a side received DISCONNECT ({why}) during/after re-keying: payloads after it are lost",
                       "rekey-disconnect-" + codes)
    parts = obs.split(" ")
    for side, part in (("c", parts[0]), ("s", parts[1])):
        got = [m for m in part[2:].split("|q=")[0].split(",") if m]
        sent = [f"{o[2]}:{o[3]}" if o[0] == "send" else f"4:{o[2]}" for o in case["script"]
                if o[0] in ("send", "debug") and o[1] == side]
        for cls, name in ((lambda m: m.split(":")[0] != "4", "service payloads"), (lambda m: m.split(":")[0] == "4", "debug messages")):
            g, w = [m for m in got if cls(m)], [m for m in sent if cls(m)]
            if g != w:
                what = "reordered" if sorted(g) == sorted(w) else "lost or duplicated"
                return Failure(case, f"{name} sent by {side} {what} across the key exchange: sent {w[:6]} delivered {g[:6]}",
                               "rekey-order" if what == "reordered" else "rekey-loss")
    return None


def oracle(case, obs):
    if case.get("kind") == "rekey":
        return _oracle_rekey(case, obs)
    tr = _TR.get(stable_hash(case))
    toks = obs.split(" ") if obs else []
    evs = [t for t in toks if t[0] in "VPX"]
    sends = [t for t in toks if t[0] == "S"]
    payloads = [p.lower() for p in case["payloads"]]
    # sender framing (RFC 4253 section 6) on the plaintext packets handed to the cipher
    bs = CIPHERS[case["cip"]]
    for k, s in enumerate(sends):
        pkt = bytes.fromhex(s[1:].split(":")[0])
        padlen = int(s.split(":")[1])
        if int(s.split(":")[2]) != k:
            return Failure(case, f"outgoing sequence number {s.split(':')[2]} on packet {k}", "send-sequence")
        if len(pkt) % max(bs, 8) or int.from_bytes(pkt[:4], "big") != len(pkt) - 4 or pkt[4] != padlen or not 4 <= padlen <= 255:
            return Failure(case, f"malformed packet framed by sendPacket: {s[:60]}", "send-framing")
    ver = _expected_version(case)
    got_v = [e for e in evs if e[0] == "V"]
    ps = [e[1:] for e in evs if e[0] == "P"]
    xs = [e for e in evs if e[0] == "X"]
    if ver is None:
        if ps or got_v:
            return Failure(case, "version accepted although no complete version line within 4 KB", "version-bogus")
        return None if xs == ["X10"] or not xs else Failure(case, f"unexpected disconnect {xs}", "preamble-disconnect")
    vstr, ok = ver
    if not ok:
        if ps or xs != ["X8"]:
            return Failure(case, f"unsupported version {vstr!r}: expected DISCONNECT 8 and nothing delivered, got {evs[:4]}",
                           "version-unsupported")
        return None
    if got_v != ["V" + vstr.hex()]:
        why = "banner-line-parsed-as-packet" if xs == ["X2"] and not ps else "version-line"
        return Failure(case, f"version line {vstr!r} not recognised with this segmentation "
                       f"(cuts {sorted(set(case['cuts']))[:8]}): events {evs[:4]}", why)
    if not case.get("corrupt"):
        if xs or ps != payloads:
            tag = "payload-contains-version-line" if any("0a5353482d" in p for p in payloads) and case["cip"] == "none" \
                else "segmentation"
            return Failure(case, f"payloads not delivered exactly, in order: delivered {len(ps)}/{len(payloads)}, "
                           f"disconnects {xs}", tag)
        return None
    if case["mac"] == "none":
        return None                         # no integrity protection negotiated: nothing is promised
    # which packet holds the corrupted byte?
    off = case["corrupt"][0] % max(1, sum(tr["sizes"]))
    k, start = 0, 0
    for k, sz in enumerate(tr["sizes"]):
        if off < start + sz:
            break
        start += sz
    if ps != payloads[:k]:
        return Failure(case, f"packet {k} was altered (byte {off - start} of {tr['sizes'][k]}) but deliveries are "
                       f"{len(ps)} packets (expected exactly the {k} before it)", "tampered-delivered")
    if not xs and off - start >= bs:
        return Failure(case, f"packet {k} altered outside its first block and no DISCONNECT was sent",
                       "tampered-no-disconnect")
    return None


# --------------------------------------------------------------------------------------
# generator

_BANNERS = [b"Welcome to the machine\n", b"\n", b"hi\r\n", b"This is an SSH-2 server, be nice\r\n", b"x" * 70 + b"\n",
            b"SSH\n", b"SSH -not-a-version\n", b"12345678\n", b"1234567\n", b"\r\n", b"ssh-2.0-lowercase\n"]
_VERSIONS = [b"SSH-2.0-Verif_1.0\r\n"] * 6 + [b"SSH-2.0-Verif\n", b"SSH-1.99-Old stuff here\r\n", b"SSH-2.0-x\r\r\n",
                                              b"SSH-2.0-a-b-c\r\n", b"SSH-1.5-Ancient\r\n", b"SSH-3.0-Future\r\n",
                                              b"SSH-2.0\n", b"SSH-\r\n"]


def _payload(rng, big=False):
    n = rng.choice([1, 1, 2, 3, 5, 7, 8, 11, 12, 16, 27, 28, 40] + ([100, 200, 1000] if big else []))
    p = bytes([rng.choice([1, 2, 20, 50, 94, 255])]) + rng.randbytes(n - 1)
    r = rng.random()
    if r < 0.08:
        p = p[:1] + b"\nSSH-2.0-evil\r\n" + p[1:5]
    elif r < 0.12:
        p = p[:1] + b"\n" * 3 + p[1:4]
    return p.hex()


def gen(rng, tier):
    from twisted.conch.ssh import transport
    quick = tier == "quick"
    ciphers = [c.decode() for c in transport.SSHTransportBase.supportedCiphers] + ["none"]
    macs = [m.decode() for m in transport.SSHTransportBase.supportedMACs] + ["none"]
    cases = []
    reps = 5 if quick else 25
    for cip in ciphers:
        for mac in macs:
            for comp in (False, True):
                for rep in range(reps):
                    banner = [rng.choice(_BANNERS).hex() for _ in range(rng.choice([0, 0, 1, 2, 3]))]
                    version = rng.choice(_VERSIONS).hex()
                    payloads = [_payload(rng, big=not quick) for _ in range(rng.choice([1, 2, 3, 5]))]
                    mode = rng.choice(["whole", "bytes", "random", "random", "lines"])
                    pre = b"".join(bytes.fromhex(b) for b in banner) + bytes.fromhex(version)
                    if mode == "whole":
                        cuts = []
                    elif mode == "bytes":
                        cuts = list(range(0, len(pre) + 60)) if quick else list(range(0, 400))
                    elif mode == "lines":
                        cuts = [i + 1 for i, ch in enumerate(pre) if ch == 10] + \
                               [rng.randrange(0, 300) for _ in range(rng.randrange(0, 4))]
                    else:
                        cuts = [rng.randrange(0, len(pre) + 200) for _ in range(rng.randrange(1, 9))]
                    corrupt = None
                    if rep % 3 == 2:
                        corrupt = [rng.randrange(0, 100000), rng.randrange(1, 256)]
                        version = _VERSIONS[0].hex()
                    case = {"cip": cip, "mac": mac, "comp": comp, "banner": banner, "version": version,
                            "payloads": payloads, "cuts": cuts, "corrupt": corrupt, "seed": rng.randrange(1 << 30)}
                    if corrupt or rep % 3 == 1:
                        # the receiver's OUTGOING cipher / MAC are negotiated independently of the incoming ones
                        case["rmac"] = rng.choice(["none", "none"] + macs)
                        case["rcip"] = rng.choice([cip, "none"] + ciphers)
                    cases.append(case)
    # long preambles around the 4 KB limit
    for n in ([4070, 4079, 4080, 4081, 4200] if quick else range(4060, 4100)):
        banner = [(b"y" * 99 + b"\n").hex()] * (n // 100) + [(b"z" * (n % 100) + b"\n").hex()]
        cases.append({"cip": "none", "mac": "hmac-sha1", "comp": False, "banner": banner,
                      "version": _VERSIONS[0].hex(), "payloads": [_payload(rng)], "cuts": [rng.randrange(0, 5000)],
                      "corrupt": None, "seed": n})
    # per-direction ciphers: full product (sender's outgoing = direction under test) x (sender's own incoming),
    # payload lengths covering every residue mod 16
    small_macs = ["hmac-md5", "hmac-sha1", "none"]
    for cip in ciphers:
        for scip in ciphers:
            for lo in ((1, 9) if quick or CIPHERS[cip] != CIPHERS[scip] else (1,)):
                if quick and CIPHERS[cip] == CIPHERS[scip] and rng.random() < 0.6:
                    continue
                base = rng.randrange(0, 48)
                payloads = [(bytes([94]) + rng.randbytes(base + lo + j - 1)).hex() for j in range(8)]
                cases.append({"cip": cip, "mac": rng.choice(small_macs), "comp": rng.random() < 0.15, "scip": scip,
                              "rcip": rng.choice(ciphers), "banner": [], "version": _VERSIONS[0].hex(),
                              "payloads": payloads, "cuts": [rng.randrange(0, 600) for _ in range(rng.randrange(0, 4))],
                              "corrupt": None, "seed": rng.randrange(1 << 30)})
    # zlib (and none) with completed re-keys: payloads before, between and after 1 or 2 key exchanges started by either side
    k = 0
    for comp in (True, True, False):
        for first in "cs":
            for second in (None, "c", "s"):
                for rep in range(1 if quick else 6):
                    k += 1
                    def burst(tag):
                        return [["send", rng.choice("cs"), rng.choice([50, 94, 95]), bytes([k % 251, tag, j]).hex()
                                 + rng.randbytes(rng.randrange(0, 30)).hex()] for j in range(rng.randrange(1, 5))]
                    script = burst(0) + [["rekey", first]]
                    if rng.random() < 0.5:
                        script += burst(1)          # handed to sendPacket while the exchange is in progress
                    script += [["settle"]] + burst(2)
                    if second:
                        script += [["rekey", second]] + ([["pump", second, 1]] if rng.random() < 0.5 else []) + burst(3) \
                                  + [["settle"]] + burst(4)
                    cases.append({"kind": "rekey", "comp": comp, "seed": rng.randrange(1 << 30), "script": script,
                                  **({"late_verify": True} if (k % 3 == 0) else {})})
    # re-keying while payloads flow: real client/server pair, key exchanges started at random points on either side
    for i in range(60 if quick else 1500):
        script = []
        n = rng.randrange(3, 16)
        for j in range(n):
            side = rng.choice("cs")
            r = rng.random()
            if r < 0.5:
                script.append(["send", side, rng.choice([50, 80, 94, 94, 95, 255]), bytes([i % 251, j]).hex() + rng.randbytes(rng.randrange(0, 12)).hex()])
            elif r < 0.62:
                script.append(["debug", side, bytes([j]).hex() + rng.randbytes(rng.randrange(0, 5)).hex()])
            elif r < 0.78:
                script.append(["rekey", side])
            elif r < 0.86:
                script.append(["settle"])
            else:
                script.append(["pump", side, rng.choice([1, 1, 2, 3, 50])])
        cases.append({"kind": "rekey", "comp": rng.random() < 0.4, "seed": rng.randrange(1 << 30), "script": script,
                      **({"late_verify": True} if rng.random() < 0.3 else {})})
    return cases


def corpus():
    v = _VERSIONS[0].hex()
    base = {"cip": "none", "mac": "none", "comp": False, "corrupt": None, "seed": 1}
    return [
        # banner line delivered on its own (chunk ends at its newline), >= one cipher block long
        {**base, "banner": [b"Welcome to my server\n".hex()], "version": v, "payloads": ["5e0102"], "cuts": [21]},
        # banner line containing "SSH-" in the middle, version line cut in two
        {**base, "banner": [b"an SSH-2 server\n".hex()], "version": v, "payloads": ["5e0102"], "cuts": [16 + 9]},
        # a later "line" of packet data starting with SSH- in the same delivery as the version line
        {**base, "banner": [], "version": v, "payloads": [(b"\x5e\nSSH-2.0-evil\r\nabc").hex(), "5e07"], "cuts": []},
        # everything in one delivery, more than 4 KB after the version line
        {**base, "mac": "hmac-sha1", "banner": [], "version": v, "payloads": [(b"\x5e" + b"q" * 1500).hex()] * 4, "cuts": []},
        # tampering in every region of an encrypted, authenticated packet
        *[{**base, "cip": "aes128-ctr", "mac": "hmac-sha2-256", "banner": [], "version": v,
           "payloads": ["5e" + "11" * 20, "5e" + "22" * 20], "cuts": [40, 90], "corrupt": [o, 1], "seed": 7}
          for o in (0, 3, 4, 5, 30, 47, 48, 60, 79, 80, 100, 159)],
        *[{**base, "cip": "aes256-cbc", "mac": "hmac-md5", "comp": True, "banner": [], "version": v,
           "payloads": ["5e" + "11" * 20, "5e" + "22" * 20], "cuts": [33], "corrupt": [o, 128], "seed": 8}
          for o in (0, 15, 16, 31, 32, 47, 50)],
        # the receiver's own outgoing direction has no MAC / no cipher, the incoming one has: tampering must still be caught
        *[{**base, "cip": "aes128-ctr", "mac": "hmac-sha2-256", "rmac": "none", "rcip": rc, "banner": [], "version": v,
           "payloads": ["5e" + "11" * 20, "5e" + "22" * 20], "cuts": [50], "corrupt": [o, 4], "seed": 9}
          for o in (20, 40, 70, 100) for rc in ("none", "aes128-ctr")],
        {**base, "cip": "none", "mac": "none", "rmac": "hmac-sha1", "rcip": "aes256-cbc", "banner": [], "version": v,
         "payloads": ["5e0102", "5e03"], "cuts": [30], "corrupt": None, "seed": 10},
        # outgoing AES (16-byte blocks) while the sender's own incoming cipher has 8-byte blocks: every residue mod 16
        {**base, "cip": "aes128-ctr", "scip": "none", "mac": "hmac-md5", "banner": [], "version": v,
         "payloads": [("5e" + "41" * n) for n in range(0, 16)], "cuts": [100, 333], "seed": 11},
        {**base, "cip": "aes256-cbc", "scip": "3des-cbc", "rcip": "3des-cbc", "mac": "none", "banner": [], "version": v,
         "payloads": [("5e" + "42" * n) for n in range(7, 23)], "cuts": [], "seed": 12},
        {**base, "cip": "3des-cbc", "scip": "aes128-cbc", "mac": "hmac-sha1", "banner": [], "version": v,
         "payloads": [("5e" + "43" * n) for n in range(0, 16)], "cuts": [64], "seed": 13},
        # zlib negotiated, a completed re-key, then payloads in both directions (both zlib contexts must be fresh)
        {"kind": "rekey", "comp": True, "seed": 5, "script":
            [["send", "c", 94, "aa01"], ["send", "s", 95, "bb01"], ["rekey", "s"], ["settle"], ["send", "c", 94, "aa02"],
             ["send", "s", 95, "bb02"], ["rekey", "c"], ["settle"], ["send", "c", 94, "aa03"], ["send", "s", 95, "bb03"]]},
        # first host-key verification completes after the server's NEWKEYS; then a re-key (verification synchronous)
        {"kind": "rekey", "comp": False, "seed": 6, "late_verify": True, "script":
            [["send", "c", 94, "cc01"], ["rekey", "c"], ["settle"], ["send", "c", 94, "cc02"], ["send", "s", 95, "dd02"]]},
        {"kind": "rekey", "comp": True, "seed": 7, "late_verify": True, "script":
            [["send", "s", 95, "dd01"], ["rekey", "s"], ["send", "c", 94, "cc02"], ["settle"], ["send", "s", 95, "dd03"]]},
        # known finding: sendDebug between our NEWKEYS and the peer's
        {"kind": "rekey", "comp": True, "seed": 800376457, "script":
            [["rekey", "s"], ["pump", "s", 3], ["pump", "c", 3], ["pump", "s", 1], ["debug", "c", "0d9e"]]},
        # payloads sent while a re-key is in progress, both directions (seeded/C35-C scenario)
        {"kind": "rekey", "comp": False, "seed": 3, "script":
            [["send", "c", 94, "6100"], ["rekey", "c"], ["send", "c", 94, "6101"], ["send", "c", 94, "6102"],
             ["debug", "c", "6403"], ["pump", "c", 1], ["send", "s", 95, "7300"], ["send", "s", 95, "7301"],
             ["send", "c", 94, "6104"], ["rekey", "s"], ["pump", "s", 50], ["pump", "c", 50], ["pump", "s", 50],
             ["send", "c", 94, "6105"], ["send", "s", 95, "7302"]]},
        {"kind": "rekey", "comp": True, "seed": 4, "script":
            [["rekey", "s"], ["send", "s", 80, "01"], ["send", "s", 80, "02"], ["send", "s", 80, "03"], ["rekey", "c"],
             ["send", "c", 50, "04"], ["send", "c", 50, "05"]]},
    ]


# --------------------------------------------------------------------------------------
# model side


def to_coq(case):
    tr = _TR.get(stable_hash(case))
    if tr is None:
        return None         # the implementation run left no transcript (it crashed): oracle only, never re-run here
    if case.get("kind") == "rekey":
        if tr.get("limbo") or tr.get("trouble"):
            return None     # outside the modelled fragment (known finding message-between-newkeys-uses-old-keys)
        def kop(o):
            if o[0] == "S":
                return f"KSend {o[1]}%N {coq_bytes(bytes.fromhex(o[2]))}"
            return "KStart" if o[0] == "K" else "KNewKeys"
        return "(inr (" + coq_list(map(kop, tr["c"]), "kop") + ", " + coq_list(map(kop, tr["s"]), "kop") + "))"
    if sum(len(c) for c in tr["chunks"]) > 1200:
        return None          # keep the Coq terms small; large streams go through the oracle only
    dec = coq_list([coq_bytes(d) for d in tr["dec"]], "bytes")
    ver = coq_list([f"({s}%N, {coq_bytes(d)}, {coq_bytes(m)})" for s, d, m in tr["mac"]], "(N * bytes * bytes)%type")
    dz = coq_list(["None" if d is None else f"(Some {coq_bytes(d)})" for d in tr["dz"]], "(option bytes)")
    items = coq_list([f"({coq_bytes(z)}, {coq_bytes(p)})" for z, p in zip(tr["z"], tr["pads"])], "(bytes * bytes)%type")
    chunks = coq_list([coq_bytes(c) for c in tr["chunks"]], "bytes")
    return f"(inl (({tr['bs']}%N, {tr['ms']}%N, {tr['sdec']}%N), ({dec}, {ver}, {dz}), {items}, {chunks}))"


def shrink(case):
    if case.get("kind") == "rekey":
        sc = case["script"]
        for i in range(len(sc)):
            yield {**case, "script": sc[:i] + sc[i + 1:]}
        return
    if case["banner"]:
        for i in range(len(case["banner"])):
            yield {**case, "banner": case["banner"][:i] + case["banner"][i + 1:]}
    if len(case["payloads"]) > 1:
        for i in range(len(case["payloads"])):
            yield {**case, "payloads": case["payloads"][:i] + case["payloads"][i + 1:]}
    for i in range(len(case["cuts"])):
        yield {**case, "cuts": case["cuts"][:i] + case["cuts"][i + 1:]}
    for i, p in enumerate(case["payloads"]):
        if len(p) > 4:
            yield {**case, "payloads": case["payloads"][:i] + [p[:len(p) // 4 * 2]] + case["payloads"][i + 1:]}


def describe(case):
    if case.get("kind") == "rekey":
        return case
    d = dict(case)
    d["cuts"] = sorted(set(case["cuts"]))[:12]
    d["payloads"] = [p[:40] for p in case["payloads"]]
    d["banner"] = [b[:40] for b in case["banner"]]
    return d


SPEC = Spec(
    pid="C35",
    gen=gen, impl=impl, oracle=oracle, corpus=corpus, shrink=shrink, describe=describe,
    coq_header="From C35 Require Import Model Run.",
    coq_fn="run_any",
    to_coq=to_coq,
    nontrivial=lambda c, o: " P" in " " + o or "X" in o or ":" in o,
    histogram=lambda c, o: ("rekey/" + ("zlib" if c["comp"] else "none")) if c.get("kind") == "rekey" else
    f"{c['cip']}/{c['mac']}/{'zlib' if c['comp'] else 'none'}" + ("/tampered" if c.get("corrupt") else "")
    + ("/asym" if c.get("rmac") else ""),
    rule="every cipher the transport offers (+none) x every MAC it offers (+none) x {none, zlib}, 5 (thorough 25) cases "
         "each: 0-3 banner lines (incl. lines with 'SSH-' inside, lines of exactly one cipher block, empty lines), 14 "
         "version-line shapes (LF only, CR CR LF, 1.99, unsupported, no software part), 1-5 random payloads of 1-40 "
         "(thorough 1000) bytes (some containing LF SSH-2.0-...), deliveries whole / byte-by-byte / random cuts / cut "
         "after every banner newline; every third case flips one byte of the encrypted stream; for the tampered cases and a third of the others the receiver's OUTGOING cipher and MAC are "
         "chosen independently of the incoming ones (incl. none on one side only); preambles around the 4 KB limit; 60 "
         "(thorough 1500) re-key histories on a real client/server pair over in-memory transports: 3-15 ops of send "
         "(service types 50-255) / sendDebug / sendKexInit on either side / deliver the next k packets / run to rest, key "
         "exchanges run for real, in 30% of them the client's first host-key verification completes only after the server's "
         "NEWKEYS (later ones synchronously); structured zlib/none scripts with payloads before, during and after 1 or 2 completed "
         "re-keys started by either side; the full (outgoing cipher) x (sender's own incoming cipher) product with 8 "
         "payloads covering consecutive lengths (all residues mod 16 per pair of block sizes); non-trivial = something delivered or a disconnect; distinct by (case, observation)",
    trusted=["hand-written model coq/C35/Model.v (tied by this correspondence run only)",
             "oracle transcripts: the model is evaluated with the answers the real decryptor and decompressor gave "
             "during the implementation run, replayed in call order, and with the ideal MAC 'verify(seq, p, m) iff the "
             "sender's makeMAC produced m for (seq, p)' built from the sender's recorded makeMAC calls (harness/c35.py, "
             "coq/C35/Run.v)",
             "SSHCiphers subclass / zlib proxies only record; randbytes.secureRandom is patched to seeded bytes while "
             "the sender runs; sender and receiver are SSHTransportBase instances without key exchange "
             "(currentEncryptions / *Compression set directly, as transport._newKeys does)",
             "the receiver is not fed after it sent DISCONNECT (a real transport stops reading after loseConnection)"],
    assumptions=["cipher: dec(enc x) = x on synchronised states, length-preserving, streaming over whole blocks "
                 "(hypotheses of the Section in coq/C35/Proofs.v)",
                 "MAC: verify(seq, p, mac(seq, p)) = true; ideal on the inputs considered (altered packet or sequence "
                 "number => verify false)", "zlib: decompress is the streaming inverse of compress"],
)
