"""C35 — SSH transport: packets intact under any segmentation, tampering detected (P, H-tie).

A real SSHTransportBase sender frames/encrypts/MACs the payloads with the real `cryptography` back-end;
the resulting byte stream (optionally preceded by banner lines and the version line, optionally with one
corrupted byte) is cut into deliveries and fed to a real SSHTransportBase receiver.  SSHCiphers and the
zlib objects are wrapped only to RECORD the oracle answers (plaintext packets, decrypt outputs, accepted
MACs, decompress outputs); the Coq model (coq/C35) is run with those recorded answers as its oracles.
"""
from __future__ import annotations

import random
import zlib

from harness.common import Failure, Spec, coq_bytes, coq_list, stable_hash

_TR: dict[str, dict] = {}      # case hash -> oracle transcript recorded by impl()

MACS = {"hmac-sha2-512": 64, "hmac-sha2-384": 48, "hmac-sha2-256": 32, "hmac-sha1": 20, "hmac-md5": 16, "none": 0}
CIPHERS = {"aes256-ctr": 16, "aes256-cbc": 16, "aes192-ctr": 16, "aes192-cbc": 16, "aes128-ctr": 16,
           "aes128-cbc": 16, "3des-ctr": 8, "3des-cbc": 8, "none": 8}


def _build(case):
    """run sender and receiver; returns (observation events, transcript)"""
    import warnings
    warnings.simplefilter("ignore")
    from twisted.conch.ssh import transport
    from twisted.internet.testing import StringTransport

    rng = random.Random(case["seed"])
    iv, key, integ = rng.randbytes(32), rng.randbytes(32), rng.randbytes(64)
    cip, mac = case["cip"].encode(), case["mac"].encode()
    for name in (cip,):
        if name != b"none" and name not in transport.SSHTransportBase.supportedCiphers:
            raise RuntimeError("cipher not offered by the transport: %r" % name)

    tr = {"plain": [], "pads": [], "z": [], "dec": [], "mac": [], "dz": []}

    class RecCiphers(transport.SSHCiphers):
        def encrypt(self, blocks):
            tr["plain"].append(bytes(blocks))
            return transport.SSHCiphers.encrypt(self, blocks)

        def decrypt(self, blocks):
            out = transport.SSHCiphers.decrypt(self, blocks)
            tr["dec"].append(bytes(out))
            return out

        def makeMAC(self, seqid, data):
            m = transport.SSHCiphers.makeMAC(self, seqid, data)
            tr["mac"].append((seqid, bytes(data), bytes(m)))      # the genuine (seq, packet, MAC) triples
            return m

    def ciphers():
        c = RecCiphers(cip, cip, mac, mac)
        c.setKeys(iv, key, iv, key, integ, integ)
        return c

    class Comp:
        def __init__(self):
            self.c = zlib.compressobj(6)
            self.cur = b""

        def compress(self, d):
            self.cur = self.c.compress(d)
            return self.cur

        def flush(self, mode):
            out = self.c.flush(mode)
            tr["z"].append(self.cur + out)
            return out

    class Decomp:
        def __init__(self):
            self.d = zlib.decompressobj()

        def decompress(self, d):
            try:
                out = self.d.decompress(d)
            except Exception:
                tr["dz"].append(None)
                raise
            tr["dz"].append(bytes(out))
            return out

    events: list[str] = []

    class Rcv(transport.SSHTransportBase):
        vseen = False
        dead = False

        def _v(self):
            if self.gotVersion and not self.vseen:
                self.vseen = True
                events.append("V" + bytes(self.otherVersionString).hex())

        def dispatchMessage(self, messageNum, payload):
            self._v()
            events.append("P" + (bytes((messageNum,)) + payload).hex())

        def sendDisconnect(self, reason, desc):
            self._v()
            events.append(f"X{reason}")
            self.dead = True

    # ---- sender: real sendPacket, deterministic "random" padding ------------------------------
    snd = transport.SSHTransportBase()
    snd.transport = StringTransport()
    snd.currentEncryptions = ciphers()
    if case["comp"]:
        snd.outgoingCompression = Comp()
    old_random = transport.randbytes.secureRandom

    def fake_random(n):
        b = rng.randbytes(n)
        tr["pads"].append(b)
        return b

    transport.randbytes.secureRandom = fake_random
    sizes = []
    try:
        for p in case["payloads"]:
            p = bytes.fromhex(p)
            before = len(snd.transport.value())
            snd.sendPacket(p[0], p[1:])
            sizes.append(len(snd.transport.value()) - before)
            if not case["comp"]:
                tr["z"].append(p)
    finally:
        transport.randbytes.secureRandom = old_random
    wire = bytearray(snd.transport.value())
    if case.get("corrupt"):
        off, x = case["corrupt"]
        if wire:
            wire[off % len(wire)] ^= x
    pre = b"".join(bytes.fromhex(l) for l in case["banner"]) + bytes.fromhex(case["version"])
    stream = pre + bytes(wire)
    cuts = sorted({c % (len(stream) + 1) for c in case["cuts"]} | {0, len(stream)})
    chunks = [stream[a:b] for a, b in zip(cuts, cuts[1:])]
    chunks = [c for c in chunks if c] or [b""]

    # ---- receiver ------------------------------------------------------------------------------
    rcv = Rcv()
    rcv.transport = StringTransport()
    rcv.currentEncryptions = ciphers()
    if case["comp"]:
        rcv.incomingCompression = Decomp()
    fed = []
    for c in chunks:
        if rcv.dead:
            break
        fed.append(c)
        rcv.dataReceived(c)
        rcv._v()
    bs = snd.currentEncryptions.encBlockSize
    sends = [f"S{pl.hex()}:{len(pad)}:{m[0]}" for pl, pad, m in zip(tr["plain"], tr["pads"], tr["mac"])]
    tr.update(bs=bs, ms=MACS[case["mac"]], chunks=fed, sizes=sizes, prelen=len(pre))
    return sends + events, tr


def impl(case) -> str:
    obs, tr = _build(case)
    _TR[stable_hash(case)] = tr
    return " ".join(obs)


# --------------------------------------------------------------------------------------
# oracle: the property on the implementation's observation, without the model


def _expected_version(case):
    """(version string, supported?) or None when no complete version line fits in the first 4 KB"""
    pre = b"".join(bytes.fromhex(l) for l in case["banner"]) + bytes.fromhex(case["version"])
    pos = 0
    while True:
        nl = pre.find(b"\n", pos)
        if nl == -1 or nl >= 4096:
            return None
        line = pre[pos:nl]
        if line.startswith(b"SSH-"):
            return line.rstrip(b"\r"), line.split(b"-")[1] in (b"1.99", b"2.0")
        pos = nl + 1


def oracle(case, obs):
    tr = _TR.get(stable_hash(case))
    toks = obs.split(" ") if obs else []
    evs = [t for t in toks if t[0] in "VPX"]
    sends = [t for t in toks if t[0] == "S"]
    payloads = [p.lower() for p in case["payloads"]]
    # sender framing (RFC 4253 section 6) on the plaintext packets handed to the cipher
    bs = CIPHERS[case["cip"]]
    for k, s in enumerate(sends):
        pkt = bytes.fromhex(s[1:].split(":")[0])
        padlen = int(s.split(":")[1])
        if int(s.split(":")[2]) != k:
            return Failure(case, f"outgoing sequence number {s.split(':')[2]} on packet {k}", "send-sequence")
        if len(pkt) % max(bs, 8) or int.from_bytes(pkt[:4], "big") != len(pkt) - 4 or pkt[4] != padlen or not 4 <= padlen <= 255:
            return Failure(case, f"malformed packet framed by sendPacket: {s[:60]}", "send-framing")
    ver = _expected_version(case)
    got_v = [e for e in evs if e[0] == "V"]
    ps = [e[1:] for e in evs if e[0] == "P"]
    xs = [e for e in evs if e[0] == "X"]
    if ver is None:
        if ps or got_v:
            return Failure(case, "version accepted although no complete version line within 4 KB", "version-bogus")
        return None if xs == ["X10"] or not xs else Failure(case, f"unexpected disconnect {xs}", "preamble-disconnect")
    vstr, ok = ver
    if not ok:
        if ps or xs != ["X8"]:
            return Failure(case, f"unsupported version {vstr!r}: expected DISCONNECT 8 and nothing delivered, got {evs[:4]}",
                           "version-unsupported")
        return None
    if got_v != ["V" + vstr.hex()]:
        why = "banner-line-parsed-as-packet" if xs == ["X2"] and not ps else "version-line"
        return Failure(case, f"version line {vstr!r} not recognised with this segmentation "
                       f"(cuts {sorted(set(case['cuts']))[:8]}): events {evs[:4]}", why)
    if not case.get("corrupt"):
        if xs or ps != payloads:
            tag = "payload-contains-version-line" if any("0a5353482d" in p for p in payloads) and case["cip"] == "none" \
                else "segmentation"
            return Failure(case, f"payloads not delivered exactly, in order: delivered {len(ps)}/{len(payloads)}, "
                           f"disconnects {xs}", tag)
        return None
    if case["mac"] == "none":
        return None                         # no integrity protection negotiated: nothing is promised
    # which packet holds the corrupted byte?
    off = case["corrupt"][0] % max(1, sum(tr["sizes"]))
    k, start = 0, 0
    for k, sz in enumerate(tr["sizes"]):
        if off < start + sz:
            break
        start += sz
    if ps != payloads[:k]:
        return Failure(case, f"packet {k} was altered (byte {off - start} of {tr['sizes'][k]}) but deliveries are "
                       f"{len(ps)} packets (expected exactly the {k} before it)", "tampered-delivered")
    if not xs and off - start >= bs:
        return Failure(case, f"packet {k} altered outside its first block and no DISCONNECT was sent",
                       "tampered-no-disconnect")
    return None


# --------------------------------------------------------------------------------------
# generator

_BANNERS = [b"Welcome to the machine\n", b"\n", b"hi\r\n", b"This is an SSH-2 server, be nice\r\n", b"x" * 70 + b"\n",
            b"SSH\n", b"SSH -not-a-version\n", b"12345678\n", b"1234567\n", b"\r\n", b"ssh-2.0-lowercase\n"]
_VERSIONS = [b"SSH-2.0-Verif_1.0\r\n"] * 6 + [b"SSH-2.0-Verif\n", b"SSH-1.99-Old stuff here\r\n", b"SSH-2.0-x\r\r\n",
                                              b"SSH-2.0-a-b-c\r\n", b"SSH-1.5-Ancient\r\n", b"SSH-3.0-Future\r\n",
                                              b"SSH-2.0\n", b"SSH-\r\n"]


def _payload(rng, big=False):
    n = rng.choice([1, 1, 2, 3, 5, 7, 8, 11, 12, 16, 27, 28, 40] + ([100, 200, 1000] if big else []))
    p = bytes([rng.choice([1, 2, 20, 50, 94, 255])]) + rng.randbytes(n - 1)
    r = rng.random()
    if r < 0.08:
        p = p[:1] + b"\nSSH-2.0-evil\r\n" + p[1:5]
    elif r < 0.12:
        p = p[:1] + b"\n" * 3 + p[1:4]
    return p.hex()


def gen(rng, tier):
    from twisted.conch.ssh import transport
    quick = tier == "quick"
    ciphers = [c.decode() for c in transport.SSHTransportBase.supportedCiphers] + ["none"]
    macs = [m.decode() for m in transport.SSHTransportBase.supportedMACs] + ["none"]
    cases = []
    reps = 5 if quick else 25
    for cip in ciphers:
        for mac in macs:
            for comp in (False, True):
                for rep in range(reps):
                    banner = [rng.choice(_BANNERS).hex() for _ in range(rng.choice([0, 0, 1, 2, 3]))]
                    version = rng.choice(_VERSIONS).hex()
                    payloads = [_payload(rng, big=not quick) for _ in range(rng.choice([1, 2, 3, 5]))]
                    mode = rng.choice(["whole", "bytes", "random", "random", "lines"])
                    pre = b"".join(bytes.fromhex(b) for b in banner) + bytes.fromhex(version)
                    if mode == "whole":
                        cuts = []
                    elif mode == "bytes":
                        cuts = list(range(0, len(pre) + 60)) if quick else list(range(0, 400))
                    elif mode == "lines":
                        cuts = [i + 1 for i, ch in enumerate(pre) if ch == 10] + \
                               [rng.randrange(0, 300) for _ in range(rng.randrange(0, 4))]
                    else:
                        cuts = [rng.randrange(0, len(pre) + 200) for _ in range(rng.randrange(1, 9))]
                    corrupt = None
                    if rep % 3 == 2:
                        corrupt = [rng.randrange(0, 100000), rng.randrange(1, 256)]
                        version = _VERSIONS[0].hex()
                    cases.append({"cip": cip, "mac": mac, "comp": comp, "banner": banner, "version": version,
                                  "payloads": payloads, "cuts": cuts, "corrupt": corrupt, "seed": rng.randrange(1 << 30)})
    # long preambles around the 4 KB limit
    for n in ([4070, 4079, 4080, 4081, 4200] if quick else range(4060, 4100)):
        banner = [(b"y" * 99 + b"\n").hex()] * (n // 100) + [(b"z" * (n % 100) + b"\n").hex()]
        cases.append({"cip": "none", "mac": "hmac-sha1", "comp": False, "banner": banner,
                      "version": _VERSIONS[0].hex(), "payloads": [_payload(rng)], "cuts": [rng.randrange(0, 5000)],
                      "corrupt": None, "seed": n})
    return cases


def corpus():
    v = _VERSIONS[0].hex()
    base = {"cip": "none", "mac": "none", "comp": False, "corrupt": None, "seed": 1}
    return [
        # banner line delivered on its own (chunk ends at its newline), >= one cipher block long
        {**base, "banner": [b"Welcome to my server\n".hex()], "version": v, "payloads": ["5e0102"], "cuts": [21]},
        # banner line containing "SSH-" in the middle, version line cut in two
        {**base, "banner": [b"an SSH-2 server\n".hex()], "version": v, "payloads": ["5e0102"], "cuts": [16 + 9]},
        # a later "line" of packet data starting with SSH- in the same delivery as the version line
        {**base, "banner": [], "version": v, "payloads": [(b"\x5e\nSSH-2.0-evil\r\nabc").hex(), "5e07"], "cuts": []},
        # everything in one delivery, more than 4 KB after the version line
        {**base, "mac": "hmac-sha1", "banner": [], "version": v, "payloads": [(b"\x5e" + b"q" * 1500).hex()] * 4, "cuts": []},
        # tampering in every region of an encrypted, authenticated packet
        *[{**base, "cip": "aes128-ctr", "mac": "hmac-sha2-256", "banner": [], "version": v,
           "payloads": ["5e" + "11" * 20, "5e" + "22" * 20], "cuts": [40, 90], "corrupt": [o, 1], "seed": 7}
          for o in (0, 3, 4, 5, 30, 47, 48, 60, 79, 80, 100, 159)],
        *[{**base, "cip": "aes256-cbc", "mac": "hmac-md5", "comp": True, "banner": [], "version": v,
           "payloads": ["5e" + "11" * 20, "5e" + "22" * 20], "cuts": [33], "corrupt": [o, 128], "seed": 8}
          for o in (0, 15, 16, 31, 32, 47, 50)],
    ]


# --------------------------------------------------------------------------------------
# model side


def to_coq(case):
    h = stable_hash(case)
    if h not in _TR:
        impl(case)
    tr = _TR[h]
    if sum(len(c) for c in tr["chunks"]) > 1200:
        return None          # keep the Coq terms small; large streams go through the oracle only
    dec = coq_list([coq_bytes(d) for d in tr["dec"]], "bytes")
    ver = coq_list([f"({s}%N, {coq_bytes(d)}, {coq_bytes(m)})" for s, d, m in tr["mac"]], "(N * bytes * bytes)%type")
    dz = coq_list(["None" if d is None else f"(Some {coq_bytes(d)})" for d in tr["dz"]], "(option bytes)")
    items = coq_list([f"({coq_bytes(z)}, {coq_bytes(p)})" for z, p in zip(tr["z"], tr["pads"])], "(bytes * bytes)%type")
    chunks = coq_list([coq_bytes(c) for c in tr["chunks"]], "bytes")
    return f"(({tr['bs']}%N, {tr['ms']}%N), ({dec}, {ver}, {dz}), {items}, {chunks})"


def shrink(case):
    if case["banner"]:
        for i in range(len(case["banner"])):
            yield {**case, "banner": case["banner"][:i] + case["banner"][i + 1:]}
    if len(case["payloads"]) > 1:
        for i in range(len(case["payloads"])):
            yield {**case, "payloads": case["payloads"][:i] + case["payloads"][i + 1:]}
    for i in range(len(case["cuts"])):
        yield {**case, "cuts": case["cuts"][:i] + case["cuts"][i + 1:]}
    for i, p in enumerate(case["payloads"]):
        if len(p) > 4:
            yield {**case, "payloads": case["payloads"][:i] + [p[:len(p) // 4 * 2]] + case["payloads"][i + 1:]}


def describe(case):
    d = dict(case)
    d["cuts"] = sorted(set(case["cuts"]))[:12]
    d["payloads"] = [p[:40] for p in case["payloads"]]
    d["banner"] = [b[:40] for b in case["banner"]]
    return d


SPEC = Spec(
    pid="C35",
    gen=gen, impl=impl, oracle=oracle, corpus=corpus, shrink=shrink, describe=describe,
    coq_header="From C35 Require Import Model Run.",
    coq_fn="run_show",
    to_coq=to_coq,
    nontrivial=lambda c, o: " P" in " " + o or "X" in o,
    histogram=lambda c, o: f"{c['cip']}/{c['mac']}/{'zlib' if c['comp'] else 'none'}" + ("/tampered" if c.get("corrupt") else ""),
    rule="every cipher the transport offers (+none) x every MAC it offers (+none) x {none, zlib}, 5 (thorough 25) cases "
         "each: 0-3 banner lines (incl. lines with 'SSH-' inside, lines of exactly one cipher block, empty lines), 14 "
         "version-line shapes (LF only, CR CR LF, 1.99, unsupported, no software part), 1-5 random payloads of 1-40 "
         "(thorough 1000) bytes (some containing LF SSH-2.0-...), deliveries whole / byte-by-byte / random cuts / cut "
         "after every banner newline; every third case flips one byte of the encrypted stream; preambles around the 4 KB "
         "limit; non-trivial = something delivered or a disconnect; distinct by (case, observation)",
    trusted=["hand-written model coq/C35/Model.v (tied by this correspondence run only)",
             "oracle transcripts: the model is evaluated with the answers the real decryptor and decompressor gave "
             "during the implementation run, replayed in call order, and with the ideal MAC 'verify(seq, p, m) iff the "
             "sender's makeMAC produced m for (seq, p)' built from the sender's recorded makeMAC calls (harness/c35.py, "
             "coq/C35/Run.v)",
             "SSHCiphers subclass / zlib proxies only record; randbytes.secureRandom is patched to seeded bytes while "
             "the sender runs; sender and receiver are SSHTransportBase instances without key exchange "
             "(currentEncryptions / *Compression set directly, as transport._newKeys does)",
             "the receiver is not fed after it sent DISCONNECT (a real transport stops reading after loseConnection)"],
    assumptions=["cipher: dec(enc x) = x on synchronised states, length-preserving, streaming over whole blocks "
                 "(hypotheses of the Section in coq/C35/Proofs.v)",
                 "MAC: verify(seq, p, mac(seq, p)) = true; ideal on the inputs considered (altered packet or sequence "
                 "number => verify false)", "zlib: decompress is the streaming inverse of compress"],
)
