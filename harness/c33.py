"""C33 — decoding arbitrary bytes as a DNS message is total and terminates: H-tie (model
coq/Lib/WireDns.v, theorems coq/Lib/WireDnsTotal.v exported by coq/C33/Property.v)."""
from __future__ import annotations

import json
import os

from harness import c32  # noqa: F401  (installs the smaller-shard work-around for model evaluation)
from harness import wire_dns as W
from harness.common import VERIF, Failure, Spec

ALLOWED = ("EOFError", "ValueError")


class _Controller:
    """what DNSProtocol needs from its controller; collects the messages handed on"""

    def __init__(self):
        self.msgs = []

    def connectionMade(self, proto):
        pass

    def connectionLost(self, proto):
        pass

    def messageReceived(self, m, proto, *a):
        self.msgs.append(W.show_message_py(m))


def chunks(cuts, data: bytes):
    out = []
    for k in cuts:
        if not data:
            return out
        if k == 0:
            out.append(data)
            return out
        out.append(data[:k])
        data = data[k:]
    if data:
        out.append(data)
    return out


def _tcp(data: bytes, cuts) -> str:
    """the TCP path: DNSProtocol.dataReceived over the stream cut into segments"""
    from twisted.internet.testing import StringTransport
    from twisted.names import dns
    ctl = _Controller()
    p = dns.DNSProtocol(ctl)
    p.makeConnection(StringTransport())
    err = "ok"
    for c in chunks(cuts, data):
        try:
            p.dataReceived(c)
        except Exception as e:          # the class is the observation
            err = W.exn(e)[2:]
            break
    return " ; ".join(ctl.msgs) + "|" + err


ADDR_SHAPES = ("tuple4", "tuple6", "iaddr4", "iaddr6")


def _addr(shape):
    """the address shapes real transports hand to datagramReceived: a (host, port) tuple from an IPv4 UDP port, a
    (host, port, flowinfo, scopeid) tuple from an IPv6 one; IAddress objects are what the unit tests use"""
    from twisted.internet.address import IPv4Address, IPv6Address
    return {"tuple4": ("192.0.2.7", 5353), "tuple6": ("2001:db8::7", 5353, 0, 0),
            "iaddr4": IPv4Address("UDP", "192.0.2.7", 5353), "iaddr6": IPv6Address("UDP", "2001:db8::7", 5353)}[shape]


def _udp(data: bytes, shape) -> str:
    """the UDP path: DNSDatagramProtocol.datagramReceived(data, addr) on a started protocol"""
    from twisted.internet import task
    from twisted.names import dns
    from twisted.python import log
    ctl = _Controller()
    p = dns.DNSDatagramProtocol(ctl, reactor=task.Clock())
    p.makeConnection(object())                      # DatagramProtocol.makeConnection -> startProtocol
    errors = []
    obs = lambda ev: errors.append(ev) if ev.get("isError") else None
    log.addObserver(obs)
    try:
        try:
            p.datagramReceived(data, _addr(shape))
        except Exception as e:                      # must never happen: a malformed datagram is dropped
            return "E:" + type(e).__name__
    finally:
        log.removeObserver(obs)
    if errors:
        return "unexpected"                         # logged as "Unexpected decoding error"
    return ("delivered:" + ctl.msgs[0]) if ctl.msgs else "dropped"


def impl(case) -> str:
    from twisted.names import dns
    data = bytes.fromhex(case["data"])
    if case.get("tcp"):
        return _tcp(data, case["cuts"])
    if case.get("udp"):
        return _udp(data, case["udp"])
    m = dns.Message()
    try:
        m.fromStr(data)
    except Exception as e:          # every class is an observation; the oracle decides which are allowed
        return W.exn(e)
    out = W.show_message_py(m)
    if case.get("edns"):
        # the EDNS layer on top (OPT options parsing); oracle-only information, appended after '#'
        try:
            dns._EDNSMessage().fromStr(data)
            out += "#edns:ok"
        except Exception as e:
            out += "#edns:" + W.exn(e)
    return out


def oracle(case, obs):
    if case.get("udp"):
        if obs.startswith("E:"):
            return Failure(case, f"DNSDatagramProtocol.datagramReceived raised {obs[2:]} for a datagram from a "
                                 f"{case['udp']} address instead of dropping it", "udp-raised-" + obs[2:])
        if obs == "unexpected":
            return Failure(case, "the datagram was logged as an 'Unexpected decoding error'", "udp-unexpected-error")
        return None
    if case.get("tcp"):
        err = obs.rsplit("|", 1)[1]
        first = len(chunks(case["cuts"], bytes.fromhex(case["data"]))[0]) if case["data"] and case["cuts"] else None
        if err != "ok" and err not in ALLOWED:
            return Failure(case, f"DNSProtocol.dataReceived raised {err} (first segment of {first} bytes)",
                           "tcp-length-prefix-split" if err == "TypeError" else "tcp-exception-" + err)
        data = bytes.fromhex(case["data"])
        alts = [[]]
        if len(data) <= 300:
            alts.append([1] * len(data))
        alts.append([1])
        for alt in alts:
            other = _tcp(data, alt)
            if other != obs:
                return Failure(case, f"segmentation changes the result: cuts {case['cuts'][:8]} -> {obs[-60:]}, "
                                     f"cuts {alt[:4]} -> {other[-60:]}",
                               "tcp-length-prefix-split" if other.endswith("|TypeError") else "tcp-split-differs")
        return None
    main, _, edns = obs.partition("#edns:")
    if main.startswith("E:") and main[2:] not in ALLOWED:
        return Failure(case, f"decoding raised {main[2:]}, which the DNS protocols do not treat as a malformed packet",
                       "exception-" + main[2:])
    if edns.startswith("E:") and edns[2:] not in ALLOWED:
        return Failure(case, f"_EDNSMessage.fromStr raised {edns[2:]}", "edns-exception-" + edns[2:])
    return None


def model_equal(case, a, b):
    return a.partition("#edns:")[0] == b


# ---------------------------------------------------------------------------------------------

def _rb(rng, n):
    return bytes(rng.getrandbits(8) for _ in range(n))


def _ptr(off):
    return bytes([0xC0 | (off >> 8) & 0x3F, off & 0xFF])


def handcrafted():
    hdr = lambda nq=1, na=0, nn=0, nr=0: b"\x12\x34\x81\x80" + bytes([nq >> 8, nq & 255, na >> 8, na & 255, nn >> 8, nn & 255, nr >> 8, nr & 255])
    q = b"\x00\x01\x00\x01"
    rrh = lambda t, rdlen, ttl=1: bytes([t >> 8, t & 255]) + b"\x00\x01" + ttl.to_bytes(4, "big") + bytes([rdlen >> 8, rdlen & 255])
    out = []
    out.append(hdr() + _ptr(12) + q)                                   # pointer to itself
    out.append(hdr() + _ptr(14) + _ptr(12) + q)                        # two-cycle
    out.append(hdr() + b"\x01a" + _ptr(12) + q)                        # label then back to its own start
    out.append(hdr() + _ptr(16) + q + b"\x01a" + _ptr(12))             # forward pointer into a cycle
    chain = b"\x01z\x00" + b"".join(_ptr(12 + 3 + 2 * (i - 1)) if i else _ptr(12) for i in range(200))
    out.append(hdr(1) + chain + _ptr(12 + 3 + 2 * 199) + q)            # 200 chained pointers, then fine
    out.append(hdr() + _ptr(0x3FFF) + q)                               # pointer past the end
    out.append(hdr() + _ptr(0) + q)                                    # pointer into the header
    for l in (63, 64, 65, 127, 128, 191):
        out.append(hdr() + bytes([l]) + b"a" * l + b"\0" + q)          # label length bytes 64..191
        out.append(hdr() + bytes([l]) + b"a" * (l - 1))                # ... cut short
    out.append(hdr(65535, 65535, 65535, 65535))                        # counts without content
    out.append(hdr(0, 65535) + (b"\0" + rrh(1, 4) + b"\x01\x02\x03\x04") * 40)
    for t, short in ((1, 0), (1, 3), (28, 15), (11, 4), (11, 0), (44, 1), (44, 0), (6, 5), (15, 1), (33, 5), (35, 3),
                     (16, 1), (16, 300), (13, 1), (250, 3), (38, 0), (41, 3), (10, 0)):
        out.append(hdr(0, 1) + b"\0" + rrh(t, short) + b"\xff" * min(short, 40))     # rdlength smaller than the layout
        out.append(hdr(0, 2) + b"\0" + rrh(t, short) + b"\x03abc" * 12 + b"\0" + rrh(1, 4) + b"\x7f\0\0\1")
    for plen in (0, 1, 127, 128, 129, 135, 136, 200, 255):
        out.append(hdr(0, 1) + b"\0" + rrh(38, 20) + bytes([plen]) + b"\x11" * 16 + b"\x01p\0" + b"tail")   # A6 prefix lengths
    out.append(hdr(0, 1) + b"\0" + rrh(16, 65535) + b"\xff" + b"t" * 255)           # TXT rdlength far beyond the data
    out.append(hdr(0, 1) + b"\0" + rrh(16, 4) + b"\x00\x00\x00\x00")                # TXT of empty strings
    out.append(hdr(0, 0, 0, 1) + b"\0" + rrh(41, 7) + b"\x00\x03\x00\x08abc")       # OPT option longer than its data
    out.append(hdr(0, 0, 0, 2) + b"\0" + rrh(41, 0) + b"\0" + rrh(41, 4) + b"\0\1\0\0")
    # rho-shaped pointer chains: the first pointer leads through a tail of `t` further pointers into a cycle of
    # `k` pointers that does NOT contain the first target; reached from a question, an owner name, an rdata name
    for t in (1, 2, 3, 4):
        for k in (1, 2, 3, 4):
            for where in ("q", "owner", "rdata"):
                for labelled in (False, True):
                    if labelled and (t + k) % 2:
                        continue
                    node = 4 if labelled else 2
                    base = {"q": 18, "owner": 28, "rdata": 25}[where]
                    offs = [base + node * i for i in range(t + k)]
                    nxt = [offs[i + 1] for i in range(t + k - 1)] + [offs[t]]        # last cycle node -> first cycle node
                    area = b"".join((b"\x01r" if labelled else b"") + _ptr(n) for n in nxt)
                    if where == "q":
                        out.append(hdr(1) + _ptr(base) + q + area)
                    elif where == "owner":
                        out.append(hdr(0, 1) + _ptr(base) + rrh(1, 4) + b"\x7f\0\0\1" + area)
                    else:
                        out.append(hdr(0, 1) + b"\0" + rrh(2, 2) + _ptr(base) + area)
    out.append(b"")
    out.append(b"\x00" * 11)
    out.append(b"\xff" * 12)
    out.append(b"\xff" * 600)
    return out


def chain_packet(n, direction, ending):
    """an ACYCLIC chain of n compression pointers hanging off the question name (up to ~8170 fit below offset
    2^14): forward (each pointer targets the next one) or backward; ending in the root label, in a label, in a
    pointer past the end of the packet (EOFError) or in a pointer back into the chain (ValueError)"""
    hdr = b"\x12\x34\x01\x00\x00\x01\x00\x00\x00\x00\x00\x00"
    q = b"\x00\x01\x00\x01"
    if direction == "forward":
        base = 18
        end_off = base + 2 * n
        nodes = b"".join(_ptr(base + 2 * (i + 1)) for i in range(n))
        if ending == "zero":
            tail = b"\0"
        elif ending == "label":
            tail = b"\x03end\0"
        elif ending == "eof":
            tail = _ptr(0x3FFF)
        else:
            tail = _ptr(base + 2 * (n // 2))
        return hdr + _ptr(base) + q + nodes + tail
    term = {"zero": b"\0", "label": b"\x03end\0", "eof": _ptr(0x3FFF), "cycle": None}[ending]
    base = 18 + (len(term) if term is not None else 2)
    if term is None:
        term = _ptr(base + 2 * (n // 2))
    nodes = b"".join(_ptr(18 if i == 0 else base + 2 * (i - 1)) for i in range(n))
    return hdr + _ptr(base + 2 * (n - 1)) + q + term + nodes


def long_chains(sizes):
    out = []
    for n in sizes:
        for direction in ("forward", "backward"):
            for ending in ("zero", "label", "eof", "cycle"):
                out.append(chain_packet(n, direction, ending))
    return out


def tcp_stream(rng):
    """1-3 length-prefixed messages (valid, mutated, wrong length prefix) or raw bytes"""
    k = rng.random()
    if k < 0.1:
        return _rb(rng, rng.choice([0, 1, 2, 3, 5, 14, 40]))
    out = b""
    for _ in range(rng.choice([1, 1, 2, 3])):
        m = W.ref_encode(c32.gen_message(rng, rng.choice(["tiny", "tiny", "small"])))[:600]
        if rng.random() < 0.3:
            m = mutate(rng, m)
        ln = len(m)
        j = rng.random()
        if j < 0.1:
            ln = rng.choice([0, 1, 11, 12, max(0, ln - 1), ln + 1, ln + 7, 65535])
        out += (ln & 0xFFFF).to_bytes(2, "big") + m
    if rng.random() < 0.15:
        out = out[: rng.randrange(len(out) + 1)]
    return out


def tcp_cuts(rng, n):
    k = rng.random()
    if k < 0.25:
        return [1]                                  # a first segment of ONE byte (half a length prefix)
    if k < 0.35:
        return [1, 1]
    if k < 0.45:
        return [2]
    if k < 0.55:
        return [3]
    if k < 0.7:
        return [1] * min(n, 400)
    if k < 0.8:
        return []
    return [rng.choice([1, 2, 3, 5, 8, 13, 40]) for _ in range(rng.randrange(1, 12))]


def mutate(rng, d: bytes) -> bytes:
    b = bytearray(d)
    for _ in range(rng.choice([1, 1, 2, 3])):
        k = rng.random()
        if not b:
            b += _rb(rng, rng.randrange(1, 30))
        elif k < 0.2:
            del b[rng.randrange(len(b)):]
        elif k < 0.45:
            i = rng.randrange(len(b))
            b[i] = rng.choice([0, 1, 0x3F, 0x40, 0x7F, 0x80, 0xBF, 0xC0, 0xC1, 0xFF, b[i] ^ (1 << rng.randrange(8))])
        elif k < 0.65 and len(b) > 13:
            i = rng.randrange(12, len(b) - 1)              # plant a pointer: backwards, to itself, forwards, far away
            tgt = rng.choice([i, max(0, i - 2), rng.randrange(len(b)), 12, 0, rng.randrange(0x4000)])
            b[i:i + 2] = _ptr(tgt)
        elif k < 0.72 and len(b) > 16:
            i, j = sorted(rng.sample(range(12, len(b) - 1), 2))       # a cycle between two places of the body
            if j - i >= 2:
                b[i:i + 2] = _ptr(j)
                b[j:j + 2] = _ptr(rng.choice([i, i, max(12, i - 1), j]))
        elif k < 0.8:
            i = rng.randrange(len(b) + 1)
            b[i:i] = _rb(rng, rng.randrange(1, 6))
        elif k < 0.9 and len(b) >= 12:
            i = rng.choice([4, 6, 8, 10])                  # section counts
            b[i:i + 2] = rng.choice([b"\0\0", b"\0\1", b"\0\2", b"\1\0", b"\xff\xff"])
        else:
            i = rng.randrange(len(b))
            del b[i:i + rng.randrange(1, 8)]
    return bytes(b)


def corpus():
    cs = [{"data": d.hex(), "edns": True} for d in handcrafted()]
    # the UDP path with every address shape, for every family of malformed datagram
    fam = [b"", b"\x00" * 11, b"\x12\x34\x01\x00\x00\x01\x00\x00\x00\x00\x00\x00\x03ab",             # empty, short, cut question
           b"\x12\x34\x01\x00\x00\x01\x00\x00\x00\x00\x00\x00\xc0\x0c\x00\x01\x00\x01",            # pointer loop
           b"\x12\x34\x01\x00\x00\x01\x00\x00\x00\x00\x00\x00\x00\x00\x01\x00\x01"]                  # a valid query
    for d in fam + handcrafted()[:12]:
        for shape in ADDR_SHAPES:
            cs.append({"udp": shape, "data": d.hex()})
    cs += [{"data": d.hex(), "edns": False} for d in long_chains((300, 1000, 4000, 8170))]
    one = W.ref_encode({"hdr": {"id": 1, "answer": 0, "opCode": 0, "auth": 0, "trunc": 0, "recDes": 1, "recAv": 0,
                                "authenticData": 0, "checkingDisabled": 0, "rCode": 0},
                        "q": [[[b"example".hex(), b"com".hex()], 1, 1]], "an": [], "ns": [], "ar": []})
    framed = len(one).to_bytes(2, "big") + one
    for cuts in ([1], [1, 1], [2], [3], [], [1] * 40, [len(framed) - 1]):
        cs.append({"tcp": True, "data": framed.hex(), "cuts": cuts})
        cs.append({"tcp": True, "data": (framed + framed).hex(), "cuts": cuts})
    for d in (b"\x00", b"\x00\x00", b"\x00\x05abc", b"\x00\x0c" + b"\xff" * 12, b"\x00\x02\xc0\x0c\x00"):
        for cuts in ([1], []):
            cs.append({"tcp": True, "data": d.hex(), "cuts": cuts})
    p = os.path.join(VERIF, "corpus/C33/seeds.json")
    if os.path.exists(p):
        cs += json.load(open(p))
    return cs


def gen(rng, tier):
    cases = []
    n = 500 if tier == "quick" else 20000
    for i in range(n):
        k = rng.random()
        if k < 0.08:
            d = _rb(rng, rng.choice([0, 1, 11, 12, 13, 20, 40, 100]))
        else:
            m = c32.gen_message(rng, rng.choice(["tiny", "small", "small", "medium"]))
            d = W.ref_encode(m)
            if len(d) > 1200:
                d = d[:1200]
            if k < 0.9:
                d = mutate(rng, d)
        cases.append({"data": d.hex(), "edns": rng.random() < 0.3})
    for i in range(n // 3):
        m = c32.gen_message(rng, rng.choice(["tiny", "small"]))
        d = W.ref_encode(m)[:800]
        if rng.random() < 0.85:
            d = mutate(rng, d)
        if rng.random() < 0.1:
            d = _rb(rng, rng.choice([0, 1, 5, 11, 12, 20]))
        cases.append({"udp": rng.choice(ADDR_SHAPES), "data": d.hex()})
    for i in range(n // 3):
        d = tcp_stream(rng)
        cases.append({"tcp": True, "data": d.hex(), "cuts": tcp_cuts(rng, len(d))})
    if tier == "thorough":
        cases += [{"data": d.hex(), "edns": False} for d in long_chains((980, 1200, 2500, 6000, 8000))]
    return cases


def to_coq(case):
    if len(case["data"]) > 4000:
        return None
    if case.get("udp"):
        return f"KUdp {W.coq_bytes(bytes.fromhex(case['data']))}"
    if case.get("tcp"):
        cuts = "[" + "; ".join(f"{k}%N" for k in case["cuts"]) + "]" if case["cuts"] else "(@nil N)"
        return f"KTcp {W.coq_bytes(bytes.fromhex(case['data']))} {cuts}"
    return f"KRaw {W.coq_bytes(bytes.fromhex(case['data']))}"


def hist(case, obs):
    if case.get("udp"):
        return "udp:" + case["udp"] + ":" + obs.split(":")[0]
    if case.get("tcp"):
        return "tcp:" + obs.rsplit("|", 1)[1] + (":1-byte-first-segment" if case["cuts"][:1] == [1] else "")
    main = obs.partition("#edns:")[0]
    return "raw:" + (main[2:] if main.startswith("E:") else "decoded")


def shrink(case):
    d = case["data"]
    if case.get("tcp") and len(case["cuts"]) > 1:
        yield {**case, "cuts": case["cuts"][:1]}
    if len(d) > 2:
        yield {**case, "data": d[:-2]}
        yield {**case, "data": d[: len(d) // 4 * 2]}
    if len(d) > 26:
        yield {**case, "data": d[:24] + d[26:]}
        i = (len(d) // 4) * 2
        yield {**case, "data": d[:i] + d[i + 2:]}


SPEC = Spec(
    pid="C33",
    gen=gen,
    impl=impl,
    oracle=oracle,
    coq_header="From TwLib Require Import PyInt WireIter WireDns WireDnsShow.\nFrom C33 Require Import Model Run.",
    coq_fn="run33",
    to_coq=to_coq,
    corpus=corpus,
    shrink=shrink,
    histogram=hist,
    model_equal=model_equal,
    nontrivial=lambda c, o: len(c["data"]) >= 24,
    case_timeout=5.0,
    rule="UDP path: DNSDatagramProtocol.datagramReceived(data, addr) with the address shapes real transports use - a (host, "
         "port) tuple (IPv4), a 4-tuple (IPv6) - and IAddress objects, for empty / short / cut / pointer-loop / valid and "
         "mutated datagrams: must return normally (delivered or dropped), never raise, never log an unexpected error. "
         "TCP path: DNSProtocol.dataReceived fed with 1-3 length-prefixed messages (valid, mutated, wrong / zero / 65535 "
         "length prefix, truncated streams) or raw bytes, cut into segments with a ONE-byte first segment (25%), 1+1, 2, "
         "3, byte-wise, whole, Fibonacci-sized; result compared with whole and byte-wise delivery. Long ACYCLIC "
         "pointer chains of 300/1000/4000/8170 hops (thorough also 980..8000), forward and backward, ending in the root "
         "label / a label / a pointer past the end / a pointer back into the chain. hand-made packets: pointer to itself, 2-cycle, rho-shaped chains (tail of 1-4 pointers into a cycle of 1-4 that "
         "does not contain the first target; from a question, an owner name and an rdata name; bare and behind labels), label-then-back, forward pointer into a cycle, a chain of "
         "200 pointers, pointers past the end / into the header, label length bytes 63..191 whole and cut, counts of "
         "65535 without content, every record type with an rdlength smaller than its layout (followed or not by more "
         "data), A6 prefix lengths 0..255, TXT with rdlength beyond the data, OPT options longer than their data, "
         "empty / 11-byte / all-0xff packets; random: 8% raw random bytes, the rest messages over every record type "
         "written by an independent uncompressed reference encoder, 90% of them mutated 1-3 times (truncate, replace a "
         "byte by 0x3f/0x40/0x7f/0x80/0xbf/0xc0/0xff or a bit flip, plant a compression pointer backwards / at "
         "itself / forwards / out of range, insert or delete bytes, rewrite a section count). 5 s per-input limit; 30% "
         "also through _EDNSMessage.fromStr. non-trivial = at least 12 bytes",
    trusted=[
        "hand-written model coq/Lib/WireDns.v (tied only as far as the generated cases reach)",
        "the theorems need every element of the input to be a byte (< 256); Python bytes always are",
        "_EDNSMessage.fromStr (OPT option parsing on top of Message.fromStr) has no Coq model: exception class and "
        "time limit are checked on the real code only",
    ],
    assumptions=["the decoder is entered through Message.fromStr (as DNSDatagramProtocol.datagramReceived does) or "
                 "through DNSProtocol.dataReceived (TCP framing, modelled in its repaired form)"],
)
