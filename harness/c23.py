"""C23 — HTTP client: the request completes exactly once with the exact body
(twisted.web._newclient HTTPClientParser / HTTP11ClientProtocol / Response).

H-tie: coq/C23/Model.v (byte-level whole-prefix view `scan` + the event machine `run`) evaluated by
vm_compute against the real HTTP11ClientProtocol on a StringTransport: responses built from a
structured description (and by h11), EVERY truncation point, random segmentation, four
deliverBody timings, connection lost or still open.
Oracle: computed from the structured description (never from the bytes through a parser).
"""
from __future__ import annotations

from harness.common import REPO, Failure, Spec, coq_bool, coq_bytes, coq_list
from translate import c23 as pins

H = bytes.fromhex
TIMINGS = ["never", "at-response", "after", "after-lost"]

# ------------------------------------------------------------------------------------------
# implementation driver

_silenced = False


def _silence_log():
    global _silenced
    if not _silenced:
        _silenced = True
        from twisted.logger import globalLogBeginner
        try:
            globalLogBeginner.beginLoggingTo([lambda e: None], redirectStandardIO=False, discardBuffer=True)
        except Exception:
            pass


def impl_proto(case) -> str:
    """protocol-layer case: a request whose body may still be in transmission, abort(), cancel()"""
    from twisted.internet.defer import Deferred
    from twisted.internet.error import ConnectionDone
    from twisted.internet.protocol import Protocol
    from twisted.internet.testing import StringTransport
    from twisted.python.failure import Failure as TFailure
    from twisted.web._newclient import (HTTP11ClientProtocol, PotentialDataLoss, Request, RequestGenerationFailed,
                                        RequestTransmissionFailed, ResponseDone, ResponseFailed,
                                        ResponseNeverReceived)
    from twisted.internet.defer import CancelledError
    from twisted.web.http_headers import Headers
    from twisted.web.iweb import IBodyProducer
    from zope.interface import implementer

    _silence_log()

    class Transport(StringTransport):
        # a real transport accepts pause/resume after loseConnection(); the test double refuses
        def _checkState(self):
            pass

    class ProducerError(Exception):
        pass

    @implementer(IBodyProducer)
    class Producer:
        length = 4
        stops = 0
        consumer = d = None

        def startProducing(self, consumer):
            self.consumer, self.d = consumer, Deferred()
            return self.d

        def stopProducing(self):
            self.stops += 1

        def pauseProducing(self):
            pass

        def resumeProducing(self):
            pass

    fired, got, closed = [], [], []
    box = {"response": None, "delivered": False}

    class Consumer(Protocol):
        def dataReceived(self, data):
            if closed:
                got.append(b"<<after-close>>")
            got.append(data)

        def connectionLost(self, reason):
            closed.append("D" if reason.check(ResponseDone) else "P" if reason.check(PotentialDataLoss)
                          else "F" if reason.check(ResponseFailed) else "?" + reason.type.__name__)

    def on_resp(resp):
        fired.append(f"R{resp.code}")
        box["response"] = resp

    def on_fail(f):
        for cls, tag in ((ResponseNeverReceived, "N"), (ResponseFailed, "F"), (RequestGenerationFailed, "G"),
                         (RequestTransmissionFailed, "T"), (CancelledError, "C")):
            if f.check(cls):
                fired.append(tag)
                return
        fired.append("?" + f.type.__name__)

    proto = HTTP11ClientProtocol()
    transport = Transport()
    proto.makeConnection(transport)
    producer = Producer() if case["transmitting"] else None
    req = Request(H(case["method"]) if not producer else b"POST", b"/", Headers({b"host": [b"h"]}), producer,
                  persistent=case["persistent"])
    d = proto.request(req)
    d.addCallbacks(on_resp, on_fail)
    for op in case["ops"]:
        k = op[0]
        if k == "data":
            proto.dataReceived(H(op[1]))
        elif k in ("qdone", "qfail"):
            if producer is not None and not producer.d.called:
                if k == "qdone":
                    try:
                        producer.consumer.write(b"body")
                    except Exception:
                        pass
                    producer.d.callback(None)
                else:
                    producer.d.errback(TFailure(ProducerError()))
        elif k == "abort":
            proto.abort()
        elif k == "cancel":
            d.cancel()
        elif k == "deliver":
            if box["response"] is not None and not box["delivered"]:
                box["delivered"] = True
                box["response"].deliverBody(Consumer())
        elif k == "lost":
            proto.connectionLost(TFailure(ConnectionDone()))
    return (",".join(fired) + "|" + b"".join(got).hex() + "|" + ",".join(closed)
            + f"|s{producer.stops if producer else 0}" + "|a" + ("T" if box["delivered"] else "F"))


def impl_two(case) -> str:
    """two requests on one connection; the second is issued by the application from inside the first response's
    body consumer (its connectionLost, or its dataReceived of the last body byte) or after the first exchange"""
    from twisted.internet.defer import Deferred, succeed
    from twisted.internet.defer import CancelledError
    from twisted.internet.error import ConnectionDone
    from twisted.internet.protocol import Protocol
    from twisted.internet.testing import StringTransport
    from twisted.python.failure import Failure as TFailure
    from twisted.web._newclient import (HTTP11ClientProtocol, PotentialDataLoss, Request, RequestGenerationFailed,
                                        RequestNotSent, RequestTransmissionFailed, ResponseDone, ResponseFailed,
                                        ResponseNeverReceived)
    from twisted.web.http_headers import Headers
    from twisted.web.iweb import IBodyProducer
    from zope.interface import implementer

    _silence_log()

    class Transport(StringTransport):
        def _checkState(self):
            pass

    @implementer(IBodyProducer)
    class Producer:
        length = 4

        def __init__(self, sync):
            self.sync, self.consumer, self.d = sync, None, None

        def startProducing(self, consumer):
            self.consumer = consumer
            if self.sync:
                consumer.write(b"body")
                return succeed(None)
            self.d = Deferred()
            return self.d

        def finish(self):
            if self.d is not None and not self.d.called:
                try:
                    self.consumer.write(b"body")
                except Exception:
                    pass
                self.d.callback(None)

        def stopProducing(self):
            pass

        def pauseProducing(self):
            pass

        def resumeProducing(self):
            pass

    def reason_tag(reason):
        return ("D" if reason.check(ResponseDone) else "P" if reason.check(PotentialDataLoss)
                else "F" if reason.check(ResponseFailed) else "?" + reason.type.__name__)

    def fail_tag(f):
        for cls, tag in ((RequestNotSent, "X"), (ResponseNeverReceived, "N"), (ResponseFailed, "F"),
                         (RequestGenerationFailed, "G"), (RequestTransmissionFailed, "T"), (CancelledError, "C")):
            if f.check(cls):
                return tag
        return "?" + f.type.__name__

    st = {1: {"fired": [], "got": [], "closed": [], "response": None, "delivered": False},
          2: {"fired": [], "got": [], "closed": [], "response": None, "delivered": False}}
    box = {"issued": False, "producer": None}
    n1 = case["body1_len"]
    issue_at = case["issue"]
    proto = HTTP11ClientProtocol()
    proto.makeConnection(Transport())

    def issue():
        if box["issued"]:
            return
        box["issued"] = True
        kind = case["req2"]
        producer = None if kind == "get" else Producer(sync=(kind == "sync"))
        box["producer"] = producer
        d2 = proto.request(Request(H(case["method2"]) if producer is None else b"POST", b"/two",
                                   Headers({b"host": [b"h"]}), producer, persistent=case["persistent"]))
        d2.addCallbacks(lambda r: (st[2]["fired"].append(f"R{r.code}"), st[2].__setitem__("response", r)),
                        lambda f: st[2]["fired"].append(fail_tag(f)))

    class Consumer(Protocol):
        def __init__(self, k):
            self.k = k

        def dataReceived(self, data):
            if st[self.k]["closed"]:
                st[self.k]["got"].append(b"<<after-close>>")
            st[self.k]["got"].append(data)
            if self.k == 1 and issue_at == "at-last-data" and n1 > 0 and len(b"".join(st[1]["got"])) >= n1:
                issue()

        def connectionLost(self, reason):
            st[self.k]["closed"].append(reason_tag(reason))
            if self.k == 1 and issue_at == "at-close":
                issue()

    def deliver(k):
        if st[k]["response"] is not None and not st[k]["delivered"]:
            st[k]["delivered"] = True
            st[k]["response"].deliverBody(Consumer(k))

    def on1(resp):
        st[1]["fired"].append(f"R{resp.code}")
        st[1]["response"] = resp
        if case["deliver1"] == "at-response":
            deliver(1)

    d1 = proto.request(Request(H(case["method1"]), b"/one", Headers({b"host": [b"h"]}), None,
                               persistent=case["persistent"]))
    d1.addCallbacks(on1, lambda f: st[1]["fired"].append(fail_tag(f)))
    for seg in case["segs1"]:
        proto.dataReceived(H(seg))
    if case["deliver1"] == "after-all":
        deliver(1)
    if issue_at == "after":
        issue()
    if box["issued"] and st[2]["fired"] != ["X"]:
        for op in case["ops2"]:
            k = op[0]
            if k == "data":
                proto.dataReceived(H(op[1]))
            elif k == "qdone":
                if box["producer"] is not None:
                    box["producer"].finish()
            elif k == "deliver":
                deliver(2)
            elif k == "lost":
                proto.connectionLost(TFailure(ConnectionDone()))

    def show(k):
        return ",".join(st[k]["fired"]) + "|" + b"".join(st[k]["got"]).hex() + "|" + ",".join(st[k]["closed"])

    second = "unissued" if not box["issued"] else ("X" if st[2]["fired"] == ["X"] else show(2))
    return show(1) + "#" + second


def impl(case) -> str:
    if case.get("kind") == "proto":
        return impl_proto(case)
    if case.get("kind") == "two":
        return impl_two(case)
    from twisted.internet.error import ConnectionDone
    from twisted.internet.protocol import Protocol
    from twisted.internet.testing import StringTransport
    from twisted.python.failure import Failure as TFailure
    from twisted.web._newclient import (HTTP11ClientProtocol, PotentialDataLoss, Request, ResponseDone,
                                        ResponseFailed, ResponseNeverReceived)
    from twisted.web.http_headers import Headers

    _silence_log()
    fired: list[str] = []
    got: list[bytes] = []
    closed: list[str] = []
    box = {"response": None, "delivered": False}

    class Consumer(Protocol):
        def dataReceived(self, data):
            if closed:
                got.append(b"<<after-close>>")
            got.append(data)
            if case.get("consumer_close") and isinstance(box["response"].length, int) \
                    and len(b"".join(got)) >= box["response"].length > 0:
                # the application has everything it was promised and hangs up, from inside dataReceived; the transport
                # reports the loss synchronously
                self.transport.loseConnection()

        def connectionLost(self, reason):
            if reason.check(ResponseDone):
                closed.append("D")
            elif reason.check(PotentialDataLoss):
                closed.append("P")
            elif reason.check(ResponseFailed):
                closed.append("F")
            else:
                closed.append("?" + reason.type.__name__)

    def deliver():
        if box["response"] is None:
            box["eager"] = True       # no response yet: deliver as soon as it arrives (in the callback)
        elif not box["delivered"]:
            box["delivered"] = True
            box["response"].deliverBody(Consumer())

    timing = case["timing"]

    def on_resp(resp):
        fired.append(f"R{resp.code}")
        box["response"] = resp
        if timing == "at-response" or box.get("eager"):
            deliver()

    def on_fail(f):
        if f.check(ResponseNeverReceived):
            fired.append("N")
        elif f.check(ResponseFailed):
            fired.append("F")
        else:
            fired.append("?" + f.type.__name__)

    proto = HTTP11ClientProtocol()
    if case.get("consumer_close"):
        from twisted.internet.testing import StringTransportWithDisconnection
        transport = StringTransportWithDisconnection()
        transport.protocol = proto
    else:
        transport = StringTransport()
    proto.makeConnection(transport)
    req = Request(H(case["method"]), b"/", Headers({b"host": [b"h"]}), None, persistent=case["persistent"])
    d = proto.request(req)
    d.addCallbacks(on_resp, on_fail)
    segs = [H(s) for s in case["segs"]]
    k = case["k"]
    for i, s in enumerate(segs):
        if i == k and timing == "after":
            deliver()
        if not transport.connected:
            break                      # nothing arrives on a connection that is gone
        proto.dataReceived(s)
    if k >= len(segs) and timing == "after":
        deliver()
    if case["lose"] and transport.connected:
        proto.connectionLost(TFailure(ConnectionDone()))
    if timing == "after-lost":
        deliver()
    return ",".join(fired) + "|" + b"".join(got).hex() + "|" + ",".join(closed)


# ------------------------------------------------------------------------------------------
# structured responses


def build(desc) -> tuple[bytes, int, list]:
    """-> (wire bytes, length of everything up to and including the final head, body map)
    body map: list of (wire offset, data) for the body bytes, in order; desc['complete_at'] = wire length at which
    the message is complete (None for close-delimited)"""
    nl = desc.get("nl", "\r\n").encode()
    out = b""
    for code in desc.get("interim", []):
        out += b"HTTP/1.1 %d Continue" % code + nl
        # header lines of an interim response - framing headers included - belong to that response only
        for line in desc.get("interim_headers", ["X-I: 1"]):
            out += line.encode() + nl
        out += nl
    out += desc.get("version", "HTTP/1.1").encode() + b" %d" % desc["code"]
    if desc.get("phrase") is not None:
        out += b" " + desc["phrase"].encode()
    out += nl
    for n, v in desc.get("headers", []):
        out += n.encode() + b":" + v.encode("latin1") + nl
    fr = desc["framing"]
    body = H(desc.get("body", ""))
    if fr == "cl":
        out += b"Content-Length: %d" % len(body) + nl
    elif fr == "cl-dup":
        out += b"Content-Length: %d" % len(body) + nl + b"content-length: %d , %d" % (len(body), len(body)) + nl
    elif fr == "chunked":
        out += b"Transfer-Encoding: " + desc.get("te", "chunked").encode() + nl
    out += nl
    headlen = len(out)
    bmap = []
    complete_at = None
    nobody = desc["method"] == "HEAD" or desc["code"] in (204, 304)
    if nobody:
        complete_at = headlen
        # bytes after the head are not part of this response
        out += body
    elif fr in ("cl", "cl-dup"):
        bmap.append((len(out), body))
        out += body
        complete_at = len(out)
    elif fr == "chunked":
        pos = 0
        fmt = desc.get("chunkfmt")          # per chunk: [leading zeros, extension]
        for ci, n in enumerate(desc["chunks"]):
            piece = body[pos:pos + n]
            pos += n
            if not piece:
                continue
            zeros, ext = fmt[ci] if fmt else (0, desc.get("ext", ""))
            out += b"0" * zeros + b"%x" % len(piece) + ext.encode() + b"\r\n"
            bmap.append((len(out), piece))
            out += piece + b"\r\n"
        out += b"0" + desc.get("ext", "").encode() + b"\r\n"
        for t in desc.get("trailers", []):
            out += t.encode() + b"\r\n"
        out += b"\r\n"
        complete_at = len(out)
    else:
        bmap.append((len(out), body))
        out += body
    out += H(desc.get("extra", ""))
    return out, headlen, bmap, complete_at


def expected(case):
    """the property's verdict for this case, from the description only"""
    desc = case["desc"]
    wire, headlen, bmap, complete_at = build(desc)
    t = case["t"]
    head_ok = t >= headlen
    received = b"".join(d[:max(0, t - off)] for off, d in bmap)
    complete = complete_at is not None and t >= complete_at
    return head_ok, received, complete


def oracle_proto(case, obs):
    if obs.count("|") != 4:
        return Failure(case, "driver anomaly: " + obs[:100], "driver")
    fired_s, deliv_hex, closed_s, _stops, asked = obs.split("|")
    fired = fired_s.split(",") if fired_s else []
    closed = closed_s.split(",") if closed_s else []
    ops = [o[0] for o in case["ops"]]
    if len(fired) > 1:
        return Failure(case, f"the request Deferred fired {len(fired)} times: {fired}", "deferred-fired-twice")
    if len(closed) > 1:
        return Failure(case, f"consumer.connectionLost called {len(closed)} times", "consumer-closed-twice")
    if b"<<after-close>>" in H(deliv_hex):
        return Failure(case, "consumer.dataReceived after consumer.connectionLost", "data-after-close")
    if ("lost" in ops or "cancel" in ops) and len(fired) != 1:
        upto = ops[:ops.index("lost")] if "lost" in ops else ops
        if "abort" in upto and case["transmitting"] and not any(o in ("qdone", "qfail") for o in upto[:upto.index("abort")]):
            tag = "abort-while-transmitting-request-never-completes"
        elif "abort" in upto:
            tag = "response-completes-while-aborting-request-never-completes"
        elif case["transmitting"] and case.get("body") is None:
            tag = "parse-error-while-transmitting-request-never-completes"
        else:
            tag = "deferred-never-fired"
        return Failure(case, f"the connection was lost / the request cancelled but the request Deferred never fired "
                       f"(ops {ops})", tag)
    if "lost" in ops and asked == "aT" and len(closed) != 1:
        return Failure(case, f"deliverBody was called and the connection is lost, but the consumer's connectionLost was "
                       f"called {len(closed)} times (ops {ops})",
                       "consumer-never-closed-after-abort" if "abort" in ops else "consumer-never-closed")
    if case["transmitting"]:
        # the connection goes away (loss or abort) before anything arrived and while the body is still being
        # produced: the producer must be told to stop
        first = next((i for i, o in enumerate(ops) if o in ("lost", "abort")), None)
        if first is not None and not any(o in ("data", "qdone", "qfail", "cancel") for o in ops[:first]) \
                and _stops == "s0":
            return Failure(case, f"connection {ops[first]} while the request body was being produced, but the producer "
                           "was never told to stop", "producer-not-stopped")
    if case.get("body") is not None and not H(case["body"]).startswith(H(deliv_hex)):
        return Failure(case, "delivered bytes are not a prefix of the response body", "body-proto")
    return None


def oracle_two(case, obs):
    if "#" not in obs:
        return Failure(case, "driver anomaly: " + obs[:100], "driver")
    o1, o2 = obs.split("#")
    f1, d1, c1 = o1.split("|")
    code1, body1 = case["code1"], H(case["body1"])
    if f1 != f"R{code1}":
        return Failure(case, f"first request: Deferred shows [{f1}], the wire carried a complete {code1} response",
                       "two-first-deferred")
    if H(d1) != body1 or c1 != "D":
        return Failure(case, f"first request: consumer got {H(d1)!r} / [{c1}], expected {body1!r} / [D]", "two-first-body")
    if o2 == "unissued":
        if case["issue"] == "at-last-data" and len(body1) == 0:
            return None
        return Failure(case, "the application's hook never ran: " + obs[:80], "two-hook")
    if o2 == "X":
        # refused: legitimate only while the first exchange is still going on (the last body byte is being delivered
        # from the network); once the first response is complete the connection is free again
        if case["issue"] == "at-last-data" and case["deliver1"] == "at-response":
            return None
        return Failure(case, f"second request issued {case['issue']} (first body delivered {case['deliver1']}) was refused "
                       "with RequestNotSent although the first exchange was complete", "reentrant-request-refused")
    f2, d2, c2 = o2.split("|")
    fired2 = f2.split(",") if f2 else []
    ops = [o[0] for o in case["ops2"]]
    if len(fired2) > 1:
        return Failure(case, f"second request's Deferred fired {len(fired2)} times", "two-second-fired-twice")
    complete2 = case["t2"] >= len(H(case["wire2"])) and (case["req2"] != "async" or "qdone" in ops
                                                       or True)
    head2 = case["t2"] >= case["headlen2"]
    written = case["req2"] != "async" or "qdone" in ops
    if "lost" in ops and len(fired2) != 1:
        return Failure(case, f"second request (issued {case['issue']}, body {case['req2']}): the connection was lost but "
                       f"its Deferred never fired", "reentrant-request-never-completes")
    if case["t2"] >= len(H(case["wire2"])) and fired2 != [f"R{case['code2']}"]:
        return Failure(case, f"second request (issued {case['issue']}, body {case['req2']}): the wire carried a complete "
                       f"{case['code2']} response but its Deferred shows {fired2}", "reentrant-request-never-completes")
    if head2 and written and fired2 != [f"R{case['code2']}"]:
        return Failure(case, f"second request: head complete and request written but Deferred shows {fired2}",
                       "two-second-deferred")
    if not H(case["body2"]).startswith(H(d2)):
        return Failure(case, "second request: delivered bytes are not a prefix of the body", "two-second-body")
    if fired2 == [f"R{case['code2']}"] and "deliver" in ops[ops.index("deliver"):] and case["t2"] >= len(H(case["wire2"])) \
            and ops.index("deliver") > max([i for i, o in enumerate(ops) if o == "data"], default=-1):
        if H(d2) != H(case["body2"]) or c2 != "D":
            return Failure(case, f"second request: consumer got {H(d2)!r} / [{c2}], expected the whole body / [D]",
                           "two-second-body")
    return None


def oracle(case, obs):
    if case.get("kind") == "proto":
        return oracle_proto(case, obs)
    if case.get("kind") == "two":
        return oracle_two(case, obs)
    if obs == "TIMING-NOT-APPLICABLE":
        return None
    if obs.count("|") != 2:
        return Failure(case, "driver anomaly: " + obs[:100], "driver")
    fired_s, deliv_hex, closed_s = obs.split("|")
    fired = fired_s.split(",") if fired_s else []
    closed = closed_s.split(",") if closed_s else []
    delivered = H(deliv_hex)
    lose, timing = case["lose"], case["timing"]
    if len(fired) > 1:
        return Failure(case, f"the request Deferred fired {len(fired)} times: {fired}", "deferred-fired-twice")
    if len(closed) > 1:
        return Failure(case, f"consumer.connectionLost called {len(closed)} times", "consumer-closed-twice")
    if b"<<after-close>>" in delivered:
        return Failure(case, "consumer.dataReceived after consumer.connectionLost", "data-after-close")
    if case.get("desc") is None:
        # malformed stream: generic statements, plus "a message whose framing is ambiguous or whose head is not
        # HTTP is never handed to the application as a response"
        if lose and len(fired) != 1:
            return Failure(case, "connection lost but the request Deferred never fired", "deferred-never-fired")
        if case.get("must_fail") and any(f.startswith("R") for f in fired):
            return Failure(case, f"a response with an invalid / ambiguous head was delivered: {fired}",
                           "malformed-head-accepted")
        return None
    head_ok, received, complete = expected(case)
    desc = case["desc"]
    if case.get("long_line_refused"):
        # a chunk-size line of maxChunkSizeLineLength bytes or more: refused, however it is cut
        if fired != [f"R{desc['code']}"] or delivered != b"" or (timing != "never" and closed != ["F"]):
            return Failure(case, f"chunk-size line of {case['long_line_refused']} bytes: expected the response, no body "
                           f"bytes and ResponseFailed; got {fired} / {len(delivered)} bytes / {closed}",
                           "chunk-size-line-limit")
        return None
    # --- request Deferred: exactly once; with the response iff the head is complete ---------------
    if head_ok:
        if fired != [f"R{desc['code']}"]:
            return Failure(case, f"head complete but the request Deferred shows {fired}", "deferred-head-complete")
    else:
        want = [] if not lose else (["F"] if case["t"] > 0 else ["N"])
        if fired != want:
            return Failure(case, f"head incomplete ({case['t']} bytes), lose={lose}: Deferred shows {fired}, expected {want}",
                           "deferred-head-incomplete")
        if delivered or closed:
            return Failure(case, "consumer saw events without a response", "consumer-without-response")
        return None
    # --- body ------------------------------------------------------------------------------------
    asked = timing in ("at-response", "after") or timing == "after-lost"
    if timing == "never":
        if delivered or closed:
            return Failure(case, "consumer events although deliverBody was never called", "consumer-uncalled")
        return None
    if delivered != received:
        return Failure(case, f"body delivered {delivered[:40]!r} ({len(delivered)} bytes) != body received "
                       f"{received[:40]!r} ({len(received)} bytes)",
                       "chunk-size-line-limit" if case.get("long_line") else "body-" + desc["framing"])
    ended = lose or complete
    if not ended:
        if closed:
            return Failure(case, f"consumer.connectionLost({closed}) while the body is still arriving", "closed-early")
        return None
    if desc["method"] == "HEAD" or desc["code"] in (204, 304) or complete:
        want = "D"
    elif desc["framing"] == "close":
        want = "P"
    else:
        want = "F"
    if closed != [want]:
        tag = "reason-" + desc["framing"]
        if case.get("consumer_close"):
            tag += "-consumer-hangs-up-at-completion"
        if case.get("long_line"):
            tag = "chunk-size-line-limit"
        return Failure(case, f"consumer.connectionLost reasons {closed}, expected [{want}] "
                       f"(framing {desc['framing']}, complete={complete}, lose={lose})", tag)
    return None


# ------------------------------------------------------------------------------------------
# generator


def _segment(rng, data: bytes, cuts=None):
    if not data:
        return []
    n = len(data)
    if cuts is None:
        k = rng.choice([0, 1, 2, 3, 5, n - 1])
        cuts = sorted(set(rng.randrange(1, n) for _ in range(min(k, n - 1)))) if n > 1 else []
    segs, prev = [], 0
    for c in cuts + [n]:
        if c > prev:
            segs.append(data[prev:c])
            prev = c
    return segs


def _descs(rng, tier):
    body = lambda n: bytes(rng.choice(b"abc\r\n0123;: ") if rng.random() < 0.8 else rng.randrange(256) for _ in range(n)).hex()
    ds = []
    for method in ("GET", "HEAD"):
        for code in (200, 204, 304, 404):
            for fr in ("cl", "chunked", "close", "cl-dup"):
                core = method == "GET" and code == 200 or (method == "HEAD" and code == 200 and fr == "cl") \
                    or (code in (204, 304) and method == "GET" and fr == "chunked")
                if tier == "quick" and not core and rng.random() < 0.7:
                    continue
                n = rng.choice([0, 1, 3, 8, 17, 30])
                d = {"method": method, "code": code, "framing": fr, "body": body(n), "phrase": rng.choice(["OK", "", None, "Not Found x"]),
                     "headers": rng.sample([["X-A", " 1"], ["Content-Type", "text/plain"], ["X-Long", " a\r\n  folded"],
                                            ["Connection", " close"], ["X-E", ""]], rng.choice([0, 1, 2])),
                     "interim": rng.choice([[], [], [100], [100, 102]]),
                     "interim_headers": rng.choice([["X-I: 1"], ["X-I: 1"], [], ["Content-Length: 0"],
                                                    ["Transfer-Encoding: chunked"], ["Connection: close"],
                                                    ["Content-Length: 7", "X-I: 2"]]),
                     "nl": rng.choice(["\r\n", "\r\n", "\n"]),
                     "version": rng.choice(["HTTP/1.1", "HTTP/1.1", "HTTP/1.0", "FOO/2.10"])}
                if fr == "chunked":
                    sizes, left = [], n
                    while left > 0:
                        s = rng.choice([1, 2, 5, 16, left])
                        s = min(s, left)
                        sizes.append(s)
                        left -= s
                    d["chunks"] = sizes
                    d["ext"] = rng.choice(["", "", ";x=1", ";q"])
                    d["trailers"] = rng.choice([[], [], ["X-T: 1"], ["A: b", "C: d"]])
                    d["te"] = rng.choice(["chunked", "Chunked", "chunked"])
                if rng.random() < 0.2:
                    d["extra"] = b"HTTP/1.1 200 OK\r\n".hex() if fr != "close" else ""
                ds.append(d)
    return ds


def _case(rng, desc, t, segs, timing=None, lose=True):
    return {"desc": desc, "t": t, "method": desc["method"].encode().hex(), "segs": [x.hex() for x in segs],
            "k": rng.randrange(len(segs) + 1), "timing": timing or rng.choice(TIMINGS), "lose": lose,
            "persistent": rng.random() < 0.5}


def _consumer_close_block(rng, tier):
    """a Content-Length body whose consumer hangs up (loseConnection on the response's transport, reported
    synchronously) from inside dataReceived the moment it has response.length bytes: the body was received completely,
    so it ends with ResponseDone whatever the consumer does at that moment"""
    out = []
    for fr, code in (("cl", 200), ("cl-dup", 404), ("cl", 200)):
        for n in ((1, 5, 30) if tier == "quick" else (1, 2, 5, 8, 30, 64)):
            d = {"method": "GET", "code": code, "framing": fr, "phrase": "OK", "headers": [], "interim": rng.choice([[], [100]]),
                 "body": bytes(rng.choice(b"abcdef\r\n") for _ in range(n)).hex(), "nl": "\r\n", "version": "HTTP/1.1",
                 "extra": rng.choice(["", b"XY".hex()])}
            wire, headlen, bmap, complete_at = build(d)
            cuts = [[c] for c in range(max(1, headlen - 2), len(wire))] + [None, None]
            for cut in cuts:
                segs = _segment(rng, wire, cut)
                for timing in ("at-response", "after"):
                    c = _case(rng, d, len(wire), segs, timing)
                    c["consumer_close"] = "loseConnection"
                    if timing == "after":
                        c["k"] = rng.randrange(len(segs))        # strictly before the last delivery
                    out.append(c)
    return out


def _long_chunk_line_block(rng, tier):
    """chunk-size lines of maxChunkSizeLineLength-2 .. +1 bytes (size + extension), cut at every position around the CRLF
    that ends them and delivered byte by byte around it: up to 1023 bytes they are accepted, from 1024 on refused -
    whatever the segmentation"""
    out = []
    for L in (1022, 1023, 1024, 1025):
        ext = ";" + "x" * (L - 2)
        d = {"method": "GET", "code": 200, "framing": "chunked", "body": b"hello!!!".hex(), "phrase": "OK", "headers": [],
             "interim": [], "nl": "\r\n", "version": "HTTP/1.1", "chunks": [5, 3], "chunkfmt": [[0, ext], [0, ""]],
             "trailers": [], "te": "chunked"}
        wire, headlen, bmap, complete_at = build(d)
        eol = headlen + L                      # offset of the CR ending the first chunk-size line
        plans = [[eol + j] for j in range(-3, 5)]
        plans += [[eol + j, eol + j2] for j in (-1, 0, 1) for j2 in (2, 3) if j < j2]
        plans += [list(range(eol - 3, eol + 6))]                      # byte by byte around it
        plans += [list(range(headlen + 1, headlen + 8)) + [eol + 1]]   # and from the start of the line
        if tier != "quick":
            plans += [[rng.randrange(1, len(wire)), eol + 1] for _ in range(10)]
        for cut in plans:
            cut = sorted(set(c for c in cut if 0 < c < len(wire)))
            c = _case(rng, d, len(wire), _segment(rng, wire, cut), rng.choice(["at-response", "after-lost"]))
            c["long_line"] = L
            if L >= 1024:
                c["long_line_refused"] = L
            out.append(c)
    return out


def _interim_framing_block(rng, tier):
    """an interim (1xx) response that itself carries a connection-control header, before a final response of every
    framing kind: the interim response's headers must not take part in the framing of the final one"""
    out = []
    body = b"hello".hex()
    for icode in (100, 102):
        for ih in (["Content-Length: 0"], ["Content-Length: 9"], ["Transfer-Encoding: chunked"], ["Connection: close"],
                   ["Content-Length: 0", "Transfer-Encoding: chunked"], ["Trailers: x", "Keep-Alive: 1"]):
            for fr, code, method in (("cl", 200, "GET"), ("chunked", 200, "GET"), ("close", 200, "GET"),
                                     ("cl-dup", 404, "GET"), ("cl", 204, "GET"), ("cl", 200, "HEAD")):
                d = {"method": method, "code": code, "framing": fr, "body": body, "phrase": "OK", "headers": [],
                     "interim": [icode], "interim_headers": ih, "nl": "\r\n", "version": "HTTP/1.1"}
                if fr == "chunked":
                    d["chunks"] = [2, 3]
                wire = build(d)[0]
                for timing in (("at-response", "after-lost") if tier == "quick" else TIMINGS):
                    out.append(_case(rng, d, len(wire), _segment(rng, wire), timing))
                if tier != "quick":
                    for t in range(len(wire) + 1):
                        out.append(_case(rng, d, t, _segment(rng, wire[:t])))
    return out


def _chunk_size_line_block(rng, tier):
    """chunk-size lines of three and more bytes (big chunk, leading zeros, extension) followed by shorter ones, with a
    delivery boundary at EVERY offset (all two-way splits), and at every offset inside every chunk-size line combined
    with a second cut"""
    out = []
    shapes = [
        ([5, 3, 1], [[3, ""], [0, ";ext=1"], [0, ""]]),  # "0005", "3;ext=1", "1"
        ([16, 2], [[1, ""], [0, ""]]),                   # "010" then "2"
        ([4, 4], [[0, ";a=b;c"], [2, ""]]),              # "4;a=b;c", "004"
        ([256, 5], [[0, ""], [0, ""]]),                  # "100" then "5"            (thorough)
        ([300, 17, 2], [[0, ""], [1, ""], [0, ""]]),      # "12c", "011", "2"         (thorough)
    ]
    for sizes, fmt in (shapes if tier != "quick" else shapes[:3]):
        n = sum(sizes)
        d = {"method": "GET", "code": 200, "framing": "chunked", "body": bytes(rng.choice(b"abcdefgh") for _ in range(n)).hex(),
             "phrase": "OK", "headers": [], "interim": [], "nl": "\r\n", "version": "HTTP/1.1", "chunks": sizes,
             "chunkfmt": fmt, "trailers": rng.choice([[], ["X-T: 1"]]), "te": "chunked"}
        wire, headlen, bmap, complete_at = build(d)
        # offsets of the chunk-size lines (start of line .. its LF)
        lines = []
        pos = headlen
        for off, piece in bmap:
            lines.append((pos, off))          # size line occupies wire[pos:off]
            pos = off + len(piece) + 2
        for c in range(1, len(wire)):
            if tier == "quick" and c < headlen - 2 and rng.random() < 0.8:
                continue                      # the head is covered elsewhere; keep a sample
            out.append(_case(rng, d, len(wire), [wire[:c], wire[c:]], rng.choice(["at-response", "after-lost", "after"])))
        for a, b in lines:
            for c in range(a + 1, b + 1):
                for _ in range(1 if tier == "quick" else 3):
                    c2 = rng.randrange(c + 1, len(wire)) if c + 1 < len(wire) else None
                    segs = [wire[:c], wire[c:c2], wire[c2:]] if c2 else [wire[:c], wire[c:]]
                    out.append(_case(rng, d, len(wire), [x for x in segs if x], "at-response"))
    return out


MALFORMED = [
    b"HTTP/1.1 200 OK\r\nContent-Length: 3\r\nContent-Length: 4\r\n\r\nabcd",
    b"HTTP/1.1 200 OK\r\nContent-Length: x\r\n\r\nabc",
    b"HTTP/1.1 200 OK\r\nTransfer-Encoding: gzip\r\n\r\nabc",
    b"HTTP/1.1 200 OK\r\nTransfer-Encoding: chunked\r\n\r\nzz\r\nabc\r\n0\r\n\r\n",
    b"HTTP/1.1 200 OK\r\nTransfer-Encoding: chunked\r\n\r\n3\r\nabcXX0\r\n\r\n",
    b"HTTP/1.1 200 OK\r\nTransfer-Encoding: chunked\r\n\r\n3;\x01\r\nabc\r\n0\r\n\r\n",
    b"HTTP/1.1 200 OK\r\nTransfer-Encoding: chunked\r\n\r\n3\r\nabc\r\n0\r\nX: y\r\n\r\nrest",
    b"HTTP/1.1 2x0 OK\r\n\r\n",
    b"HTTP/1.1\r\n\r\n",
    b"HTTP1.1 200 OK\r\n\r\n",
    b"HTTP/1 200 OK\r\n\r\n",
    b"HTTP/1.1.1 200 OK\r\n\r\n",
    b"HTTP/1.1  200 OK\r\n\r\n",
    b"\r\nHTTP/1.1 200 OK\r\n\r\n",
    b"HTTP/1.1 200 OK\r\n folded-first\r\n\r\n",
    b"HTTP/1.1 200 OK\r\nno colon here\r\n\r\n",
    b"HTTP/1.1 200 OK\r\nBad Name: 1\r\n\r\n",
    b"HTTP/1.1 200 OK\r\n: empty\r\n\r\n",
    b"HTTP/1.1 200\r\nContent-Length:0\r\n\r\n",
    b"HTTP/1.1 200 OK\nContent-Length: 2\n\nab",
    b"HTTP/1.1 100 Continue\r\n\r\nHTTP/1.1 100 Continue\r\n\r\nHTTP/1.1 200 OK\r\nContent-Length: 1\r\n\r\nZ",
    b"HTTP/1.1 200 OK\r\nContent-Length: 1, 1\r\ncontent-length:\t1 \r\n\r\nZ",
    b"HTTP/1.1 200 OK\r\nContent-Length: 1,2\r\n\r\nZ",
    b"HTTP/1.1 200 OK\r\nTransfer-Encoding: chunked\r\nContent-Length: 9\r\n\r\n1\r\nZ\r\n0\r\n\r\n",
]


# indices of MALFORMED whose head must never yield a response (for a GET)
MUST_FAIL = {0, 1, 2, 7, 8, 9, 10, 11, 12, 13, 14, 15, 16, 17, 22}


def _h11_responses(rng):
    import h11
    outs = []
    for body, chunked in ((b"hello world", False), (b"chunked body here", True), (b"", False)):
        c = h11.Connection(h11.SERVER)
        c.receive_data(b"GET / HTTP/1.1\r\nHost: h\r\n\r\n")
        c.next_event()
        hs = [("Server", "h11")] + ([("Transfer-Encoding", "chunked")] if chunked else [("Content-Length", str(len(body)))])
        w = c.send(h11.Response(status_code=200, headers=hs))
        if body:
            w += c.send(h11.Data(data=body[:5]))
            w += c.send(h11.Data(data=body[5:]))
        w += c.send(h11.EndOfMessage())
        outs.append(w)
    return outs


def gen(rng, tier):
    cases = gen_proto(rng, tier) + gen_two(rng, tier)
    big = tier != "quick"
    for desc in _descs(rng, tier):
        wire = build(desc)[0]
        for t in range(len(wire) + 1):
            if not big and rng.random() < 0.5:
                continue
            data = wire[:t]
            segs = _segment(rng, data)
            for _ in range(1 if not big else 2):
                timing = rng.choice(TIMINGS)
                cases.append({"desc": desc, "t": t, "method": desc["method"].encode().hex(),
                              "segs": [s.hex() for s in segs], "k": rng.randrange(len(segs) + 1),
                              "timing": timing, "lose": rng.random() < 0.8, "persistent": rng.random() < 0.5})
    cases += _consumer_close_block(rng, tier)
    cases += _long_chunk_line_block(rng, tier)
    cases += _interim_framing_block(rng, tier)
    cases += _chunk_size_line_block(rng, tier)
    # boundaries of every response, all timings, lost and open
    for desc in _descs(rng, tier):
        wire, headlen, bmap, complete_at = build(desc)
        pts = {0, 1, headlen - 1, headlen, min(headlen + 1, len(wire)), len(wire)}
        if complete_at is not None:
            pts |= {complete_at - 1, complete_at}
        for t in sorted(p for p in pts if 0 <= p <= len(wire)):
            for timing in TIMINGS:
                for lose in (True, False):
                    segs = _segment(rng, wire[:t])
                    cases.append({"desc": desc, "t": t, "method": desc["method"].encode().hex(),
                                  "segs": [x.hex() for x in segs], "k": rng.randrange(len(segs) + 1),
                                  "timing": timing, "lose": lose, "persistent": rng.random() < 0.5})
    for idx, wire in enumerate(MALFORMED + _h11_responses(rng)):
        for t in range(len(wire) + 1):
            if not big and rng.random() < 0.5:
                continue
            segs = _segment(rng, wire[:t])
            cases.append({"desc": None, "t": t, "must_fail": idx in MUST_FAIL, "method": b"GET".hex() if idx in MUST_FAIL else
                          rng.choice([b"GET", b"GET", b"HEAD"]).hex(),
                          "segs": [s.hex() for s in segs], "k": rng.randrange(len(segs) + 1),
                          "timing": rng.choice(TIMINGS), "lose": rng.random() < 0.8, "persistent": rng.random() < 0.5})
    return cases


PROTO_WIRES = [
    (b"HTTP/1.1 200 OK\r\nContent-Length: 3\r\n\r\nabc", b"abc"),
    (b"HTTP/1.1 204 No Content\r\n\r\n", b""),
    (b"HTTP/1.1 200 OK\r\nContent-Length: 0\r\n\r\n", b""),
    (b"HTTP/1.1 200 OK\r\nTransfer-Encoding: chunked\r\n\r\n2\r\nab\r\n1\r\nc\r\n0\r\n\r\n", b"abc"),
    (b"HTTP/1.1 200 OK\r\n\r\nabc", b"abc"),
    (b"HTTP/1.1 100 Continue\r\n\r\nHTTP/1.1 404 NF\r\nContent-Length: 2\r\n\r\nno", b"no"),
    (b"HTTP/1.1 200 OK\r\nContent-Length: x\r\n\r\n", None),
]


def _proto_case(rng):
    wire, body = rng.choice(PROTO_WIRES)
    t = rng.choice([0, len(wire), len(wire), rng.randrange(len(wire) + 1)])
    datas = [["data", x.hex()] for x in _segment(rng, wire[:t])]
    transmitting = rng.random() < 0.6
    extra = []
    if transmitting and rng.random() < 0.8:
        extra.append([rng.choice(["qdone", "qdone", "qfail"])])
    for k, pr in (("abort", 0.35), ("cancel", 0.2), ("deliver", 0.6), ("deliver", 0.2)):
        if rng.random() < pr:
            extra.append([k])
    ops = list(datas)
    for e in extra:
        ops.insert(rng.randrange(len(ops) + 1), e)
    if rng.random() < 0.85:
        # the loss comes after every delivery; application calls may still follow it
        last_data = max([i for i, o in enumerate(ops) if o[0] == "data"], default=-1)
        ops.insert(rng.randrange(last_data + 1, len(ops) + 1), ["lost"])
    return {"kind": "proto", "transmitting": transmitting, "method": b"GET".hex(), "persistent": rng.random() < 0.5,
            "ops": ops, "body": None if body is None else body.hex()}


TWO_FIRST = [
    (b"HTTP/1.1 200 OK\r\nContent-Length: 5\r\n\r\nhello", 200, b"hello"),
    (b"HTTP/1.1 200 OK\r\nTransfer-Encoding: chunked\r\n\r\n3\r\nabc\r\n2\r\nde\r\n0\r\n\r\n", 200, b"abcde"),
    (b"HTTP/1.1 404 NF\r\nContent-Length: 1\r\n\r\nx", 404, b"x"),
    (b"HTTP/1.1 204 No Content\r\n\r\n", 204, b""),
    (b"HTTP/1.1 200 OK\r\nContent-Length: 0\r\n\r\n", 200, b""),
]
TWO_SECOND = [
    (b"HTTP/1.1 201 Created\r\nContent-Length: 2\r\n\r\nok", 201, b"ok"),
    (b"HTTP/1.1 200 OK\r\nTransfer-Encoding: chunked\r\n\r\n3\r\nabc\r\n2\r\nde\r\n0\r\n\r\n", 200, b"abcde"),
    (b"HTTP/1.1 204 No Content\r\n\r\n", 204, b""),
]


def _two_case(rng, w1, deliver1, issue, req2, w2=None, t2=None):
    wire1, code1, body1 = w1
    wire2, code2, body2 = w2 or rng.choice(TWO_SECOND)
    t2 = len(wire2) if t2 is None else t2
    ops2 = [["data", x.hex()] for x in _segment(rng, wire2[:t2])]
    if req2 == "async" and rng.random() < 0.9:
        ops2.insert(rng.randrange(len(ops2) + 1), ["qdone"])
    for _ in range(rng.choice([1, 1, 2])):
        ops2.insert(rng.randrange(len(ops2) + 1), ["deliver"])
    if rng.random() < 0.6:
        ops2.append(["deliver"])
    if rng.random() < 0.8:
        ops2.append(["lost"])
    return {"kind": "two", "persistent": rng.random() < 0.8, "method1": b"GET".hex(), "method2": b"GET".hex(),
            "segs1": [x.hex() for x in _segment(rng, wire1)], "code1": code1, "body1": body1.hex(),
            "body1_len": len(body1), "deliver1": deliver1, "issue": issue, "req2": req2, "ops2": ops2,
            "wire2": wire2.hex(), "t2": t2, "code2": code2, "body2": body2.hex(),
            "headlen2": wire2.index(b"\r\n\r\n") + 4}


def gen_two(rng, tier):
    out = []
    reps = 1 if tier == "quick" else 6
    for w1 in TWO_FIRST:
        for deliver1 in ("at-response", "after-all"):
            for issue in ("at-close", "at-last-data", "after"):
                for req2 in ("get", "sync", "async"):
                    for _ in range(reps):
                        out.append(_two_case(rng, w1, deliver1, issue, req2))
                    w2 = rng.choice(TWO_SECOND)
                    out.append(_two_case(rng, w1, deliver1, issue, req2, w2, rng.randrange(len(w2[0]) + 1)))
    return out


def _abort_block(rng, tier):
    """abort() at every point of the exchange, for every body framing, with a consumer attached before or after it,
    then the loss"""
    out = []
    for wire, body in PROTO_WIRES:
        if body is None:
            continue
        head = wire.index(b"\r\n\r\n") + 4 if b"\r\n\r\n" in wire else len(wire)
        pts = sorted({0, 1, head - 1, head, min(head + 1, len(wire)), len(wire) - 1, len(wire)}) if tier == "quick" \
            else range(len(wire) + 1)
        for t in pts:
            if not 0 <= t <= len(wire):
                continue
            first = [["data", x.hex()] for x in _segment(rng, wire[:t])]
            rest = [["data", x.hex()] for x in _segment(rng, wire[t:])]
            for ops in (first + [["deliver"], ["abort"]] + rest + [["deliver"], ["lost"]],
                        first + [["abort"], ["deliver"]] + rest + [["lost"], ["deliver"]],
                        first + [["deliver"], ["abort"], ["lost"]],
                        first + [["abort"]] + rest + [["lost"], ["deliver"]]):
                out.append({"kind": "proto", "transmitting": False, "method": b"GET".hex(), "persistent": rng.random() < 0.5,
                            "ops": ops, "body": body.hex()})
    return out


def gen_proto(rng, tier):
    return _abort_block(rng, tier) + [_proto_case(rng) for _ in range(700 if tier == "quick" else 12000)]


def corpus():
    # the two abort() situations (found by the exactly-once invariant of the protocol layer)
    pre = [
        {"kind": "proto", "transmitting": True, "method": b"GET".hex(), "persistent": False, "body": None,
         "ops": [["abort"], ["lost"]]},
        {"kind": "proto", "transmitting": True, "method": b"GET".hex(), "persistent": False, "body": None,
         "ops": [["abort"], ["qdone"], ["lost"]]},
        {"kind": "proto", "transmitting": False, "method": b"GET".hex(), "persistent": False, "body": "",
         "ops": [["abort"], ["data", b"HTTP/1.1 204 No Content\r\n\r\n".hex()], ["lost"]]},
        {"kind": "proto", "transmitting": False, "method": b"HEAD".hex(), "persistent": True, "body": "",
         "ops": [["abort"], ["data", b"HTTP/1.1 200 OK\r\nContent-Length: 5\r\n\r\n".hex()], ["lost"]]},
    ]
    rr = __import__("random").Random(7)
    pre.append(_two_case(rr, TWO_FIRST[0], "at-response", "at-close", "async", TWO_SECOND[0]))
    return pre + _corpus_sessions()


def _corpus_sessions():
    d = {"method": "GET", "code": 200, "framing": "cl", "body": b"abc".hex(), "phrase": "OK", "headers": [], "interim": [],
         "nl": "\r\n", "version": "HTTP/1.1"}
    wire = build(d)[0]
    out = []
    for t in (0, 1, len(wire) - 1, len(wire)):
        for timing in TIMINGS:
            out.append({"desc": d, "t": t, "method": b"GET".hex(), "segs": [wire[:t].hex()] if t else [], "k": 1,
                        "timing": timing, "lose": True, "persistent": False})
    return out


# ------------------------------------------------------------------------------------------
# model side


def to_coq_proto(case):
    def op(o):
        k = o[0]
        if k == "data":
            return f"OData {coq_bytes(H(o[1]))}"
        return {"qdone": "OQDone", "qfail": "OQFail", "abort": "OAbort", "cancel": "OCancel", "deliver": "ODeliver",
                "lost": "OLost"}[k]
    m = b"POST" if case["transmitting"] else H(case["method"])
    return f"(CProto ({coq_bytes(m)}, {coq_bool(case['transmitting'])}, {coq_list(map(op, case['ops']), 'op')}))"


def _coq_ops(ops):
    def op(o):
        k = o[0]
        if k == "data":
            return f"OData {coq_bytes(H(o[1]))}"
        return {"qdone": "OQDone", "qfail": "OQFail", "abort": "OAbort", "cancel": "OCancel", "deliver": "ODeliver",
                "lost": "OLost"}[k]
    return coq_list(map(op, ops), "op")


def to_coq_two(case):
    cl = lambda xs: coq_list((coq_bytes(H(x)) for x in xs), "(list N)")
    t1 = "TBetween" if case["deliver1"] == "at-response" else "TAfterLost"
    tr = {"at-close": "TrClose", "after": "TrEnd"}.get(case["issue"]) or f"(TrLastData {case['body1_len']}%nat)"
    m2 = H(case["method2"]) if case["req2"] == "get" else b"POST"
    return (f"(CTwo ({coq_bytes(H(case['method1']))}, {cl(case['segs1'])}, {t1}, {tr}, {coq_bytes(m2)}, "
            f"{coq_bool(case['req2'] == 'async')}, {_coq_ops(case['ops2'])}))")


def to_coq(case):
    if case.get("long_line_refused"):
        return None          # the model does not carry the length limit (design.d/C23.md); oracle only
    if case.get("kind") == "two":
        return to_coq_two(case)
    if case.get("kind") == "proto":
        return "(C1 " + to_coq_proto(case) + ")"
    return "(C1 (CSession " + _to_coq_session(case) + "))"


def _to_coq_session(case):
    segs = [H(s) for s in case["segs"]]
    k = case["k"] if case["timing"] == "after" else 0
    t = {"never": "TNever", "at-response": "TBetween", "after": "TBetween", "after-lost": "TAfterLost"}[case["timing"]]
    cl = lambda xs: coq_list((coq_bytes(x) for x in xs), "(list N)")
    return f"({coq_bytes(H(case['method']))}, {cl(segs[:k])}, {cl(segs[k:])}, {t}, {coq_bool(case['lose'])})"


def model_equal(case, impl_obs, model_obs):
    if impl_obs == "TIMING-NOT-APPLICABLE":
        return True
    return impl_obs == model_obs


def shrink(case):
    if case.get("kind") == "two":
        ops = case["ops2"]
        for i in range(len(ops)):
            if ops[i][0] != "data":
                yield {**case, "ops2": ops[:i] + ops[i + 1:]}
        if len(case["segs1"]) > 1:
            yield {**case, "segs1": ["".join(case["segs1"])]}
        return
    if case.get("kind") == "proto":
        ops = case["ops"]
        for i in range(len(ops)):
            yield {**case, "ops": ops[:i] + ops[i + 1:]}
        return
    segs = case["segs"]
    if len(segs) > 1:
        yield {**case, "segs": ["".join(segs)], "k": min(case["k"], 1)}
    if case["persistent"]:
        yield {**case, "persistent": False}


def histogram(case, obs):
    if case.get("kind") == "two":
        return f"two:{case['issue']}:{case['deliver1']}:{case['req2']}"
    if case.get("kind") == "proto":
        ks = {o[0] for o in case["ops"]}
        return ("proto:" + ("transmitting" if case["transmitting"] else "waiting") + (":abort" if "abort" in ks else "")
                + (":cancel" if "cancel" in ks else "") + (":lost" if "lost" in ks else ""))
    d = case.get("desc")
    kind = "malformed/h11" if d is None else f"{d['method']}:{d['framing']}"
    return kind + ":" + case["timing"] + (":lost" if case["lose"] else ":open")


SPEC = Spec(
    pid="C23",
    gen=gen, impl=impl, oracle=oracle, corpus=corpus, shrink=shrink,
    regen=lambda: pins.check(REPO),
    coq_header="From C23 Require Import Model Protocol Run.",
    coq_fn="run_show_all",
    to_coq=to_coq,
    model_equal=model_equal,
    nontrivial=lambda c, o: c.get("kind") in ("proto", "two") or c["t"] > 0,
    histogram=histogram,
    rule="responses built from structured descriptions (GET/HEAD x 200/204/304/404 x Content-Length / duplicated "
         "Content-Length / chunked with extensions and trailers / close-delimited; 0-2 interim 1xx; CRLF or bare LF; "
         "folded, empty and Connection: close headers; missing/empty reason phrase; odd versions; trailing bytes) plus 24 "
         "malformed streams and 3 h11-serialised responses; EVERY truncation point of each (65% sampled in quick) x "
         "random segmentation x deliverBody never / in the callback / after a random number of segments / after the "
         "connection is lost x connection lost or left open x persistent or not; distinct by (case, observation)",
    trusted=["hand-written model coq/C23/Model.v (pstep/parse = the parser as a framed receiver fed delivery by delivery; "
             "run = event machine), tied by this correspondence run only",
             "the oracle derives the expected events from the structured description of the response"],
    assumptions=["the request has been written completely before the response arrives (state WAITING)",
                 "lines shorter than LineReceiver.MAX_LENGTH (16384) and chunk-size lines shorter than 1024",
                 "deliverBody is called at most once"],
)
