"""C01 — Deferred callback chains compute what a sequential interpreter predicts.
H-tie: kernel model coq/Lib/DeferredK.v (iterative loop, proved to refine the recursive interpreter C01.Model.SRun)
against real Deferreds.  Oracle: an independently written *recursive* reference interpreter of the documented
chaining rules (below); a difference that leaves callbacks stranded on a fired, unpaused, non-waiting Deferred is
tagged as such."""
from __future__ import annotations

import itertools

from harness import deferredk as K
from harness.common import Failure, Spec

# the recursive reference interpreter (documented rules, not the implementation's loop) lives in harness/deferredk.py
reference = K.reference


def _stranded(final):
    """Deferreds that have fired, are not paused, are not waiting on a Deferred and still have pending callbacks"""
    out = []
    for i, st in enumerate(final.split(" ") if final else []):
        called, res, paused, pend = st.split(":")
        if called == "T" and paused == "0" and not res.startswith("D") and pend != "[]":
            out.append((i, pend))
    return out


def oracle(case, obs):
    body, _, final = obs.partition(" | ")
    # a callback that raises ANY exception (also a BaseException that is not an Exception) must turn into a failure
    # result for the next errback; nothing may escape from callback()/errback()/addCallback()/unpause()
    for k, e in enumerate(body.split(" ")):
        for tok in e.split(","):
            if tok.startswith("!"):
                n = int(tok[1:])
                cls = K.exc_class(n).__name__
                return Failure(case, f"op {k} {case['ops'][k]}: exception {cls} raised by a callback escaped from the "
                               "call instead of becoming the Deferred's failure result",
                               "callback-exception-escaped:" + ("base-exception" if n >= 100 else "exception"))
    want = reference(case)
    if want == obs:
        return None
    wfinal = want.partition(" | ")[2]
    extra = [x for x in _stranded(final) if x not in _stranded(wfinal)]
    if extra:
        i, pend = extra[0]
        user_pause = any(o[0] == "pause" for o in case["ops"])
        return Failure(case, f"Deferred {i} has fired, is not paused and is not waiting, yet its callbacks {pend} never "
                       f"ran (the sequential interpreter runs them: {want})",
                       "stranded-callbacks-paused-chainee" if user_pause else "stranded-callbacks")
    wb = want.partition(" | ")[0].split(" ")
    ob = body.split(" ")
    for k, (a, b) in enumerate(zip(wb, ob)):
        if a != b:
            return Failure(case, f"op {k} {case['ops'][k]}: implementation {b}, sequential interpreter {a}",
                           "differs-from-interpreter:" + case["ops"][k][0])
    return Failure(case, f"final state: implementation {final}, sequential interpreter {wfinal}",
                   "differs-from-interpreter:final")


# ---------------------------------------------------------------------------------------------------
# generators

LETTERS = {
    "A": ["add", 1, ["ret", ["D", 0]], None],     # outer's callback returns the inner Deferred
    "a": ["add", 0, ["pass"], ["pass"]],          # a callback on the inner Deferred
    "b": ["add", 1, ["pass"], ["pass"]],          # a callback on the outer Deferred
    "0": ["cb", 0, 5],
    "1": ["cb", 1, 1],
    "E": ["eb", 0, 2],
    "X": ["add", 0, ["raise", 102], ["raise", 100]],   # inner's callback raises SystemExit (errback: GeneratorExit)
    "h": ["add", 0, None, ["ret", ["I", 4]]],          # an errback on the inner Deferred that recovers
    "P": ["pause", 1], "U": ["unpause", 1],
    "p": ["pause", 0], "u": ["unpause", 0],
}


def word_case(word):
    return {"canc": [["none"], ["none"]], "ops": [LETTERS[c] for c in word], "word": "".join(word)}


def chain_scenario(rng):
    """a chain of Deferreds waiting on each other, with callbacks added late and pauses placed on waiting ones"""
    nd = rng.randrange(2, 6)
    order = list(range(nd))
    rng.shuffle(order)
    links = list(zip(order[1:], order[:-1]))          # (outer, inner)
    ops = []
    for o, i in links:
        two = [["add", o, ["ret", ["D", i]], None], [rng.choice(["cb", "eb"]), o, rng.randrange(3)]]
        if two[1][0] == "eb":
            two[0] = ["add", o, None, ["ret", ["D", i]]]
        if rng.random() < 0.3:
            two.reverse()
        ops += two
    extra = []
    for _ in range(rng.randrange(0, 6)):
        d = rng.randrange(nd)
        r = rng.random()
        if r < 0.45:
            extra.append(["add", d, K.rand_beh(rng, nd, None), K.rand_beh(rng, nd, None, ) if rng.random() < 0.4 else None])
        elif r < 0.8:
            extra.append(["pause", d])
        else:
            extra.append(["unpause", d])
    ops += extra
    ops.append([rng.choice(["cb", "cb", "eb"]), order[0], rng.randrange(5)])
    tail = []
    for o in extra:
        if o[0] == "pause" and rng.random() < 0.7:
            tail.append(["unpause", o[1]])
    for _ in range(rng.randrange(0, 3)):
        tail.append(["add", rng.randrange(nd), K.rand_beh(rng, nd, None), None])
    rng.shuffle(tail)
    return {"canc": [["none"]] * nd, "ops": ops + tail}


def reentrant_scenario(rng):
    """Deferreds waiting on each other; the waiting ones still have callbacks queued, some of which run kernel
    operations when they execute (add a callback to their own Deferred or to one lower on the chain stack, fire /
    pause / unpause another one); then the innermost fires (or is unpaused) and everything resumes from ITS walk"""
    nd = rng.randrange(2, 5)
    order = list(range(nd))
    rng.shuffle(order)
    links = list(zip(order[1:], order[:-1]))          # (outer, inner)
    ops = []
    for o, i in links:
        ops.append(["add", o, ["ret", ["D", i]], None])
    def script_for(o):
        sops = []
        for _ in range(rng.randrange(1, 3)):
            r = rng.random()
            t = o if r < 0.5 else rng.choice(order)
            kind = rng.random()
            if kind < 0.6:
                sops.append(["add", t, rng.choice([["pass"], ["ret", ["I", rng.randrange(10)]], ["raise", 1]]),
                             None if rng.random() < 0.6 else ["ret", ["I", 7]]])
            elif kind < 0.75:
                sops.append(["unpause", t])
            elif kind < 0.85:
                sops.append(["pause", t])
            else:
                sops.append(["cb", t, rng.randrange(10)])
        return ["script", sops, rng.choice([["pass"], ["ret", ["I", rng.randrange(10)]], ["raise", 2], ["ret", ["F", 1]]])]
    for o in order:
        for _ in range(rng.randrange(0, 4)):
            b = script_for(o) if rng.random() < 0.5 else rng.choice([["pass"], ["ret", ["I", rng.randrange(10)]], ["raise", 0]])
            ops.append(["add", o, b, None] if rng.random() < 0.7 else ["add", o, b, b])
    fires = [[rng.choice(["cb", "cb", "eb"]), o, rng.randrange(5)] for o, _ in links]
    if rng.random() < 0.5:
        fires.reverse()
    ops += fires
    inner = order[0]
    if rng.random() < 0.3:
        ops += [["pause", inner], [rng.choice(["cb", "eb"]), inner, rng.randrange(5)], ["unpause", inner]]
    else:
        ops.append([rng.choice(["cb", "cb", "eb"]), inner, rng.randrange(5)])
    for _ in range(rng.randrange(0, 3)):
        ops.append(["add", rng.choice(order), ["pass"], None])
    return {"canc": [["none"]] * nd, "ops": ops}


W = {"add": 6, "cb": 3, "eb": 1.5, "pause": 1.5, "unpause": 1.5}


def gen(rng, tier):
    cases = []
    letters = "Aa01PUpu" if tier == "quick" else "Aab01EXhPUpu"
    depth = 5 if tier == "quick" else 6
    for n in range(1, depth + 1):
        for word in itertools.product(letters, repeat=n):
            if tier == "quick" and n == 5 and rng.random() > 0.04:
                continue
            if tier == "quick" and n == 4 and rng.random() > 0.4:
                continue
            if tier != "quick" and n == 6 and rng.random() > 0.01:
                continue
            if tier != "quick" and n == 5 and rng.random() > 0.15:
                continue
            cases.append(word_case(word))
    for _ in range(1000 if tier == "quick" else 15000):
        cases.append(chain_scenario(rng))
    for _ in range(700 if tier == "quick" else 15000):
        cases.append(K.rand_program(rng, rng.randrange(1, 7), rng.randrange(2, 21), weights=W, cancellers=False))
    # callbacks that run kernel operations (re-entrancy)
    for _ in range(500 if tier == "quick" else 12000):
        cases.append(reentrant_scenario(rng))
    for _ in range(350 if tier == "quick" else 12000):
        cases.append(K.rand_script_program(rng, rng.randrange(1, 6), rng.randrange(2, 16), cancellers=False))
    # how a failure is handed to errback must not matter (bare errback() inside an except block, errback(None), ...)
    cases += K.with_errback_forms(cases, rng, 0.08 if tier == "quick" else 0.05)
    # Deferred debugging switched on / off in the middle of a program must not change anything observable
    cases += K.with_debug_flips(cases, rng, 0.05 if tier == "quick" else 0.03)
    # the exact type of a Deferred must not matter: a sample once more with trivial-subclass instances
    cases += K.with_subclasses(cases, rng, 0.06 if tier == "quick" else 0.04)
    # Deferred debugging must not change anything observable
    cases += K.with_debug(cases, rng, 0.08 if tier == "quick" else 0.04)
    return cases


def corpus():
    return [
        word_case("A1aP0"),                    # DESIGN.md section 6, F1
        word_case("A1aP0U"),
        word_case("A1Pa0Ub"),
        word_case("A1p0au"),                   # inner paused by the user, fired, callbacks added, unpaused
        word_case("01A"),                      # inner already fired: its result is taken
        # seeded C01-C: outer waits on inner; a remaining callback of outer adds a callback to outer while it runs
        # inside inner's walk: it must only be appended and run after the running one, with its result
        {"canc": [["none"]] * 2, "ops": [["add", 1, ["ret", ["D", 0]], None],
                                         ["add", 1, ["script", [["add", 1, ["ret", ["I", 3]], None]], ["ret", ["I", 2]]], None],
                                         ["add", 1, ["pass"], None], ["cb", 1, 1], ["add", 0, ["pass"], None], ["cb", 0, 5]]},
        {"canc": [["none"]] * 2, "ops": [["cb", 0, 5], ["pause", 0], ["add", 1, None, ["ret", ["D", 0]]],
                                         ["add", 1, None, ["script", [["add", 1, ["pass"], ["pass"]]], ["raise", 2]]],
                                         ["add", 1, ["ret", ["I", 1]], ["ret", ["I", 2]]], ["eb", 1, 1], ["unpause", 0]]},
        # a callback that pauses / fires / adds to other Deferreds, and one hitting AlreadyCalledError inside
        {"canc": [["none"]] * 3, "ops": [["add", 0, ["script", [["cb", 1, 4], ["pause", 0], ["add", 2, ["pass"], None]], ["pass"]], None],
                                         ["add", 0, ["script", [["cb", 1, 5]], ["ret", ["I", 1]]], ["pass"]],
                                         ["add", 0, None, ["ret", ["I", 9]]], ["add", 1, ["script", [["cb", 2, 6]], ["ret", ["D", 2]]], None],
                                         ["cb", 0, 0], ["unpause", 0]]},
        word_case("A1Xh0a"),                   # a callback raising SystemExit: the next errback must get it
        word_case("0XXha"),                    # GeneratorExit raised by an errback
        {"canc": [["none"]] * 2, "ops": [["add", 1, ["ret", ["D", 0]], None], ["cb", 1, 1], ["add", 0, ["raise", 103], None],
                                         ["add", 0, None, ["pass"]], ["add", 1, None, ["ret", ["I", 7]]], ["cb", 0, 2],
                                         ["add", 0, ["raise", 101], ["raise", 104]], ["add", 0, ["pass"], ["pass"]]]},
        {"canc": [["none"]] * 3, "ops": [["add", 2, ["ret", ["D", 1]], None], ["add", 1, ["ret", ["D", 0]], None],
                                         ["cb", 2, 1], ["cb", 1, 2], ["add", 1, ["pass"], None], ["pause", 2],
                                         ["add", 0, ["raise", 1], None], ["cb", 0, 3], ["add", 1, None, ["ret", ["I", 4]]],
                                         ["unpause", 2]]},
        {"canc": [["none"]], "ops": [["add", 0, ["ret", ["D", 0]], None], ["cb", 0, 1], ["add", 0, ["pass"], None],
                                     ["unpause", 0]]},          # a callback returning its own Deferred
        {"canc": [["none"]] * 2, "ops": [["unpause", 0], ["cb", 0, 1], ["add", 0, ["pass"], None], ["pause", 0],
                                         ["add", 0, ["pass"], None]]},   # unbalanced unpause: negative pause count
    ]


def shrink(case):
    ops = case["ops"]
    extra = {k: case[k] for k in ("debug", "cls") if k in case}
    for i in range(len(ops)):
        yield {"canc": case["canc"], "ops": ops[:i] + ops[i + 1:], **extra}


def histogram(case, obs):
    if K.has_scripts(case):
        return f"with scripts nd={len(case['canc'])}" + (" (debug)" if case.get("debug") else "")
    if case.get("debug"):
        return "under defer.setDebugging(True)"
    if case.get("word"):
        return f"word len={len(case['word'])}"
    chained = sum(1 for o in case["ops"] if o[0] == "add" and any(b and b[0] == "ret" and b[1][0] == "D" for b in o[2:4]))
    return f"program nd={len(case['canc'])} ops={5 * (len(case['ops']) // 5)}+ returnsDeferred={'yes' if chained else 'no'}"


SPEC = Spec(
    pid="C01",
    gen=gen, impl=K.run_program, oracle=oracle, corpus=corpus, shrink=shrink,
    coq_header="From TwLib Require Import DeferredK DeferredKShow DeferredKR DeferredKRShow.\nFrom C01 Require Import Run.",
    coq_fn="show_any",
    to_coq=K.coq_any_program,
    nontrivial=lambda c, o: "R" in o,
    histogram=histogram,
    describe=lambda c: {"n_deferreds": len(c["canc"]), "ops": c["ops"][:14], "debug": bool(c.get("debug"))},
    rule="every program of length <= 3, 40% of length 4, 4% of length 5 (quick) / <= 4, 15% of 5, 1% of 6 over a "
         "12-letter alphabet (thorough) on two Deferreds {outer callback returns inner, add pass-through callback to "
         "inner / outer, fire inner / outer, pause / unpause inner / outer}; 1 000 (15 000) chain scenarios (2-5 "
         "Deferreds waiting on each other, late callbacks, pauses on waiting Deferreds, unbalanced unpauses); 700 "
         "(15 000) random programs over 1-6 Deferreds, 2-20 operations, callback behaviours {value, None, Failure, "
         "Deferred d_i, raise (Exception subclasses and GeneratorExit / asyncio.CancelledError / SystemExit / "
         "KeyboardInterrupt / a BaseException subclass), pass-through} on either or both sides.  500 (12 000) re-entrant scenarios and 350 (12 000) random programs whose callbacks run scripts of kernel operations (add to the running or to any other Deferred, callback / errback / pause / unpause / cancel), evaluated on the re-entrant kernel DeferredKR; 10% (5%) of all cases once more with trivial Deferred-subclass instances, 8% (4%) under defer.setDebugging(True).  non-trivial = at least one user callback ran; "
         "distinct by (case, observation)",
    trusted=["hand-written kernel model coq/Lib/DeferredK.v (tied by this correspondence run only)",
             "callbacks are fixed behaviours or scripts of kernel operations followed by a fixed behaviour (re-entrant kernel "
             "coq/Lib/DeferredKR.v, which has no refinement theorem of its own yet: see design.d/C01.md)",
             "the recursive reference interpreter in harness/c01.py (oracle), harness/deferredk.py driver"],
    assumptions=["no cancel() in C01 programs (C03 covers it); chainDeferred, timeouts, debug mode outside the model"],
)


def main(tier, seed, replay):
    return K.run_spec_sharded(SPEC, tier, seed, replay)
